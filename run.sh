#!/bin/bash
# Usage: ./run.sh <property-id> quick|thorough      decide one property on /repo's working tree
#        ./run.sh --replay <file>                   re-run the property named in a replay file
#        ./run.sh --build                           (re)build the checker from the vendored module
# Exit 0: property held on everything analysed (KNOWN-FINDING lines possible);
# exit 1: "VIOLATION property=<id> replay=<path>".
set -u
cd "$(dirname "$0")"
VERIF="$(pwd)"
export PATH=/opt/veriftools/go1.26.8/bin:$PATH
export GOFLAGS=-mod=mod GOPROXY=off GOSUMDB=off GOTOOLCHAIN=local CARGO_NET_OFFLINE=true
unset GOWORK
REPO="${VERIF_REPO:-/repo}"
BIN="$VERIF/bin/serfcheck"

build() {
  mkdir -p "$VERIF/bin"
  (cd "$VERIF/checker" && GOFLAGS=-mod=vendor go build -o "$BIN" ./cmd/serfcheck) || { echo "ERROR: cannot build serfcheck"; exit 2; }
}

needs_build() {
  [ -x "$BIN" ] || return 0
  [ -n "$(find "$VERIF/checker" -name '*.go' -newer "$BIN" -not -path '*/vendor/*' -print -quit)" ] && return 0
  return 1
}

if [ "${1:-}" = "--build" ]; then build; exit 0; fi
if needs_build; then build; fi

if [ "${1:-}" = "--replay" ]; then
  exec "$BIN" -repo "$REPO" -verif "$VERIF" -replay "$2" -tier quick
fi
ID="${1:?property id}"
TIER="${2:-${VERIF_TIER:-quick}}"
exec "$BIN" -repo "$REPO" -verif "$VERIF" -prop "$ID" -tier "$TIER"
