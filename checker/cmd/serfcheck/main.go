// serfcheck decides the fixed property list of /verif/properties.jsonl for
// hashicorp/serf by static analysis of the working tree (go/types + go/ssa).
package main

import (
	"flag"
	"fmt"
	"os"
	"os/exec"
	"path/filepath"
	"runtime/debug"
	"sort"
	"strconv"
	"strings"
	"sync"
	"time"

	"serfcheck/an"
	"serfcheck/rules"
)

func main() {
	prop := flag.String("prop", "", "property id (C02..C36)")
	tier := flag.String("tier", "quick", "quick|thorough")
	repo := flag.String("repo", "/repo", "repository root")
	verif := flag.String("verif", "/verif", "verification root (evidence, known findings)")
	mutant := flag.String("mutant", "", "run the rule on one self-test mutant overlay and report FIRED/SILENT/SKIPPED")
	listMut := flag.Bool("list-mutants", false, "list self-test mutants of -prop")
	dump := flag.String("dump", "", "debug: dump functions whose qualified name contains this substring")
	replay := flag.String("replay", "", "replay file: re-run the property named in it")
	flag.Parse()

	if *replay != "" {
		b, err := os.ReadFile(*replay)
		if err == nil {
			s := string(b)
			if i := strings.Index(s, `"property_id": "`); i >= 0 {
				*prop = s[i+16 : i+19]
			}
		}
	}
	if *dump == "@funcs" {
		p, err := an.Load(*repo, nil, false)
		if err != nil {
			fmt.Println("ERROR", err)
			os.Exit(2)
		}
		for _, f := range p.Funcs {
			if f.Parent() == nil && f.Synthetic == "" {
				fmt.Println(an.QualName(f))
			}
		}
		return
	}
	if *dump != "" {
		p, err := an.Load(*repo, nil, false)
		if err != nil {
			fmt.Println("ERROR", err)
			os.Exit(2)
		}
		locks := an.NewLocks(p)
		for _, f := range p.Funcs {
			if strings.Contains(an.QualName(f), *dump) {
				an.Dump(os.Stdout, p, f, locks)
			}
		}
		return
	}
	r := rules.All[*prop]
	if r == nil {
		fmt.Printf("unknown property %q; known:", *prop)
		var ids []string
		for id := range rules.All {
			ids = append(ids, id)
		}
		sort.Strings(ids)
		fmt.Println(" " + strings.Join(ids, " "))
		os.Exit(2)
	}
	if *listMut {
		for _, m := range r.Mutants {
			fmt.Println(m.Name)
		}
		return
	}
	seed := int64(0)
	if s := os.Getenv("VERIF_SEED"); s != "" {
		seed, _ = strconv.ParseInt(s, 10, 64)
	}
	if t := os.Getenv("VERIF_TIER"); t != "" && *tier == "" {
		*tier = t
	}
	start := time.Now()

	if *mutant != "" {
		os.Exit(runMutant(r, *repo, *mutant))
	}

	full := *tier == "thorough"
	c, err := analyse(r, *repo, nil, full, *tier)
	if err != nil {
		// fail closed: load / type-check errors and checker panics are violations
		fmt.Printf("ERROR %v\n", err)
		rdir := filepath.Join(*verif, "replay")
		os.MkdirAll(rdir, 0o755)
		rf := filepath.Join(rdir, r.ID+".json")
		os.WriteFile(rf, []byte(fmt.Sprintf("{\"property_id\": %q, \"error\": %q}\n", r.ID, err.Error())), 0o644)
		fmt.Printf("VIOLATION property=%s replay=%s\n", r.ID, rf)
		os.Exit(1)
	}
	extra := map[string]any{}
	// self-test: positive controls
	if os.Getenv("VERIF_NO_SELFTEST") == "" {
		extra["selftest"] = selfTest(r, *repo, *tier, seed)
	}
	code := c.Finish(*verif, seed, start, extra)
	os.Exit(code)
}

func analyse(r *rules.Rule, repo string, overlay map[string][]byte, full bool, tier string) (c *an.Ctx, err error) {
	defer func() {
		if e := recover(); e != nil {
			err = fmt.Errorf("checker panic: %v\n%s", e, debug.Stack())
		}
	}()
	p, err := an.Load(repo, overlay, full)
	if err != nil {
		return nil, err
	}
	c = an.NewCtx(p, r.ID, tier)
	c.Explain = r.Explain
	r.Run(c)
	return c, nil
}

// runMutant applies one mutant as an overlay and reports whether the rule
// fires on it. Exit code 0 FIRED, 3 SILENT, 4 SKIPPED.
func runMutant(r *rules.Rule, repo, name string) int {
	for _, m := range r.Mutants {
		if m.Name != name {
			continue
		}
		ov, ok := m.Overlay(repo)
		if !ok {
			fmt.Printf("MUTANT %s %s: SKIPPED (pattern does not apply to the current tree)\n", r.ID, name)
			return 4
		}
		c, err := analyse(r, repo, ov, false, "quick")
		if err != nil {
			if m.Equivalent {
				fmt.Printf("MUTANT %s %s: SKIPPED (variant does not compile: %v)\n", r.ID, name, firstLine(err.Error()))
				return 4
			}
			fmt.Printf("MUTANT %s %s: SKIPPED (mutant does not compile: %v)\n", r.ID, name, firstLine(err.Error()))
			return 4
		}
		base := baselineKeys(r, repo)
		var fired []string
		for _, o := range c.Obs {
			if (o.Status == "violated" || o.Status == "undecided") && !base[o.Key] {
				fired = append(fired, o.Key)
			}
		}
		if m.Equivalent {
			if len(fired) == 0 {
				fmt.Printf("MUTANT %s %s: SILENT (equivalent variant, as required)\n", r.ID, name)
				return 0
			}
			fmt.Printf("MUTANT %s %s: FIRED on an equivalent variant (false alarm): %s\n", r.ID, name, strings.Join(fired, "; "))
			return 3
		}
		hit := false
		for _, k := range fired {
			if m.Expect == "" || strings.Contains(k, m.Expect) {
				hit = true
			}
		}
		if hit {
			fmt.Printf("MUTANT %s %s: FIRED %s\n", r.ID, name, strings.Join(fired, "; "))
			return 0
		}
		fmt.Printf("MUTANT %s %s: SILENT (expected key containing %q; got %v)\n", r.ID, name, m.Expect, fired)
		return 3
	}
	fmt.Printf("MUTANT %s %s: unknown\n", r.ID, name)
	return 2
}

var baseCache map[string]bool

// baselineKeys are the violation keys on the unmodified tree (known findings
// and anything else already reported), so that a mutant only counts when it
// adds a new one.
func baselineKeys(r *rules.Rule, repo string) map[string]bool {
	if baseCache != nil {
		return baseCache
	}
	baseCache = map[string]bool{}
	c, err := analyse(r, repo, nil, false, "quick")
	if err != nil {
		return baseCache
	}
	for _, o := range c.Obs {
		if o.Status == "violated" || o.Status == "undecided" {
			baseCache[o.Key] = true
		}
	}
	return baseCache
}

func firstLine(s string) string {
	if i := strings.IndexByte(s, '\n'); i >= 0 {
		s = s[:i]
	}
	if len(s) > 200 {
		s = s[:200]
	}
	return s
}

// selfTest runs the positive controls: one seed-chosen mutant in the quick
// tier, all of them (each in a fresh process) in the thorough tier. The
// verdict on the tree never depends on the outcome; it is recorded in the
// evidence and printed.
func selfTest(r *rules.Rule, repo, tier string, seed int64) map[string]any {
	res := map[string]any{}
	if len(r.Mutants) == 0 {
		res["mutants"] = 0
		return res
	}
	exe, err := os.Executable()
	if err != nil {
		res["error"] = err.Error()
		return res
	}
	var todo []rules.Mutant
	if tier == "thorough" {
		todo = r.Mutants
	} else {
		var breaking []rules.Mutant
		for _, m := range r.Mutants {
			if !m.Equivalent {
				breaking = append(breaking, m)
			}
		}
		if len(breaking) > 0 {
			i := int(seed % int64(len(breaking)))
			if i < 0 {
				i = -i
			}
			todo = []rules.Mutant{breaking[i]}
		}
	}
	type out struct {
		name, line string
		code       int
	}
	outs := make([]out, len(todo))
	sem := make(chan struct{}, 6)
	var wg sync.WaitGroup
	for i, m := range todo {
		wg.Add(1)
		go func(i int, m rules.Mutant) {
			defer wg.Done()
			sem <- struct{}{}
			defer func() { <-sem }()
			cmd := exec.Command(exe, "-prop", r.ID, "-repo", repo, "-mutant", m.Name)
			b, err := cmd.CombinedOutput()
			code := 0
			if ee, ok := err.(*exec.ExitError); ok {
				code = ee.ExitCode()
			} else if err != nil {
				code = -1
			}
			line := ""
			for _, l := range strings.Split(string(b), "\n") {
				if strings.HasPrefix(l, "MUTANT ") {
					line = l
				}
			}
			if line == "" {
				line = firstLine(string(b))
			}
			outs[i] = out{m.Name, line, code}
		}(i, m)
	}
	wg.Wait()
	var fired, silent, skipped, falseAlarm []string
	for i, o := range outs {
		fmt.Println("  selftest:", o.line)
		switch {
		case o.code == 0:
			fired = append(fired, o.name)
		case o.code == 4:
			skipped = append(skipped, o.name)
		case o.code == 3 && todo[i].Equivalent:
			falseAlarm = append(falseAlarm, o.name)
		default:
			silent = append(silent, o.name)
		}
	}
	res["mutants_total"] = len(r.Mutants)
	res["mutants_run"] = len(todo)
	res["as_expected"] = fired
	res["breaking_mutants_missed"] = silent
	res["equivalent_variants_flagged"] = falseAlarm
	res["skipped"] = skipped
	if len(silent) > 0 || len(falseAlarm) > 0 {
		fmt.Printf("WARNING selftest of %s: missed=%v false-alarms=%v (recorded in evidence; the verdict on the tree does not depend on it)\n", r.ID, silent, falseAlarm)
	}
	return res
}
