// Package an is the analysis engine shared by the per-property rules: program
// loading, SSA helpers (access paths, reach/cut, guards, must-pass), lockset,
// ownership enumeration and reporting.
package an

import (
	"fmt"
	"go/ast"
	"go/token"
	"go/types"
	"os"
	"path/filepath"
	"sort"
	"strings"

	"golang.org/x/tools/go/packages"
	"golang.org/x/tools/go/ssa"
	"golang.org/x/tools/go/ssa/ssautil"
)

// Module path prefix of the analysed repository.
const Mod = "github.com/hashicorp/serf"

// Well-known package paths.
const (
	PkgSerf   = Mod + "/serf"
	PkgCoord  = Mod + "/coordinate"
	PkgClient = Mod + "/client"
	PkgAgent  = Mod + "/cmd/serf/command/agent"
	PkgCmd    = Mod + "/cmd/serf/command"
)

// Prog is the loaded, type-checked program with its SSA form.
type Prog struct {
	Dir   string
	Fset  *token.FileSet
	Pkgs  []*packages.Package
	ByPkg map[string]*packages.Package
	SSA   *ssa.Program
	Full  bool // whole program (dependencies have bodies)

	// Funcs are all functions with bodies that belong to the module,
	// including anonymous functions, sorted by position.
	Funcs []*ssa.Function

	fileOf map[*ast.File]*packages.Package
}

// ExpectedPkgs is the number of packages ./... must yield (fail closed).
const ExpectedPkgs = 10

// Load loads the module at dir. overlay maps absolute file names to
// replacement contents (used by self-test mutants). full selects whole-program
// loading (LoadAllSyntax) instead of syntax for the module packages only.
func Load(dir string, overlay map[string][]byte, full bool) (*Prog, error) {
	mode := packages.LoadSyntax
	if full {
		mode = packages.LoadAllSyntax
	}
	env := append(os.Environ(), "GOFLAGS=-mod=mod", "GOPROXY=off", "GOSUMDB=off", "GOTOOLCHAIN=local", "GOWORK=off")
	if _, err := os.Stat("/opt/veriftools/go1.26.8/bin/go"); err == nil {
		// the repository needs go >= 1.25; the default go on PATH is older
		if !strings.HasPrefix(os.Getenv("PATH"), "/opt/veriftools/go1.26.8/bin:") {
			os.Setenv("PATH", "/opt/veriftools/go1.26.8/bin:"+os.Getenv("PATH"))
		}
		env = append(env, "PATH="+os.Getenv("PATH"))
	}
	cfg := &packages.Config{Mode: mode | packages.NeedModule, Dir: dir, Overlay: overlay, Env: env, Tests: false}
	pkgs, err := packages.Load(cfg, "./...")
	if err != nil {
		return nil, fmt.Errorf("load: %v", err)
	}
	var errs []string
	packages.Visit(pkgs, nil, func(p *packages.Package) {
		for _, e := range p.Errors {
			errs = append(errs, e.Error())
		}
	})
	if len(errs) > 0 {
		if len(errs) > 8 {
			errs = errs[:8]
		}
		return nil, fmt.Errorf("type-check errors: %s", strings.Join(errs, "; "))
	}
	if len(pkgs) != ExpectedPkgs {
		return nil, fmt.Errorf("expected %d packages under ./..., loaded %d", ExpectedPkgs, len(pkgs))
	}
	p := &Prog{Dir: dir, Pkgs: pkgs, ByPkg: map[string]*packages.Package{}, Full: full, fileOf: map[*ast.File]*packages.Package{}}
	for _, pk := range pkgs {
		p.ByPkg[pk.PkgPath] = pk
		p.Fset = pk.Fset
		for _, f := range pk.Syntax {
			p.fileOf[f] = pk
		}
	}
	bmode := ssa.InstantiateGenerics | ssa.SanityCheckFunctions
	var prog *ssa.Program
	if full {
		prog, _ = ssautil.AllPackages(pkgs, bmode)
	} else {
		prog, _ = ssautil.Packages(pkgs, bmode)
	}
	prog.Build()
	p.SSA = prog
	for fn := range ssautil.AllFunctions(prog) {
		if fn.Blocks == nil || fn.Pkg == nil && fn.Parent() == nil {
			if fn.Blocks == nil {
				continue
			}
		}
		if InModule(fn) && fn.Synthetic == "" {
			p.Funcs = append(p.Funcs, fn)
		}
	}
	sort.Slice(p.Funcs, func(i, j int) bool {
		a, b := p.Funcs[i], p.Funcs[j]
		if a.Pos() != b.Pos() {
			return a.Pos() < b.Pos()
		}
		return a.String() < b.String()
	})
	initHelpers(p)
	return p, nil
}

// InModule reports whether fn (or its outermost parent) is declared in the
// analysed module.
func InModule(fn *ssa.Function) bool {
	for fn.Parent() != nil {
		fn = fn.Parent()
	}
	if fn.Pkg == nil || fn.Pkg.Pkg == nil {
		if o := fn.Origin(); o != nil && o != fn {
			return InModule(o)
		}
		return false
	}
	return strings.HasPrefix(fn.Pkg.Pkg.Path(), Mod)
}

// PkgPathOf returns the package path of fn (of its outermost parent).
func PkgPathOf(fn *ssa.Function) string {
	for fn.Parent() != nil {
		fn = fn.Parent()
	}
	if fn.Pkg != nil && fn.Pkg.Pkg != nil {
		return fn.Pkg.Pkg.Path()
	}
	if o := fn.Origin(); o != nil && o != fn {
		return PkgPathOf(o)
	}
	return ""
}

// Pos renders a position relative to the repository root.
func (p *Prog) Pos(pos token.Pos) string {
	if !pos.IsValid() {
		return "-"
	}
	ps := p.Fset.Position(pos)
	rel, err := filepath.Rel(p.Dir, ps.Filename)
	if err != nil {
		rel = ps.Filename
	}
	return fmt.Sprintf("%s:%d", rel, ps.Line)
}

// InstrPos returns the best position for an instruction (falling back to the
// enclosing function for NoPos instructions).
func (p *Prog) InstrPos(in ssa.Instruction) string {
	if in == nil {
		return "-"
	}
	pos := in.Pos()
	if !pos.IsValid() {
		if v, ok := in.(ssa.Value); ok {
			_ = v
		}
		// look at neighbours in the block
		b := in.Block()
		if b != nil {
			for _, x := range b.Instrs {
				if x.Pos().IsValid() {
					pos = x.Pos()
					break
				}
			}
		}
		if !pos.IsValid() && in.Parent() != nil {
			pos = in.Parent().Pos()
		}
	}
	return p.Pos(pos)
}

// Func finds a package-level function by package path and name.
func (p *Prog) Func(pkg, name string) *ssa.Function {
	sp := p.ssaPkg(pkg)
	if sp == nil {
		return nil
	}
	return sp.Func(name)
}

func (p *Prog) ssaPkg(pkg string) *ssa.Package {
	for _, sp := range p.SSA.AllPackages() {
		if sp.Pkg.Path() == pkg {
			return sp
		}
	}
	return nil
}

// Method finds method name on named type typ (pointer or value receiver)
// declared in pkg.
func (p *Prog) Method(pkg, typ, name string) *ssa.Function {
	sp := p.ssaPkg(pkg)
	if sp == nil {
		return nil
	}
	t := sp.Type(typ)
	if t == nil {
		return nil
	}
	nt := t.Type()
	for _, T := range []types.Type{types.NewPointer(nt), nt} {
		ms := p.SSA.MethodSets.MethodSet(T)
		for i := 0; i < ms.Len(); i++ {
			sel := ms.At(i)
			if sel.Obj().Name() == name {
				fn := p.SSA.MethodValue(sel)
				if fn != nil && fn.Synthetic == "" {
					return fn
				}
				// wrapper for value receiver: find the declared function
				if fn != nil {
					if f := p.SSA.FuncValue(sel.Obj().(*types.Func)); f != nil {
						return f
					}
				}
			}
		}
	}
	return nil
}

// NamedType returns the named type pkg.typ.
func (p *Prog) NamedType(pkg, typ string) *types.Named {
	pk := p.ByPkg[pkg]
	if pk == nil {
		// dependency: look through imports
		for _, q := range p.Pkgs {
			for path, imp := range q.Imports {
				if path == pkg && imp.Types != nil {
					if o := imp.Types.Scope().Lookup(typ); o != nil {
						if n, ok := o.Type().(*types.Named); ok {
							return n
						}
					}
				}
			}
		}
		return nil
	}
	o := pk.Types.Scope().Lookup(typ)
	if o == nil {
		return nil
	}
	n, _ := o.Type().(*types.Named)
	return n
}

// FuncsIn returns module functions (with bodies) of one package, including
// anonymous ones.
func (p *Prog) FuncsIn(pkgs ...string) []*ssa.Function {
	var out []*ssa.Function
	for _, f := range p.Funcs {
		if Transparent(f) {
			continue // a transparent helper is enumerated through its callers (Instrs is deep)
		}
		pp := PkgPathOf(f)
		for _, k := range pkgs {
			if pp == k {
				out = append(out, f)
				break
			}
		}
	}
	return out
}

// FuncName renders a short, stable name for a function: (*T).m, f, f$1.
func FuncName(fn *ssa.Function) string {
	if fn == nil {
		return "<nil>"
	}
	if Transparent(fn) {
		// a transparent helper is named after the known function(s) it is part of
		return OwnerName(fn)
	}
	return rawFuncName(fn)
}

// rawFuncName is the function's own name, whatever its role.
func rawFuncName(fn *ssa.Function) string {
	if fn == nil {
		return "<nil>"
	}
	if fn.Parent() != nil {
		return FuncName(fn.Parent()) + "$" + strings.TrimPrefix(fn.Name(), fn.Parent().Name()+"$")
	}
	if recv := fn.Signature.Recv(); recv != nil {
		t := recv.Type()
		ptr := ""
		if pt, ok := t.(*types.Pointer); ok {
			t = pt.Elem()
			ptr = "*"
		}
		if n, ok := t.(*types.Named); ok {
			return "(" + ptr + n.Obj().Name() + ")." + fn.Name()
		}
	}
	return fn.Name()
}

// QualName is FuncName prefixed by the last element of the package path.
func QualName(fn *ssa.Function) string {
	pp := PkgPathOf(fn)
	if i := strings.LastIndex(pp, "/"); i >= 0 {
		pp = pp[i+1:]
	}
	return pp + "." + rawFuncName(fn)
}

// Syntax returns the AST file set of a package.
func (p *Prog) Syntax(pkg string) []*ast.File {
	if pk := p.ByPkg[pkg]; pk != nil {
		return pk.Syntax
	}
	return nil
}

// Info returns the types.Info of a package.
func (p *Prog) Info(pkg string) *types.Info {
	if pk := p.ByPkg[pkg]; pk != nil {
		return pk.TypesInfo
	}
	return nil
}

// FuncDecl finds the AST declaration of a function or method ("T.m" or "f").
func (p *Prog) FuncDecl(pkg, name string) *ast.FuncDecl {
	for _, f := range p.Syntax(pkg) {
		for _, d := range f.Decls {
			fd, ok := d.(*ast.FuncDecl)
			if !ok {
				continue
			}
			n := fd.Name.Name
			if fd.Recv != nil && len(fd.Recv.List) > 0 {
				t := fd.Recv.List[0].Type
				if s, ok := t.(*ast.StarExpr); ok {
					t = s.X
				}
				if id, ok := t.(*ast.Ident); ok {
					n = id.Name + "." + n
				}
			}
			if n == name {
				return fd
			}
		}
	}
	return nil
}
