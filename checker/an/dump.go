package an

import (
	"fmt"
	"io"
	"strings"

	"golang.org/x/tools/go/ssa"
)

// Dump prints a function the way the rules see it: conditional edges with
// their facts, calls, stores, sends and returns, all as access paths.
func Dump(w io.Writer, p *Prog, fn *ssa.Function, locks *Locks) {
	fmt.Fprintf(w, "== %s  (%s)\n", QualName(fn), p.Pos(fn.Pos()))
	if locks != nil {
		fmt.Fprintf(w, "   entry-held %s\n", locks.Entry(fn))
	}
	for _, b := range fn.Blocks {
		var succ []string
		for _, s := range b.Succs {
			succ = append(succ, fmt.Sprint(s.Index))
		}
		fmt.Fprintf(w, " b%d [%s] -> %s\n", b.Index, b.Comment, strings.Join(succ, ","))
		for _, in := range b.Instrs {
			held := ""
			if locks != nil {
				if h := locks.Held(in); len(h) > 0 {
					held = "  " + h.String()
				}
			}
			line := p.InstrPos(in)
			if i := strings.LastIndex(line, ":"); i >= 0 {
				line = line[i+1:]
			}
			switch x := in.(type) {
			case *ssa.If:
				fmt.Fprintf(w, "   L%s if: T=%v  F=%v\n", line, CondFacts(x.Cond, true), CondFacts(x.Cond, false))
			case *ssa.Call:
				fmt.Fprintf(w, "   L%s call %s = %s%s\n", line, x.Name(), callPath(&x.Call, 0), held)
			case *ssa.Go:
				fmt.Fprintf(w, "   L%s go %s%s\n", line, callPath(&x.Call, 0), held)
			case *ssa.Defer:
				fmt.Fprintf(w, "   L%s defer %s\n", line, callPath(&x.Call, 0))
			case *ssa.Store:
				fmt.Fprintf(w, "   L%s store %s = %s%s\n", line, Path(x.Addr), Path(x.Val), held)
			case *ssa.MapUpdate:
				fmt.Fprintf(w, "   L%s mapupdate %s[%s] = %s%s\n", line, Path(x.Map), Path(x.Key), Path(x.Value), held)
			case *ssa.Send:
				fmt.Fprintf(w, "   L%s send %s <- %s%s\n", line, Path(x.Chan), Path(x.X), held)
			case *ssa.Return:
				var rs []string
				for _, r := range ResultValues(x) {
					rs = append(rs, Path(r))
				}
				fmt.Fprintf(w, "   L%s return %s\n", line, strings.Join(rs, ", "))
			case *ssa.Panic:
				fmt.Fprintf(w, "   L%s panic %s\n", line, Path(x.X))
			case *ssa.Select:
				var st []string
				for _, s := range x.States {
					d := "recv"
					if s.Dir == 1 {
						d = "send"
					}
					st = append(st, d+" "+Path(s.Chan))
				}
				fmt.Fprintf(w, "   L%s select %s blocking=%v [%s]\n", line, x.Name(), x.Blocking, strings.Join(st, "; "))
			case *ssa.Phi:
				var es []string
				for _, e := range x.Edges {
					es = append(es, Path(e))
				}
				fmt.Fprintf(w, "   L%s phi %s = [%s]\n", line, Path(x), strings.Join(es, " | "))
			case *ssa.RunDefers, *ssa.Jump, *ssa.DebugRef:
			default:
				if v, ok := in.(ssa.Value); ok {
					switch in.(type) {
					case *ssa.Slice, *ssa.IndexAddr, *ssa.Index, *ssa.TypeAssert, *ssa.MakeClosure, *ssa.Lookup, *ssa.BinOp, *ssa.MakeSlice, *ssa.Next:
						fmt.Fprintf(w, "   L%s %s = %s\n", line, v.Name(), Path(v))
					}
				}
			}
		}
	}
}
