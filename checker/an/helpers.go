package an

import (
	"go/token"
	"sort"

	"golang.org/x/tools/go/ssa"
)

// Transparent helpers.
//
// The rule tables name the repository's functions. A refactoring that moves a few statements into a
// new unexported function must not change any verdict, so a function that the reference tree did not
// have (refFuncs), that is unexported, is never used as a value, is only called by plain static calls
// and is not recursive is treated as part of its callers:
//   - its parameters are rendered in the caller's frame (when every call site passes the same paths),
//   - enumerations (Instrs, FindInstrs, CallsTo, StoresTo, EdgeFacts) of a caller include its body,
//   - reachability queries descend into it at the call and continue after it only if it can return,
//   - a guard question about one of its instructions may be answered at all of its call sites.
// Everything else about it is analysed like any other code, so hiding a defect in a new helper does
// not hide it from the rules.

var (
	helperSites   = map[*ssa.Function][]*ssa.Call{} // plain static call sites per callee
	helperEscapes = map[*ssa.Function]bool{}        // referenced as a value, go or defer target, or invoked dynamically
	helpersReady  bool
)

func initHelpers(p *Prog) {
	helperSites = map[*ssa.Function][]*ssa.Call{}
	helperEscapes = map[*ssa.Function]bool{}
	for _, f := range p.Funcs {
		for _, b := range f.Blocks {
			for _, in := range b.Instrs {
				var callee *ssa.Function
				if call, ok := in.(*ssa.Call); ok && !call.Call.IsInvoke() {
					if fn, ok := call.Call.Value.(*ssa.Function); ok {
						callee = fn
						helperSites[fn] = append(helperSites[fn], call)
					}
				}
				for _, op := range in.Operands(nil) {
					if op == nil || *op == nil {
						continue
					}
					if fn, ok := (*op).(*ssa.Function); ok {
						// the callee operand of a plain call is not an escape; anything else is
						if call, isCall := in.(*ssa.Call); isCall && call.Call.Value == ssa.Value(fn) && fn == callee {
							// still an escape if it is also passed as an argument
							for _, a := range call.Call.Args {
								if a == ssa.Value(fn) {
									helperEscapes[fn] = true
								}
							}
							continue
						}
						helperEscapes[fn] = true
					}
				}
			}
		}
	}
	helpersReady = true
}

// Transparent reports whether f is analysed as part of its callers.
func Transparent(f *ssa.Function) bool {
	if !helpersReady || f == nil || f.Blocks == nil || f.Parent() != nil || f.Synthetic != "" || !InModule(f) {
		return false
	}
	if token.IsExported(f.Name()) || f.Name() == "init" || f.Name() == "main" {
		return false
	}
	if refFuncs[QualName(f)] || helperEscapes[f] || len(helperSites[f]) == 0 {
		return false
	}
	// not (mutually) recursive through transparent helpers
	return !reachesSelf(f, f, map[*ssa.Function]bool{})
}

func reachesSelf(start, cur *ssa.Function, seen map[*ssa.Function]bool) bool {
	if seen[cur] {
		return false
	}
	seen[cur] = true
	for _, b := range cur.Blocks {
		for _, in := range b.Instrs {
			if call, ok := in.(*ssa.Call); ok {
				if fn, ok := call.Call.Value.(*ssa.Function); ok && fn.Blocks != nil && InModule(fn) && !refFuncs[QualName(fn)] {
					if fn == start || reachesSelf(start, fn, seen) {
						return true
					}
				}
			}
		}
	}
	return false
}

// transparentCallee returns the transparent helper called by in, or nil.
func transparentCallee(in ssa.Instruction) *ssa.Function {
	call, ok := in.(*ssa.Call)
	if !ok || call.Call.IsInvoke() {
		return nil
	}
	fn, ok := call.Call.Value.(*ssa.Function)
	if !ok || !Transparent(fn) {
		return nil
	}
	return fn
}

// HelperSites returns the call sites of a transparent helper (nil for any other function).
func HelperSites(f *ssa.Function) []*ssa.Call {
	if !Transparent(f) {
		return nil
	}
	return helperSites[f]
}

// Owners returns the functions known to the rule tables through which f's code runs: f itself when f
// is not a transparent helper, otherwise the owners of its callers.
func Owners(f *ssa.Function) []*ssa.Function {
	set := map[*ssa.Function]bool{}
	var walk func(g *ssa.Function, d int)
	walk = func(g *ssa.Function, d int) {
		if d > 4 || !Transparent(g) {
			set[g] = true
			return
		}
		for _, cs := range helperSites[g] {
			walk(cs.Parent(), d+1)
		}
	}
	walk(f, 0)
	var out []*ssa.Function
	for g := range set {
		out = append(out, g)
	}
	sort.Slice(out, func(i, j int) bool { return QualName(out[i]) < QualName(out[j]) })
	return out
}

// OwnerName is FuncName of f's single owner; when a helper is shared by several known functions the
// names are joined with "+" (no table lists such a name, so the rule reports it).
func OwnerName(f *ssa.Function) string {
	os := Owners(f)
	s := ""
	for i, o := range os {
		if i > 0 {
			s += "+"
		}
		s += rawFuncName(o)
	}
	return s
}

// deepFuncs lists fn and the transparent helpers reachable from it by plain calls.
func deepFuncs(fn *ssa.Function) []*ssa.Function {
	out := []*ssa.Function{fn}
	seen := map[*ssa.Function]bool{fn: true}
	for i := 0; i < len(out) && len(out) < 32; i++ {
		for _, b := range out[i].Blocks {
			for _, in := range b.Instrs {
				if h := transparentCallee(in); h != nil && !seen[h] {
					seen[h] = true
					out = append(out, h)
				}
			}
		}
	}
	return out
}

// inDeep reports whether g is fn or a transparent helper reachable from fn.
func inDeep(fn, g *ssa.Function) bool {
	for _, f := range deepFuncs(fn) {
		if f == g {
			return true
		}
	}
	return false
}

// CallerValue resolves a parameter of a transparent helper with a single call site to the argument
// passed there (repeatedly); any other value is returned unchanged.
func CallerValue(v ssa.Value) ssa.Value {
	for d := 0; d < 4; d++ {
		p, ok := v.(*ssa.Parameter)
		if !ok {
			return v
		}
		f := p.Parent()
		if !Transparent(f) || len(helperSites[f]) != 1 {
			return v
		}
		idx := -1
		for i, q := range f.Params {
			if q == p {
				idx = i
			}
		}
		args := helperSites[f][0].Call.Args
		if idx < 0 || idx >= len(args) {
			return v
		}
		v = args[idx]
	}
	return v
}

// SiteValues resolves a parameter of a transparent helper to the arguments passed at each of its call
// sites (recursively through nested helpers); any other value is returned as the only element. Rules
// that judge the shape of a value use it to judge a helper's parameter once per call site.
func SiteValues(v ssa.Value) []ssa.Value {
	var out []ssa.Value
	var walk func(v ssa.Value, d int)
	walk = func(v ssa.Value, d int) {
		p, ok := v.(*ssa.Parameter)
		if !ok || d > 3 {
			out = append(out, v)
			return
		}
		f := p.Parent()
		if !Transparent(f) {
			out = append(out, v)
			return
		}
		idx := -1
		for i, q := range f.Params {
			if q == p {
				idx = i
			}
		}
		for _, cs := range helperSites[f] {
			if idx >= 0 && idx < len(cs.Call.Args) {
				walk(cs.Call.Args[idx], d+1)
			} else {
				out = append(out, v)
			}
		}
	}
	walk(v, 0)
	return out
}
