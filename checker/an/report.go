package an

import (
	"bufio"
	"encoding/json"
	"fmt"
	"go/token"
	"os"
	"path/filepath"
	"sort"
	"strings"
	"time"

	"golang.org/x/tools/go/ssa"
)

// Ob is one proof obligation of a rule instance.
type Ob struct {
	Rule   string `json:"rule"`
	Key    string `json:"key"` // rule|construct, stable across unrelated edits
	Func   string `json:"func,omitempty"`
	Pos    string `json:"pos,omitempty"`
	Desc   string `json:"desc"`
	Status string `json:"status"` // discharged | violated | undecided | known
	How    string `json:"how,omitempty"`
}

// Ctx collects the obligations of one property run.
type Ctx struct {
	P        *Prog
	Prop     string
	Tier     string
	Obs      []Ob
	Floors   []string
	Exempt   []string
	Assume   []string
	Explain  string
	RuleText []string
	keys     map[string]int
	funcs    map[string]bool
}

func NewCtx(p *Prog, prop, tier string) *Ctx {
	return &Ctx{P: p, Prop: prop, Tier: tier, keys: map[string]int{}, funcs: map[string]bool{}}
}

func (c *Ctx) key(rule, construct string) string {
	k := rule + "|" + construct
	n := c.keys[k]
	c.keys[k] = n + 1
	if n > 0 {
		k = fmt.Sprintf("%s#%d", k, n)
	}
	return k
}

func (c *Ctx) posOf(at any) (pos, fn string) {
	switch x := at.(type) {
	case nil:
		return "-", ""
	case ssa.Instruction:
		if x == nil {
			return "-", ""
		}
		if x.Parent() != nil {
			fn = QualName(x.Parent())
		}
		return c.P.InstrPos(x), fn
	case *ssa.Function:
		if x == nil {
			return "-", ""
		}
		return c.P.Pos(x.Pos()), QualName(x)
	case token.Pos:
		return c.P.Pos(x), ""
	case string:
		return x, ""
	}
	return "-", ""
}

// Add records an obligation. at may be an ssa.Instruction, *ssa.Function,
// token.Pos or string.
func (c *Ctx) Add(ok bool, rule, construct string, at any, desc, how string) bool {
	pos, fn := c.posOf(at)
	st := "discharged"
	if !ok {
		st = "violated"
		how = ""
	}
	if fn != "" {
		c.funcs[fn] = true
	}
	c.Obs = append(c.Obs, Ob{Rule: rule, Key: c.key(rule, construct), Func: fn, Pos: pos, Desc: desc, Status: st, How: how})
	return ok
}

// Undecided records an obligation no discharge rule decides (fails closed).
func (c *Ctx) Undecided(rule, construct string, at any, desc string) {
	pos, fn := c.posOf(at)
	c.Obs = append(c.Obs, Ob{Rule: rule, Key: c.key(rule, construct), Func: fn, Pos: pos, Desc: desc, Status: "undecided"})
}

// Anchor records that a required construct could not be resolved.
func (c *Ctx) Anchor(rule, what string) {
	c.Obs = append(c.Obs, Ob{Rule: rule, Key: c.key(rule, "anchor:"+what), Desc: "anchor not resolved: " + what, Status: "violated"})
}

// NeedFunc resolves a function or records an anchor failure.
func (c *Ctx) NeedFunc(rule string, fn *ssa.Function, what string) bool {
	if fn == nil || fn.Blocks == nil {
		c.Anchor(rule, what)
		return false
	}
	c.funcs[QualName(fn)] = true
	return true
}

// Floor enforces a minimum instance count confirmed by hand.
func (c *Ctx) Floor(rule, what string, got, want int) {
	c.Floors = append(c.Floors, fmt.Sprintf("%s %s: got %d, floor %d", rule, what, got, want))
	if got < want {
		c.Obs = append(c.Obs, Ob{Rule: rule, Key: c.key(rule, "floor:"+what), Desc: fmt.Sprintf("instance count of %s fell below floor: got %d, want >= %d", what, got, want), Status: "violated"})
	}
}

// Exemption records a named exemption with its reason.
func (c *Ctx) Exemption(construct, reason string) {
	c.Exempt = append(c.Exempt, construct+": "+reason)
}

func (c *Ctx) Assumption(s string) { c.Assume = append(c.Assume, s) }

func (c *Ctx) Rule(s string) { c.RuleText = append(c.RuleText, s) }

// ---------------------------------------------------------------------------
// Known findings

// Known is one line of KNOWN_FINDINGS.txt.
type Known struct {
	Kind string // finding | fixed
	Prop string
	Key  string
	Text string
}

// LoadKnown parses the known-findings file. Format:
//
//	finding: property=C10 key=<rule|construct> <what fails>
//	fixed: property=C06 <commit> <what failed>
func LoadKnown(file string) ([]Known, error) {
	f, err := os.Open(file)
	if err != nil {
		if os.IsNotExist(err) {
			return nil, nil
		}
		return nil, err
	}
	defer f.Close()
	var out []Known
	sc := bufio.NewScanner(f)
	for sc.Scan() {
		l := strings.TrimSpace(sc.Text())
		if l == "" || strings.HasPrefix(l, "#") {
			continue
		}
		var k Known
		switch {
		case strings.HasPrefix(l, "finding:"):
			k.Kind = "finding"
			l = strings.TrimSpace(strings.TrimPrefix(l, "finding:"))
		case strings.HasPrefix(l, "fixed:"):
			k.Kind = "fixed"
			l = strings.TrimSpace(strings.TrimPrefix(l, "fixed:"))
		default:
			return nil, fmt.Errorf("bad known-findings line: %q", l)
		}
		fs := strings.Fields(l)
		rest := []string{}
		for _, w := range fs {
			switch {
			case strings.HasPrefix(w, "property=") && k.Prop == "":
				k.Prop = strings.TrimPrefix(w, "property=")
			case strings.HasPrefix(w, "key=") && k.Key == "" && k.Kind == "finding":
				k.Key = strings.TrimPrefix(w, "key=")
			default:
				rest = append(rest, w)
			}
		}
		k.Text = strings.Join(rest, " ")
		out = append(out, k)
	}
	return out, sc.Err()
}

// ---------------------------------------------------------------------------
// Verdict and evidence

type Verdict struct {
	Violations []Ob
	KnownHit   []Known
}

// Finish applies the known-findings list, writes the evidence file and the
// replay file, prints the protocol lines and returns the process exit code.
func (c *Ctx) Finish(verifDir string, seed int64, start time.Time, extra map[string]any) int {
	known, err := LoadKnown(filepath.Join(verifDir, "KNOWN_FINDINGS.txt"))
	if err != nil {
		fmt.Printf("ERROR reading KNOWN_FINDINGS.txt: %v\n", err)
		c.Obs = append(c.Obs, Ob{Rule: "known", Key: "known|parse", Desc: err.Error(), Status: "violated"})
	}
	kmap := map[string]Known{}
	for _, k := range known {
		if k.Kind == "finding" && k.Prop == c.Prop {
			kmap[k.Key] = k
		}
	}
	var viol []Ob
	nDis, nKnown := 0, 0
	constructs := map[string]bool{}
	for i := range c.Obs {
		o := &c.Obs[i]
		constructs[o.Rule+"@"+o.Func+"@"+o.Pos] = true
		switch o.Status {
		case "discharged":
			nDis++
		case "violated", "undecided":
			if k, ok := kmap[o.Key]; ok && o.Status == "violated" {
				o.Status = "known"
				nKnown++
				fmt.Printf("KNOWN-FINDING: property=%s %s [%s at %s]\n", c.Prop, k.Text, o.Key, o.Pos)
				continue
			}
			viol = append(viol, *o)
		}
	}
	sort.SliceStable(viol, func(i, j int) bool { return viol[i].Key < viol[j].Key })

	// samples: up to 12 obligations, violations first
	var samples []any
	for _, o := range viol {
		if len(samples) < 6 {
			samples = append(samples, o)
		}
	}
	seenRule := map[string]int{}
	for _, o := range c.Obs {
		if o.Status == "discharged" && seenRule[o.Rule] < 2 && len(samples) < 40 {
			seenRule[o.Rule]++
			samples = append(samples, o)
		}
	}
	var fns []string
	for f := range c.funcs {
		fns = append(fns, f)
	}
	sort.Strings(fns)
	byRule := map[string]int{}
	for _, o := range c.Obs {
		byRule[o.Rule]++
	}
	cov := map[string]any{
		"explanation":         c.Explain,
		"rule":                strings.Join(c.RuleText, " || "),
		"obligations":         len(c.Obs),
		"discharged":          nDis,
		"known_findings":      nKnown,
		"evaluations":         len(c.Obs),
		"distinct_nontrivial": len(constructs),
		"samples":             samples,
		"obligations_by_rule": byRule,
		"functions_analysed":  fns,
		"module_functions":    len(c.P.Funcs),
		"packages":            len(c.P.Pkgs),
		"floors":              c.Floors,
		"exemptions":          c.Exempt,
		"whole_program":       c.P.Full,
		"checker_cmd":         fmt.Sprintf("./run.sh %s %s", c.Prop, c.Tier),
		"trusted_base":        []string{"go/types, go/ssa (x/tools v0.50.0)", "Go memory model for sync and sync/atomic", "documented behaviour of memberlist, go-msgpack, os, regexp"},
	}
	for k, v := range extra {
		cov[k] = v
	}
	ev := map[string]any{
		"property_id": c.Prop,
		"tier":        c.Tier,
		"seed":        seed,
		"level":       "other",
		"coverage":    cov,
		"assumptions": c.Assume,
		"wall_s":      time.Since(start).Seconds(),
		"violations":  len(viol),
	}
	if c.Assume == nil {
		ev["assumptions"] = []string{}
	}
	os.MkdirAll(filepath.Join(verifDir, "evidence"), 0o755)
	writeJSON(filepath.Join(verifDir, "evidence", c.Prop+".json"), ev)

	fmt.Printf("property=%s tier=%s obligations=%d discharged=%d known=%d violations=%d functions=%d\n",
		c.Prop, c.Tier, len(c.Obs), nDis, nKnown, len(viol), len(fns))
	if len(viol) == 0 {
		return 0
	}
	rdir := filepath.Join(verifDir, "replay")
	os.MkdirAll(rdir, 0o755)
	rfile := filepath.Join(rdir, c.Prop+".json")
	writeJSON(rfile, map[string]any{"property_id": c.Prop, "tier": c.Tier, "violations": viol})
	for _, o := range viol {
		fmt.Printf("  %s: [%s] %s — %s (%s) key=%s\n", o.Pos, o.Status, o.Rule, o.Desc, o.Func, o.Key)
	}
	fmt.Printf("VIOLATION property=%s replay=%s\n", c.Prop, rfile)
	return 1
}

func writeJSON(file string, v any) {
	b, err := json.MarshalIndent(v, "", " ")
	if err != nil {
		panic(err)
	}
	if err := os.WriteFile(file, append(b, '\n'), 0o644); err != nil {
		panic(err)
	}
}
