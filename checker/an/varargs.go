package an

import (
	"go/constant"
	"sort"

	"golang.org/x/tools/go/ssa"
)

// VarArgs returns the values passed through the variadic parameter of a call
// (the elements stored into the implicit [n]T array that is sliced for the
// call), in index order. It returns nil when the last argument is not such a
// slice (e.g. an explicit xs... spread or a nil constant).
func VarArgs(call *ssa.CallCommon) []ssa.Value {
	if len(call.Args) == 0 {
		return nil
	}
	sl, ok := call.Args[len(call.Args)-1].(*ssa.Slice)
	if !ok {
		return nil
	}
	al, ok := sl.X.(*ssa.Alloc)
	if !ok || al.Referrers() == nil {
		return nil
	}
	type el struct {
		i int64
		v ssa.Value
	}
	var els []el
	for _, r := range *al.Referrers() {
		ia, ok := r.(*ssa.IndexAddr)
		if !ok || ia.Referrers() == nil {
			continue
		}
		idx, ok := ConstInt(ia.Index)
		if !ok {
			continue
		}
		for _, rr := range *ia.Referrers() {
			if st, ok := rr.(*ssa.Store); ok && st.Addr == ssa.Value(ia) {
				els = append(els, el{idx, st.Val})
			}
		}
	}
	sort.Slice(els, func(i, j int) bool { return els[i].i < els[j].i })
	out := make([]ssa.Value, len(els))
	for i, e := range els {
		out[i] = e.v
	}
	return out
}

// CalleeName0 names the callee of a call instruction: the static callee's
// CalleeName (generic instantiations keep their type arguments as a suffix),
// the builtin's name, or "" for dynamic calls.
func CalleeName0(call *ssa.Call) string {
	if b, ok := call.Call.Value.(*ssa.Builtin); ok {
		return b.Name()
	}
	if f := StaticCallee(&call.Call); f != nil {
		return CalleeName(f)
	}
	return ""
}

// ConstString returns the value of a string constant.
func ConstString(v ssa.Value) (string, bool) {
	c, ok := Strip(v).(*ssa.Const)
	if !ok || c.Value == nil || c.Value.Kind() != constant.String {
		return "", false
	}
	return constant.StringVal(c.Value), true
}
