package an

import (
	"go/token"

	"golang.org/x/tools/go/ssa"
)

// Access is one write (or channel operation) on a struct field found by the
// ownership enumeration.
type Access struct {
	Kind  string // store | mapupdate | delete | elemstore | send | close | recv | append-store
	Instr ssa.Instruction
	Fn    *ssa.Function
	Init  bool      // the struct was allocated in the same function (constructor-style initialisation)
	Val   ssa.Value // stored value / sent value where applicable
	Base  ssa.Value // the struct pointer/value the field belongs to
}

// baseIsFresh reports whether the struct whose field is addressed was
// allocated in this function (x := &T{...}; x.f = ...).
func baseIsFresh(fa *ssa.FieldAddr) bool {
	v := fa.X
	for {
		switch x := v.(type) {
		case *ssa.Alloc:
			return true
		case *ssa.FieldAddr:
			v = x.X
		default:
			return false
		}
	}
}

// loadedFrom returns the FieldAddr a value was loaded from, if it matches
// typ.field.
func loadedFrom(v ssa.Value, typ, field string) *ssa.FieldAddr {
	v = Strip(v)
	u, ok := v.(*ssa.UnOp)
	if !ok || u.Op != token.MUL {
		return nil
	}
	fa, ok := u.X.(*ssa.FieldAddr)
	if !ok {
		return nil
	}
	t, f, ok := FieldOf(fa)
	if !ok || t != typ || f != field {
		return nil
	}
	return fa
}

// FieldAccesses enumerates, over the given functions, every write to field
// typ.field: direct stores, map updates/deletes and element stores through a
// value loaded from the field, and channel sends/closes/receives on a channel
// loaded from the field.
func FieldAccesses(funcs []*ssa.Function, typ, field string) []Access {
	var out []Access
	for _, fn := range funcs {
		if Transparent(fn) {
			continue // seen through its callers
		}
		Instrs(fn, func(in ssa.Instruction) {
			switch x := in.(type) {
			case *ssa.Store:
				if fa, ok := x.Addr.(*ssa.FieldAddr); ok {
					if t, f, ok := FieldOf(fa); ok && t == typ && f == field {
						out = append(out, Access{Kind: "store", Instr: in, Fn: fn, Init: baseIsFresh(fa), Val: x.Val, Base: fa.X})
					}
				}
				if ia, ok := x.Addr.(*ssa.IndexAddr); ok {
					if fa := loadedFrom(ia.X, typ, field); fa != nil {
						out = append(out, Access{Kind: "elemstore", Instr: in, Fn: fn, Init: baseIsFresh(fa), Val: x.Val, Base: fa.X})
					}
				}
			case *ssa.MapUpdate:
				if fa := loadedFrom(x.Map, typ, field); fa != nil {
					out = append(out, Access{Kind: "mapupdate", Instr: in, Fn: fn, Init: baseIsFresh(fa), Val: x.Value, Base: fa.X})
				}
			case *ssa.Send:
				if fa := loadedFrom(x.Chan, typ, field); fa != nil {
					out = append(out, Access{Kind: "send", Instr: in, Fn: fn, Val: x.X, Base: fa.X})
				}
			case *ssa.UnOp:
				if x.Op == token.ARROW {
					if fa := loadedFrom(x.X, typ, field); fa != nil {
						out = append(out, Access{Kind: "recv", Instr: in, Fn: fn, Base: fa.X})
					}
				}
			case *ssa.Select:
				for _, st := range x.States {
					if fa := loadedFrom(st.Chan, typ, field); fa != nil {
						k := "recv"
						if st.Dir == 1 { // types.SendOnly
							k = "send"
						}
						out = append(out, Access{Kind: k, Instr: in, Fn: fn, Val: st.Send, Base: fa.X})
					}
				}
			case *ssa.Call:
				if b, ok := x.Call.Value.(*ssa.Builtin); ok && len(x.Call.Args) > 0 {
					switch b.Name() {
					case "delete":
						if fa := loadedFrom(x.Call.Args[0], typ, field); fa != nil {
							out = append(out, Access{Kind: "delete", Instr: in, Fn: fn, Base: fa.X})
						}
					case "close":
						if fa := loadedFrom(x.Call.Args[0], typ, field); fa != nil {
							out = append(out, Access{Kind: "close", Instr: in, Fn: fn, Base: fa.X})
						}
					}
				}
			}
		})
	}
	return out
}

// FieldReads enumerates loads of typ.field (address taken by FieldAddr and
// then loaded, or passed on as an address).
func FieldReads(funcs []*ssa.Function, typ, field string) []ssa.Instruction {
	var out []ssa.Instruction
	for _, fn := range funcs {
		if Transparent(fn) {
			continue
		}
		Instrs(fn, func(in ssa.Instruction) {
			u, ok := in.(*ssa.UnOp)
			if !ok || u.Op != token.MUL {
				return
			}
			if fa, ok := u.X.(*ssa.FieldAddr); ok {
				if t, f, ok := FieldOf(fa); ok && t == typ && f == field {
					out = append(out, in)
				}
			}
		})
	}
	return out
}
