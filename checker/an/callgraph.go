package an

import (
	"go/types"

	"golang.org/x/tools/go/callgraph"
	"golang.org/x/tools/go/callgraph/cha"
	"golang.org/x/tools/go/callgraph/vta"
	"golang.org/x/tools/go/ssa"
	"golang.org/x/tools/go/ssa/ssautil"
)

// CG is a call graph over module functions. In the quick tier it consists of
// static callees (call, go, defer, closures created) plus class-hierarchy
// resolution of interface calls against module methods; in the thorough tier
// (whole program) it is the VTA graph restricted to edges whose callee is in
// the module.
type CG struct {
	p     *Prog
	out   map[*ssa.Function]map[*ssa.Function]bool
	in    map[*ssa.Function]map[*ssa.Function]bool
	Kind  string
	Edges int
}

// NewCG builds the call graph appropriate for the loaded program.
func NewCG(p *Prog) *CG {
	g := &CG{p: p, out: map[*ssa.Function]map[*ssa.Function]bool{}, in: map[*ssa.Function]map[*ssa.Function]bool{}}
	add := func(a, b *ssa.Function) {
		if a == nil || b == nil {
			return
		}
		if g.out[a] == nil {
			g.out[a] = map[*ssa.Function]bool{}
		}
		if !g.out[a][b] {
			g.out[a][b] = true
			g.Edges++
		}
		if g.in[b] == nil {
			g.in[b] = map[*ssa.Function]bool{}
		}
		g.in[b][a] = true
	}
	if p.Full {
		g.Kind = "vta"
		all := ssautil.AllFunctions(p.SSA)
		cg := vta.CallGraph(all, cha.CallGraph(p.SSA))
		callgraph.GraphVisitEdges(cg, func(e *callgraph.Edge) error {
			if e.Caller.Func != nil && e.Callee.Func != nil && InModule(e.Caller.Func) {
				add(e.Caller.Func, e.Callee.Func)
			}
			return nil
		})
		// closures created are potential calls too (conservative for reachability)
		for _, f := range p.Funcs {
			InstrsShallow(f, func(in ssa.Instruction) {
				if mc, ok := in.(*ssa.MakeClosure); ok {
					if fn, ok := mc.Fn.(*ssa.Function); ok {
						add(f, fn)
					}
				}
			})
		}
		return g
	}
	g.Kind = "static+cha(module)"
	// index module methods by name for CHA-lite
	byName := map[string][]*ssa.Function{}
	for _, f := range p.Funcs {
		if f.Signature.Recv() != nil {
			byName[f.Name()] = append(byName[f.Name()], f)
		}
	}
	for _, f := range p.Funcs {
		InstrsShallow(f, func(in ssa.Instruction) {
			if mc, ok := in.(*ssa.MakeClosure); ok {
				if fn, ok := mc.Fn.(*ssa.Function); ok {
					add(f, fn)
				}
			}
			c := CallOf(in)
			if c == nil {
				// function values referenced as operands may be called later
				for _, op := range in.Operands(nil) {
					if op != nil && *op != nil {
						if fn, ok := (*op).(*ssa.Function); ok {
							add(f, fn)
						}
					}
				}
				return
			}
			if c.IsInvoke() {
				it, _ := c.Value.Type().Underlying().(*types.Interface)
				for _, m := range byName[c.Method.Name()] {
					rt := m.Signature.Recv().Type()
					if it == nil || types.Implements(rt, it) {
						add(f, m)
					}
				}
				return
			}
			if callee := StaticCallee(c); callee != nil {
				add(f, callee)
			}
			for _, a := range c.Args {
				if fn, ok := a.(*ssa.Function); ok {
					add(f, fn)
				}
			}
		})
	}
	return g
}

// Callees returns the callees of f.
func (g *CG) Callees(f *ssa.Function) []*ssa.Function {
	var out []*ssa.Function
	for c := range g.out[f] {
		out = append(out, c)
	}
	return out
}

// Callers returns the callers of f.
func (g *CG) Callers(f *ssa.Function) []*ssa.Function {
	var out []*ssa.Function
	for c := range g.in[f] {
		out = append(out, c)
	}
	return out
}

// Reachable returns the functions reachable from roots without entering a
// function for which cut returns true (cut functions are not included).
func (g *CG) Reachable(roots []*ssa.Function, cut func(*ssa.Function) bool) map[*ssa.Function]bool {
	seen := map[*ssa.Function]bool{}
	var work []*ssa.Function
	for _, r := range roots {
		if r != nil && !seen[r] {
			seen[r] = true
			work = append(work, r)
		}
	}
	for len(work) > 0 {
		f := work[len(work)-1]
		work = work[:len(work)-1]
		for c := range g.out[f] {
			if seen[c] || (cut != nil && cut(c)) {
				continue
			}
			seen[c] = true
			work = append(work, c)
		}
	}
	return seen
}
