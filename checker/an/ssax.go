package an

import (
	"fmt"
	"go/constant"
	"go/token"
	"go/types"
	"sort"
	"strings"
	"sync"

	"golang.org/x/tools/go/ssa"
)

// ---------------------------------------------------------------------------
// Access paths
//
// Path renders an SSA value as a canonical access-path string. Repeated loads
// of one field are distinct SSA values but have the same path, which is what
// predicates are matched on. Parameters are $0,$1,... (receiver is $0), free
// variables of closures are ^name, constants are c:<value>.

// Strip removes value-preserving conversions.
func Strip(v ssa.Value) ssa.Value {
	for {
		switch x := v.(type) {
		case *ssa.ChangeType:
			v = x.X
		case *ssa.Convert:
			v = x.X
		case *ssa.ChangeInterface:
			v = x.X
		case *ssa.MakeInterface:
			v = x.X
		default:
			return v
		}
	}
}

// Path returns the access path of v.
func Path(v ssa.Value) string { return path(v, 0) }

// ---------------------------------------------------------------------------
// name-independent labels for locals, captured variables and phis: renaming a
// variable in the repository must not change any access path.

// keptComments are allocation kinds the SSA builder itself names.
var keptComments = map[string]bool{"varargs": true, "slicelit": true, "rangeindex": true, "rangeint.iter": true, "makeslice": true}

// TypeLabel renders a type without package qualifiers: Member, *memberState, []string, map[string]string.
func TypeLabel(t types.Type) string {
	return types.TypeString(t, func(*types.Package) string { return "" })
}

var (
	labelMu     sync.Mutex
	allocLabels = map[*ssa.Function]map[*ssa.Alloc]string{}
)

// allocLabel names an address-taken local by its type, with an ordinal among
// the locals of the same type in the function (source order).
func allocLabel(al *ssa.Alloc) string {
	if keptComments[al.Comment] {
		return al.Comment
	}
	fn := al.Parent()
	if fn == nil {
		return al.Name()
	}
	labelMu.Lock()
	defer labelMu.Unlock()
	m, ok := allocLabels[fn]
	if !ok {
		m = map[*ssa.Alloc]string{}
		count := map[string]int{}
		for _, b := range fn.Blocks {
			for _, in := range b.Instrs {
				a, ok := in.(*ssa.Alloc)
				if !ok || keptComments[a.Comment] {
					continue
				}
				lab := "?"
				if pt, ok := a.Type().Underlying().(*types.Pointer); ok {
					lab = TypeLabel(pt.Elem())
				}
				count[lab]++
				if count[lab] > 1 {
					lab += "#" + fmt.Sprint(count[lab])
				}
				m[a] = lab
			}
		}
		allocLabels[fn] = m
	}
	if l, ok := m[al]; ok {
		return l
	}
	return al.Name()
}

// freeVarLabel names a captured variable by its type and ordinal.
func freeVarLabel(fv *ssa.FreeVar) string {
	lab := func(v *ssa.FreeVar) string {
		if pt, ok := v.Type().Underlying().(*types.Pointer); ok {
			return TypeLabel(pt.Elem())
		}
		return TypeLabel(v.Type())
	}
	me := lab(fv)
	n := 0
	for _, o := range fv.Parent().FreeVars {
		if lab(o) == me {
			n++
		}
		if o == fv {
			break
		}
	}
	if n > 1 {
		me += "#" + fmt.Sprint(n)
	}
	return me
}

// phiLabel: builder-made phis (range index, && and ||) keep their kind; a phi
// of a source variable is named by its block and its ordinal among the
// variable phis of that block.
func phiLabel(x *ssa.Phi) string {
	b := x.Block()
	switch x.Comment {
	case "rangeindex", "rangeint.iter", "&&", "||":
		return "phi:" + x.Comment + "@" + fmt.Sprint(b.Index)
	}
	n := 0
	for _, in := range b.Instrs {
		p, ok := in.(*ssa.Phi)
		if !ok {
			break
		}
		switch p.Comment {
		case "rangeindex", "rangeint.iter", "&&", "||":
			continue
		}
		n++
		if p == x {
			break
		}
	}
	s := "phi@" + fmt.Sprint(b.Index)
	if n > 1 {
		s += "#" + fmt.Sprint(n)
	}
	return s
}

func fieldName(t types.Type, idx int) string {
	if p, ok := t.Underlying().(*types.Pointer); ok {
		t = p.Elem()
	}
	if s, ok := t.Underlying().(*types.Struct); ok && idx < s.NumFields() {
		return s.Field(idx).Name()
	}
	return fmt.Sprintf("f%d", idx)
}

func constStr(c *ssa.Const) string {
	if c.Value == nil {
		return "c:nil"
	}
	switch c.Value.Kind() {
	case constant.String:
		return "c:" + fmt.Sprintf("%q", constant.StringVal(c.Value))
	default:
		return "c:" + c.Value.ExactString()
	}
}

func path(v ssa.Value, d int) string {
	if v == nil {
		return "<nil>"
	}
	if d > 28 {
		return "…"
	}
	switch x := v.(type) {
	case *ssa.Parameter:
		for k := len(inlineEnv) - 1; k >= 0; k-- {
			if s, ok := inlineEnv[k][x]; ok {
				return s
			}
		}
		idx := -1
		for i, p := range x.Parent().Params {
			if p == x {
				idx = i
			}
		}
		if idx >= 0 && d < 20 {
			if sites := HelperSites(x.Parent()); len(sites) > 0 {
				// a transparent helper's parameter is the caller's argument when all call sites agree
				common := ""
				for i, cs := range sites {
					if idx >= len(cs.Call.Args) {
						common = ""
						break
					}
					saved := inlineEnv
					inlineEnv = nil
					a := path(cs.Call.Args[idx], d+1)
					inlineEnv = saved
					if i > 0 && a != common {
						common = ""
						break
					}
					common = a
				}
				if common != "" {
					return common
				}
			}
		}
		if idx >= 0 {
			return fmt.Sprintf("$%d", idx)
		}
		return "$" + x.Name()
	case *ssa.FreeVar:
		return "^" + freeVarLabel(x)
	case *ssa.Const:
		return constStr(x)
	case *ssa.FieldAddr:
		if al, ok := x.X.(*ssa.Alloc); ok {
			if v := uniqueStore(al); v != nil {
				return "&" + path(v, d+1) + "." + fieldName(x.X.Type(), x.Field)
			}
		}
		return "&" + unamp(path(x.X, d+1)) + "." + fieldName(x.X.Type(), x.Field)
	case *ssa.Field:
		return path(x.X, d+1) + "." + fieldName(x.X.Type(), x.Field)
	case *ssa.UnOp:
		switch x.Op {
		case token.MUL:
			if al, ok := x.X.(*ssa.Alloc); ok {
				if v := uniqueStore(al); v != nil {
					return path(v, d+1)
				}
				if v := reachingStore(x, al); v != nil {
					return path(v, d+1)
				}
			}
			return deref(path(x.X, d+1))
		case token.ARROW:
			return "<-" + path(x.X, d+1)
		case token.NOT:
			return "!" + path(x.X, d+1)
		case token.SUB:
			return "-" + path(x.X, d+1)
		case token.XOR:
			return "^" + path(x.X, d+1)
		}
	case *ssa.IndexAddr:
		return "&" + unamp(path(x.X, d+1)) + "[" + path(x.Index, d+1) + "]"
	case *ssa.Index:
		return path(x.X, d+1) + "[" + path(x.Index, d+1) + "]"
	case *ssa.Lookup:
		return path(x.X, d+1) + "[" + path(x.Index, d+1) + "]"
	case *ssa.Extract:
		// a result that every return of a transparent helper forwards unchanged (`return resp, "..."` on
		// all paths) is the forwarded value, rendered in the caller's frame
		if call, ok := x.Tuple.(*ssa.Call); ok && d < 20 && len(inlineEnv) < 3 {
			if h := transparentCallee(call); h != nil && !forwardBusy[h] {
				forwardBusy[h] = true
				env := map[*ssa.Parameter]string{}
				for i, p := range h.Params {
					if i < len(call.Call.Args) {
						env[p] = path(call.Call.Args[i], d+1)
					}
				}
				inlineEnv = append(inlineEnv, env)
				same, n := "", 0
				for _, r := range Returns(h) {
					vals := ResultValues(r)
					if x.Index >= len(vals) {
						same = ""
						break
					}
					// only plain forwarded values: a load of a local, a parameter, a field of those
					rp := path(vals[x.Index], d+1)
					if strings.Contains(rp, "(") || strings.HasPrefix(rp, "c:") || strings.HasPrefix(rp, "phi") {
						same = ""
						break
					}
					if n > 0 && rp != same {
						same = ""
						break
					}
					same = rp
					n++
				}
				inlineEnv = inlineEnv[:len(inlineEnv)-1]
				delete(forwardBusy, h)
				if same != "" && n > 0 {
					return same
				}
			}
		}
		return path(x.Tuple, d+1) + "#" + fmt.Sprint(x.Index)
	case *ssa.ChangeType:
		return path(x.X, d+1)
	case *ssa.Convert:
		return path(x.X, d+1)
	case *ssa.ChangeInterface:
		return path(x.X, d+1)
	case *ssa.MakeInterface:
		return path(x.X, d+1)
	case *ssa.SliceToArrayPointer:
		return path(x.X, d+1)
	case *ssa.BinOp:
		// arithmetic in an integer type narrower than 64 bits wraps where the same expression
		// in int does not: int(k)+1 and int(k+1) must not get the same path
		return "(" + path(x.X, d+1) + x.Op.String() + path(x.Y, d+1) + ")" + narrowArith(x)
	case *ssa.Alloc:
		return "&local:" + allocLabel(x)
	case *ssa.Phi:
		return phiLabel(x)
	case *ssa.Slice:
		lo, hi := "", ""
		if x.Low != nil {
			lo = path(x.Low, d+1)
		}
		if x.High != nil {
			hi = path(x.High, d+1)
		}
		return unamp(path(x.X, d+1)) + "[" + lo + ":" + hi + "]"
	case *ssa.TypeAssert:
		s := path(x.X, d+1) + ".(" + types.TypeString(x.AssertedType, shortQual) + ")"
		return s
	case *ssa.MakeMap:
		return "make:map@" + fmt.Sprint(x.Name())
	case *ssa.MakeSlice:
		return "make:slice(" + path(x.Len, d+1) + ")"
	case *ssa.MakeChan:
		return "make:chan@" + x.Name()
	case *ssa.Global:
		return "&g:" + x.Name()
	case *ssa.Function:
		return "fn:" + FuncName(x)
	case *ssa.MakeClosure:
		if f, ok := x.Fn.(*ssa.Function); ok {
			return "closure:" + FuncName(f)
		}
	case *ssa.Builtin:
		return "builtin:" + x.Name()
	case *ssa.Call:
		return callPath(&x.Call, d)
	case *ssa.Select:
		return "select@" + x.Name()
	case *ssa.Next:
		return "next(" + path(x.Iter, d+1) + ")"
	case *ssa.Range:
		return "range(" + path(x.X, d+1) + ")"
	}
	return "?" + v.Name()
}

func shortQual(p *types.Package) string { return p.Name() }

// narrowArith returns "@<type>" for +, -, * and << computed in a sized integer type of fewer
// than 64 bits, "" otherwise.
func narrowArith(x *ssa.BinOp) string {
	switch x.Op {
	case token.ADD, token.SUB, token.MUL, token.SHL:
	default:
		return ""
	}
	b, ok := x.Type().Underlying().(*types.Basic)
	if !ok {
		return ""
	}
	switch b.Kind() {
	case types.Int8, types.Int16, types.Int32, types.Uint8, types.Uint16, types.Uint32:
		return "@" + b.Name()
	}
	return ""
}

// uniqueStore returns the value stored into a local when the local is
// written by exactly one whole-value store and is otherwise only loaded from
// or has its fields read (so every load observes that value or the zero
// value). Struct literals assembled field by field are not resolved.
var reachingCache = map[*ssa.UnOp]ssa.Value{}
var reachingDone = map[*ssa.UnOp]bool{}

// reachingStore resolves a load of an address-taken local that is assigned more than once (for instance
// because a closure reads it) to the value of the one store that reaches it: the store dominates the load
// and no other store to the local lies on a path between them. Locals whose address escapes, or that a
// closure writes, are not resolved.
func reachingStore(load *ssa.UnOp, al *ssa.Alloc) ssa.Value {
	labelMu.Lock()
	if reachingDone[load] {
		v := reachingCache[load]
		labelMu.Unlock()
		return v
	}
	labelMu.Unlock()
	v := reachingStore1(load, al)
	labelMu.Lock()
	reachingDone[load] = true
	reachingCache[load] = v
	labelMu.Unlock()
	return v
}

func reachingStore1(load *ssa.UnOp, al *ssa.Alloc) ssa.Value {
	refs := al.Referrers()
	if refs == nil {
		return nil
	}
	var stores []*ssa.Store
	for _, r := range *refs {
		switch x := r.(type) {
		case *ssa.Store:
			if x.Addr != ssa.Value(al) {
				return nil
			}
			stores = append(stores, x)
		case *ssa.UnOp, *ssa.DebugRef:
		case *ssa.MakeClosure:
			fn, _ := x.Fn.(*ssa.Function)
			if fn == nil {
				return nil
			}
			for i, b := range x.Bindings {
				if b != ssa.Value(al) || i >= len(fn.FreeVars) {
					continue
				}
				if fr := fn.FreeVars[i].Referrers(); fr != nil {
					for _, rr := range *fr {
						if st, ok := rr.(*ssa.Store); ok && st.Addr == ssa.Value(fn.FreeVars[i]) {
							return nil // the closure assigns it
						}
						if _, ok := rr.(*ssa.MakeClosure); ok {
							return nil
						}
					}
				}
			}
		default:
			return nil
		}
	}
	if len(stores) < 2 || load.Parent() != al.Parent() {
		return nil
	}
	var pick *ssa.Store
	for _, st := range stores {
		if st.Parent() != load.Parent() || !sameFuncDominates(st, load) {
			continue
		}
		clean := true
		for _, t := range stores {
			if t != st && instrReaches(st, t) && instrReaches(t, load) {
				clean = false
			}
		}
		if clean {
			if pick != nil {
				return nil
			}
			pick = st
		}
	}
	if pick == nil {
		return nil
	}
	if _, isAlloc := pick.Val.(*ssa.Alloc); isAlloc {
		return nil
	}
	return pick.Val
}

func sameFuncDominates(a, b ssa.Instruction) bool {
	ba, bb := a.Block(), b.Block()
	if ba == bb {
		for _, in := range ba.Instrs {
			if in == a {
				return true
			}
			if in == b {
				return false
			}
		}
		return false
	}
	return ba.Dominates(bb)
}

// instrReaches: some path inside the function leads from just after a to b.
func instrReaches(a, b ssa.Instruction) bool {
	ba := a.Block()
	after := false
	for _, in := range ba.Instrs {
		if after && in == b {
			return true
		}
		if in == a {
			after = true
		}
	}
	seen := map[*ssa.BasicBlock]bool{}
	work := append([]*ssa.BasicBlock{}, ba.Succs...)
	for len(work) > 0 {
		blk := work[len(work)-1]
		work = work[:len(work)-1]
		if seen[blk] {
			continue
		}
		seen[blk] = true
		if blk == b.Block() {
			return true
		}
		work = append(work, blk.Succs...)
	}
	return false
}

func uniqueStore(al *ssa.Alloc) ssa.Value {
	refs := al.Referrers()
	if refs == nil {
		return nil
	}
	var val ssa.Value
	n := 0
	for _, r := range *refs {
		switch x := r.(type) {
		case *ssa.Store:
			if x.Addr == ssa.Value(al) {
				n++
				val = x.Val
			} else {
				return nil // address stored somewhere: escapes
			}
		case *ssa.UnOp:
			// load
		case *ssa.FieldAddr:
			// field access: only reads allowed
			if fr := x.Referrers(); fr != nil {
				for _, rr := range *fr {
					if st, ok := rr.(*ssa.Store); ok && st.Addr == ssa.Value(x) {
						return nil
					}
					if _, ok := rr.(*ssa.UnOp); !ok {
						if _, ok2 := rr.(*ssa.FieldAddr); !ok2 {
							if _, ok3 := rr.(*ssa.DebugRef); !ok3 {
								return nil
							}
						}
					}
				}
			}
		case *ssa.DebugRef:
		case *ssa.MakeClosure:
			// captured by a closure: fine as long as the closure only reads it
			fn, _ := x.Fn.(*ssa.Function)
			if fn == nil {
				return nil
			}
			for i, b := range x.Bindings {
				if b != ssa.Value(al) || i >= len(fn.FreeVars) {
					continue
				}
				if fr := fn.FreeVars[i].Referrers(); fr != nil {
					for _, rr := range *fr {
						if st, ok := rr.(*ssa.Store); ok && st.Addr == ssa.Value(fn.FreeVars[i]) {
							return nil
						}
						if _, ok := rr.(*ssa.MakeClosure); ok {
							return nil
						}
					}
				}
			}
		default:
			return nil
		}
	}
	if n != 1 {
		return nil
	}
	if _, isAlloc := val.(*ssa.Alloc); isAlloc {
		return nil
	}
	if u, ok := val.(*ssa.UnOp); ok {
		if _, isAlloc := u.X.(*ssa.Alloc); isAlloc {
			return nil // copy of a field-assembled literal: keep the local's name
		}
	}
	return val
}

func unamp(s string) string { return strings.TrimPrefix(s, "&") }

func deref(s string) string {
	if strings.HasPrefix(s, "&") {
		return s[1:]
	}
	return "*" + s
}

func callPath(c *ssa.CallCommon, d int) string {
	var args []string
	for _, a := range c.Args {
		args = append(args, path(a, d+1))
	}
	if c.IsInvoke() {
		return "invoke:" + c.Method.Name() + "(" + strings.Join(append([]string{path(c.Value, d+1)}, args...), ",") + ")"
	}
	switch f := c.Value.(type) {
	case *ssa.Builtin:
		return f.Name() + "(" + strings.Join(args, ",") + ")"
	case *ssa.Function:
		if rv := trivialHelperResult(f); rv != nil && d < 20 {
			// a one-block, effect-free, unexported helper of the module is transparent: its result is
			// rendered in the caller's frame (extracting `clock.Increment() - 1` into a helper changes no path)
			env := map[*ssa.Parameter]string{}
			for i, p := range f.Params {
				if i < len(args) {
					env[p] = args[i]
				}
			}
			inlineEnv = append(inlineEnv, env)
			s := path(rv, d+1)
			inlineEnv = inlineEnv[:len(inlineEnv)-1]
			return s
		}
		return CalleeName(f) + "(" + strings.Join(args, ",") + ")"
	case *ssa.MakeClosure:
		if fn, ok := f.Fn.(*ssa.Function); ok {
			return FuncName(fn) + "(" + strings.Join(args, ",") + ")"
		}
	}
	return "dyn:" + path(c.Value, d+1) + "(" + strings.Join(args, ",") + ")"
}

// OpaqueHelpers names the repository's own one-line helpers that rules refer to by name
// (they are vocabulary, not incidental structure) and that are therefore never rendered inline.
var OpaqueHelpers = map[string]bool{"eventClean": true, "(*Coordinate).rawDistanceTo": true}

// forwardBusy guards the forwarded-result rendering of Extract against recursion.
var forwardBusy = map[*ssa.Function]bool{}

// inlineEnv is the stack of parameter bindings of the helpers being rendered.
var inlineEnv []map[*ssa.Parameter]string

// trivialHelperResult returns the single result value of f when f is an unexported module function
// consisting of one block without stores, sends, map updates, go/defer statements or panics, ending
// in a one-value return; nil otherwise.
func trivialHelperResult(f *ssa.Function) ssa.Value {
	if f == nil || !InModule(f) || f.Synthetic != "" || len(f.Blocks) != 1 || f.Recover != nil || f.Parent() != nil {
		return nil
	}
	if token.IsExported(f.Name()) || OpaqueHelpers[FuncName(f)] {
		return nil
	}
	var ret *ssa.Return
	for _, in := range f.Blocks[0].Instrs {
		switch x := in.(type) {
		case *ssa.Store, *ssa.MapUpdate, *ssa.Send, *ssa.Go, *ssa.Defer, *ssa.RunDefers, *ssa.Panic, *ssa.Select, *ssa.Alloc, *ssa.MakeClosure:
			return nil
		case *ssa.Return:
			ret = x
		}
	}
	if ret == nil || len(ret.Results) != 1 {
		return nil
	}
	return ret.Results[0]
}

// TrivialHelperResult is trivialHelperResult for rule code.
func TrivialHelperResult(f *ssa.Function) ssa.Value { return trivialHelperResult(f) }

// CalleeName names a callee: module functions by FuncName, others by
// pkgname.FuncName (e.g. strings.HasPrefix, (*sync.Mutex).Lock →
// sync.(*Mutex).Lock).
func CalleeName(f *ssa.Function) string {
	if f == nil {
		return "<nil>"
	}
	if InModule(f) {
		return rawFuncName(f)
	}
	pk := ""
	if f.Pkg != nil {
		pk = f.Pkg.Pkg.Name() + "."
	} else if o := f.Object(); o != nil && o.Pkg() != nil {
		pk = o.Pkg().Name() + "."
	}
	return pk + FuncName(f)
}

// StaticCallee returns the statically known callee of a call instruction,
// looking through closures bound to locals.
func StaticCallee(c *ssa.CallCommon) *ssa.Function {
	if c.IsInvoke() {
		return nil
	}
	switch f := c.Value.(type) {
	case *ssa.Function:
		return f
	case *ssa.MakeClosure:
		if fn, ok := f.Fn.(*ssa.Function); ok {
			return fn
		}
	}
	return nil
}

// CallOf returns the CallCommon of an instruction if it is a call, go or defer.
func CallOf(in ssa.Instruction) *ssa.CallCommon {
	switch x := in.(type) {
	case *ssa.Call:
		return &x.Call
	case *ssa.Go:
		return &x.Call
	case *ssa.Defer:
		return &x.Call
	}
	return nil
}

// IsCallTo reports whether in is a plain call (not go/defer) whose static
// callee has the given CalleeName.
func IsCallTo(in ssa.Instruction, names ...string) bool {
	c, ok := in.(*ssa.Call)
	if !ok {
		return false
	}
	f := StaticCallee(&c.Call)
	if f == nil {
		return false
	}
	n := CalleeName(f)
	for _, w := range names {
		if n == w {
			return true
		}
	}
	return false
}

// ---------------------------------------------------------------------------
// Comparison facts on CFG edges

// Cmp is a normalised comparison fact L op R over access paths.
type Cmp struct {
	L, Op, R string
}

func (c Cmp) String() string { return c.L + " " + c.Op + " " + c.R }

var negOp = map[string]string{"==": "!=", "!=": "==", "<": ">=", ">=": "<", ">": "<=", "<=": ">"}
var swapOp = map[string]string{"==": "==", "!=": "!=", "<": ">", ">": "<", "<=": ">=", ">=": "<="}

// Swap returns the same fact with operands exchanged.
func (c Cmp) Swap() Cmp { return Cmp{c.R, swapOp[c.Op], c.L} }

// implied: does op1 imply op2 (same operand order)?
func opImplies(op1, op2 string) bool {
	if op1 == op2 {
		return true
	}
	switch op1 {
	case ">":
		return op2 == ">=" || op2 == "!="
	case "<":
		return op2 == "<=" || op2 == "!="
	case "==":
		return op2 == ">=" || op2 == "<="
	}
	return false
}

// Implies reports whether fact c entails want (modulo operand swap).
func (c Cmp) Implies(want Cmp) bool {
	if c.L == want.L && c.R == want.R && opImplies(c.Op, want.Op) {
		return true
	}
	s := c.Swap()
	if s.L == want.L && s.R == want.R && opImplies(s.Op, want.Op) {
		return true
	}
	// x == c1 entails x != c2 for two different constants (the arm of a switch over x)
	if want.Op == "!=" {
		w2 := want.Swap()
		for _, f := range []Cmp{c, s} {
			for _, w := range []Cmp{want, w2} {
				if f.Op == "==" && f.L == w.L && strings.HasPrefix(f.R, "c:") && strings.HasPrefix(w.R, "c:") && f.R != w.R && f.R != "c:nil" && w.R != "c:nil" {
					return true
				}
			}
		}
	}
	return false
}

// CondFacts returns the comparison facts established when cond evaluates to
// branch.
func CondFacts(cond ssa.Value, branch bool) []Cmp {
	switch x := cond.(type) {
	case *ssa.BinOp:
		op := x.Op.String()
		if _, ok := negOp[op]; ok {
			if !branch {
				op = negOp[op]
			}
			out := []Cmp{{Path(x.X), op, Path(x.Y)}}
			// result of a transparent helper compared with nil: what holds on the ways it returns (non-)nil
			if op == "==" || op == "!=" {
				var other ssa.Value
				if IsNilConst(x.Y) || isEmptyString(x.Y) {
					other = x.X
				} else if IsNilConst(x.X) || isEmptyString(x.X) {
					other = x.Y
				}
				if other != nil {
					if f, cc, idx := helperCallOf(other); f != nil {
						out = append(out, helperResultFacts(f, cc, idx, true, op == "==")...)
					}
				}
			}
			return out
		}
	case *ssa.UnOp:
		if x.Op == token.NOT {
			return CondFacts(x.X, !branch)
		}
	case *ssa.Extract:
		// the bool result of a transparent helper returning several values
		if f, cc, idx := helperCallOf(x); f != nil {
			if fs := helperResultFacts(f, cc, idx, false, branch); len(fs) > 0 {
				bb := "c:false"
				if branch {
					bb = "c:true"
				}
				return append([]Cmp{{Path(cond), "==", bb}}, fs...)
			}
		}
	case *ssa.Call:
		// a transparent predicate helper: the facts of its result expression, in the caller's frame
		if f := StaticCallee(&x.Call); f != nil {
			if rv := trivialHelperResult(f); rv != nil {
				if _, isCmp := rv.(*ssa.BinOp); isCmp {
					env := map[*ssa.Parameter]string{}
					for i, p := range f.Params {
						if i < len(x.Call.Args) {
							env[p] = Path(x.Call.Args[i])
						}
					}
					inlineEnv = append(inlineEnv, env)
					fs := CondFacts(rv, branch)
					inlineEnv = inlineEnv[:len(inlineEnv)-1]
					return fs
				}
			}
			// a transparent predicate helper with several exits: besides "helper(args) == b", the facts
			// that hold on every way the helper can return b, in the caller's frame
			if fs := predicateFacts(f, &x.Call, branch); len(fs) > 0 {
				bb := "c:false"
				if branch {
					bb = "c:true"
				}
				return append([]Cmp{{Path(cond), "==", bb}}, fs...)
			}
		}
	}
	b := "c:false"
	if branch {
		b = "c:true"
	}
	return []Cmp{{Path(cond), "==", b}}
}

var predBusy = map[*ssa.Function]bool{}

// helperResultFacts: for a transparent helper, the comparison facts established on every path to a
// return whose idx-th result can have the wanted outcome — a bool result being `want`, or (nilKind) an
// error/pointer result being nil (want) or non-nil (!want). Returns that certainly produce the other
// outcome are excluded; a non-constant bool result contributes its own condition facts.
func helperResultFacts(f *ssa.Function, call *ssa.CallCommon, idx int, nilKind, want bool) []Cmp {
	if !Transparent(f) || predBusy[f] || len(inlineEnv) > 3 {
		return nil
	}
	res := f.Signature.Results()
	if idx >= res.Len() {
		return nil
	}
	if !nilKind {
		if b, ok := res.At(idx).Type().Underlying().(*types.Basic); !ok || b.Kind() != types.Bool {
			return nil
		}
	}
	predBusy[f] = true
	defer delete(predBusy, f)
	env := map[*ssa.Parameter]string{}
	for i, p := range f.Params {
		if i < len(call.Args) {
			env[p] = Path(call.Args[i])
		}
	}
	inlineEnv = append(inlineEnv, env)
	defer func() { inlineEnv = inlineEnv[:len(inlineEnv)-1] }()
	facts := map[Edge][]Cmp{}
	edgeFactsOf(f, facts)
	var common map[string]Cmp
	n := 0
	for _, r := range Returns(f) {
		vals := ResultValues(r)
		if idx >= len(vals) {
			return nil
		}
		v := vals[idx]
		certain, outcome := false, false // outcome: true = "want-like" (bool true / nil)
		if nilKind {
			switch {
			case IsNilConst(v), isEmptyString(v):
				certain, outcome = true, true
			case definitelyNonNil(v), definitelyNonEmpty(v):
				certain, outcome = true, false
			}
		} else {
			switch {
			case IsConstBool(v, true):
				certain, outcome = true, true
			case IsConstBool(v, false):
				certain, outcome = true, false
			}
		}
		if certain && outcome != want {
			continue
		}
		n++
		here := map[string]Cmp{}
		for e, fs := range facts {
			if Guarded(f, r, []Edge{e}) {
				for _, c := range fs {
					here[c.String()] = c
				}
			}
		}
		if !certain && !nilKind {
			for _, c := range CondFacts(v, want) {
				here[c.String()] = c
			}
		}
		if common == nil {
			common = here
		} else {
			for k := range common {
				if _, ok := here[k]; !ok {
					delete(common, k)
				}
			}
		}
	}
	if n == 0 {
		return nil
	}
	var out []Cmp
	for _, c := range common {
		out = append(out, c)
	}
	sort.Slice(out, func(i, j int) bool { return out[i].String() < out[j].String() })
	return out
}

func predicateFacts(f *ssa.Function, call *ssa.CallCommon, want bool) []Cmp {
	return helperResultFacts(f, call, 0, false, want)
}

// isEmptyString: the constant "" (the "no problem" value of a string-typed status result).
func isEmptyString(v ssa.Value) bool {
	c, ok := v.(*ssa.Const)
	if !ok || c.Value == nil || c.Value.Kind() != constant.String {
		return false
	}
	return constant.StringVal(c.Value) == ""
}

// definitelyNonEmpty: a non-empty string constant, or fmt.Sprintf with a constant format that contains
// literal text outside its verbs.
func definitelyNonEmpty(v ssa.Value) bool {
	v = Strip(v)
	if c, ok := v.(*ssa.Const); ok && c.Value != nil && c.Value.Kind() == constant.String {
		return constant.StringVal(c.Value) != ""
	}
	call, ok := v.(*ssa.Call)
	if !ok || len(call.Call.Args) == 0 {
		return false
	}
	f := StaticCallee(&call.Call)
	if f == nil || CalleeName(f) != "fmt.Sprintf" {
		return false
	}
	fc, ok := call.Call.Args[0].(*ssa.Const)
	if !ok || fc.Value == nil || fc.Value.Kind() != constant.String {
		return false
	}
	format := constant.StringVal(fc.Value)
	// literal text = anything before the first verb
	return len(format) > 0 && format[0] != '%'
}

// definitelyNonNil: an error value built on the spot.
func definitelyNonNil(v ssa.Value) bool { return nonNilDepth(v, 0) }

func nonNilDepth(v ssa.Value, depth int) bool {
	v = Strip(v)
	if c, ok := v.(*ssa.Call); ok {
		if f := StaticCallee(&c.Call); f != nil {
			switch CalleeName(f) {
			case "fmt.Errorf", "errors.New":
				return true
			}
			// a module function with one result that builds such a value on every return
			if depth < 2 && InModule(f) && f.Blocks != nil && f.Signature.Results().Len() == 1 {
				rets := Returns(f)
				all := len(rets) > 0
				for _, r := range rets {
					if !nonNilDepth(ResultValues(r)[0], depth+1) {
						all = false
					}
				}
				if all {
					return true
				}
			}
		}
	}
	if _, ok := v.(*ssa.Alloc); ok {
		return true
	}
	return false
}

// helperCallOf recognises v as (a result of) a plain call of a transparent helper.
func helperCallOf(v ssa.Value) (*ssa.Function, *ssa.CallCommon, int) {
	idx := 0
	if ex, ok := v.(*ssa.Extract); ok {
		v, idx = ex.Tuple, ex.Index
	}
	call, ok := v.(*ssa.Call)
	if !ok {
		return nil, nil, 0
	}
	f := transparentCallee(call)
	if f == nil {
		return nil, nil, 0
	}
	return f, &call.Call, idx
}

// Edge is a CFG edge From → From.Succs[Succ].
type Edge struct {
	From *ssa.BasicBlock
	Succ int
}

func (e Edge) To() *ssa.BasicBlock { return e.From.Succs[e.Succ] }

// EdgeFacts lists, for every conditional edge of fn, the facts it establishes.
func EdgeFacts(fn *ssa.Function) map[Edge][]Cmp {
	out := map[Edge][]Cmp{}
	for _, g := range deepFuncs(fn) {
		edgeFactsOf(g, out)
	}
	return out
}

func edgeFactsOf(fn *ssa.Function, out map[Edge][]Cmp) {
	for _, b := range fn.Blocks {
		if len(b.Instrs) == 0 {
			continue
		}
		if i, ok := b.Instrs[len(b.Instrs)-1].(*ssa.If); ok {
			out[Edge{b, 0}] = CondFacts(i.Cond, true)
			out[Edge{b, 1}] = CondFacts(i.Cond, false)
		}
	}
}

// EdgesWhere returns the conditional edges of fn on which some established
// fact satisfies pred.
func EdgesWhere(fn *ssa.Function, pred func(Cmp) bool) []Edge {
	var out []Edge
	for _, g := range deepFuncs(fn) {
		out = append(out, edgesWhereOf(g, pred)...)
	}
	return out
}

func edgesWhereOf(fn *ssa.Function, pred func(Cmp) bool) []Edge {
	var out []Edge
	for _, b := range fn.Blocks {
		if len(b.Instrs) == 0 {
			continue
		}
		i, ok := b.Instrs[len(b.Instrs)-1].(*ssa.If)
		if !ok {
			continue
		}
		for s, br := range []bool{true, false} {
			for _, f := range CondFacts(i.Cond, br) {
				if pred(f) || pred(f.Swap()) {
					out = append(out, Edge{b, s})
					break
				}
			}
		}
	}
	return out
}

// EdgesImplying returns the edges establishing a fact that implies want.
func EdgesImplying(fn *ssa.Function, want Cmp) []Edge {
	return EdgesWhere(fn, func(c Cmp) bool { return c.Implies(want) })
}

// ---------------------------------------------------------------------------
// reach / cut

// Cut describes what is removed from the CFG for a reachability query.
type Cut struct {
	Edges  []Edge
	Instrs func(ssa.Instruction) bool // instructions at which a path stops
	// RetTrue restricts targets that are return statements of the analysed function to those that can
	// return true: a returned phi is resolved per incoming path; a constant false is no target, and a
	// computed value is no target on a way where being true would establish one of Facts.
	RetTrue bool
	// Facts, when set, are the comparisons the Edges were selected for: a branch on a boolean that was
	// materialised first (a phi of `a && b`, the non-constant result of a predicate helper) is resolved
	// per incoming path, and the way on which its value establishes one of these facts is cut as well.
	Facts []Cmp
}

// factCut: taking `v == truth` establishes one of the cut's facts.
func (c *Cut) factCut(v ssa.Value, truth bool) bool {
	if c == nil || len(c.Facts) == 0 {
		return false
	}
	for _, f := range CondFacts(v, truth) {
		for _, w := range c.Facts {
			if f.Implies(w) {
				return true
			}
		}
	}
	return false
}

// phiBranch: b ends in an If on (the negation of) a phi of b itself.
func phiBranch(b *ssa.BasicBlock) (*ssa.Phi, bool) {
	if len(b.Instrs) == 0 {
		return nil, false
	}
	iff, ok := b.Instrs[len(b.Instrs)-1].(*ssa.If)
	if !ok {
		return nil, false
	}
	cond, neg := iff.Cond, false
	for {
		u, ok := cond.(*ssa.UnOp)
		if !ok || u.Op != token.NOT {
			break
		}
		cond, neg = u.X, !neg
	}
	if ph, ok := cond.(*ssa.Phi); ok && ph.Block() == b {
		return ph, neg
	}
	return nil, false
}

// phiReturn: b returns (only) a phi of b itself.
func phiReturn(b *ssa.BasicBlock) *ssa.Phi {
	if len(b.Instrs) == 0 {
		return nil
	}
	ret, ok := b.Instrs[len(b.Instrs)-1].(*ssa.Return)
	if !ok || len(ret.Results) != 1 {
		return nil
	}
	if ph, ok := ret.Results[0].(*ssa.Phi); ok && ph.Block() == b {
		return ph
	}
	return nil
}

// incoming is the value ph takes when its block is entered from pred (nil when pred is not a unique
// predecessor).
func incoming(ph *ssa.Phi, pred *ssa.BasicBlock) ssa.Value {
	if pred == nil {
		return nil
	}
	var v ssa.Value
	n := 0
	for i, p := range ph.Block().Preds {
		if p == pred {
			v = ph.Edges[i]
			n++
		}
	}
	if n != 1 {
		return nil
	}
	return v
}

func (c *Cut) edgeCut(b *ssa.BasicBlock, s int) bool {
	if c == nil {
		return false
	}
	for _, e := range c.Edges {
		if e.From == b && e.Succ == s {
			return true
		}
	}
	return false
}

// ReachFrom explores fn from the instruction after `from` (or from entry when
// from is nil) and returns the first instruction satisfying target that is
// reachable without crossing the cut, or nil.
func ReachFrom(fn *ssa.Function, from ssa.Instruction, cut *Cut, target func(ssa.Instruction) bool) ssa.Instruction {
	if len(fn.Blocks) == 0 {
		return nil
	}
	r := &reacher{root: fn, cut: cut, target: target, callee: map[*ssa.Function]*calleeResult{}, upSeen: map[ssa.Instruction]bool{}}
	if from == nil {
		found, _ := r.run(fn.Blocks[0], 0)
		return found
	}
	return r.after(from)
}

// reacher explores the CFG of a function and, at plain calls of transparent helpers, the helper's
// CFG: the search continues after such a call only if the helper can reach a normal return without
// crossing the cut.
type reacher struct {
	root   *ssa.Function
	cut    *Cut
	target func(ssa.Instruction) bool
	callee map[*ssa.Function]*calleeResult
	upSeen map[ssa.Instruction]bool
	retVal []map[bool]bool // per active callee exploration: bool results seen on uncut returns
	// path-sensitive treatment of a transparent helper with one call site: the helper's body is explored
	// once, and the caller is continued once per return the helper can reach, with the call's results
	// bound to that return's operands (so `ok, err := helper(); if !ok { return err }` is followed with
	// the values that return really produced)
	bind    []binding
	retList [][]binding
}

type binding struct {
	call *ssa.Call
	ret  *ssa.Return
	vals []ssa.Value // the return's operands, a returned phi resolved for the way the return was reached
}

// activeBind is the binding stack of the reach query whose target callback is running (see Bound).
var activeBind []binding

// Bound resolves a result of a transparent helper call to the operand of the helper's return on the
// path being explored; any other value (or no such path information) is returned unchanged. Target
// callbacks of reach queries use it to judge `return err` where err came out of a helper.
func Bound(v ssa.Value) ssa.Value {
	return boundIn(activeBind, v)
}

func boundIn(bs []binding, v ssa.Value) ssa.Value {
	for d := 0; d < 4; d++ {
		idx := -1
		var call *ssa.Call
		switch x := v.(type) {
		case *ssa.Extract:
			call, _ = x.Tuple.(*ssa.Call)
			idx = x.Index
		case *ssa.Call:
			call, idx = x, 0
		}
		if call == nil {
			return v
		}
		found := false
		for k := len(bs) - 1; k >= 0; k-- {
			if bs[k].call == call {
				vals := bs[k].vals
				if idx < len(vals) {
					v = vals[idx]
					found = true
				}
				break
			}
		}
		if !found {
			return v
		}
	}
	return v
}

// boundBranch decides a branch whose condition is (a comparison of) a bound helper result with a
// constant: +1 the condition is true on this path, -1 false, 0 unknown.
func boundBranch(bs []binding, cond ssa.Value) int {
	if len(bs) == 0 {
		return 0
	}
	neg := false
	for {
		u, ok := cond.(*ssa.UnOp)
		if !ok || u.Op != token.NOT {
			break
		}
		cond, neg = u.X, !neg
	}
	res := 0
	switch x := cond.(type) {
	case *ssa.Extract, *ssa.Call:
		v := boundIn(bs, cond)
		if v == cond {
			return 0
		}
		if IsConstBool(v, true) {
			res = 1
		} else if IsConstBool(v, false) {
			res = -1
		}
	case *ssa.BinOp:
		if x.Op != token.EQL && x.Op != token.NEQ {
			return 0
		}
		a, b := x.X, x.Y
		ba, bb := boundIn(bs, a), boundIn(bs, b)
		if ba == a && bb == b {
			return 0 // nothing bound here
		}
		eq := 0 // +1 equal, -1 different
		switch {
		case IsNilConst(bb) && IsNilConst(ba), isEmptyString(bb) && isEmptyString(ba):
			eq = 1
		case IsNilConst(bb) && definitelyNonNil(ba), IsNilConst(ba) && definitelyNonNil(bb):
			eq = -1
		case isEmptyString(bb) && definitelyNonEmpty(ba), isEmptyString(ba) && definitelyNonEmpty(bb):
			eq = -1
		default:
			ca, okA := ba.(*ssa.Const)
			cb, okB := bb.(*ssa.Const)
			if okA && okB && ca.Value != nil && cb.Value != nil {
				if constant.Compare(ca.Value, token.EQL, cb.Value) {
					eq = 1
				} else {
					eq = -1
				}
			}
		}
		if eq == 0 {
			return 0
		}
		res = eq
		if x.Op == token.NEQ {
			res = -eq
		}
	}
	if neg {
		res = -res
	}
	return res
}

type calleeResult struct {
	found ssa.Instruction
	exits bool
	busy  bool
	// results a one-bool helper can still return once the cut is applied
	canTrue, canFalse bool
}

// run explores from instruction i of block b0 inside b0's function; it returns the first target
// found and whether a normal return of that function is reachable.
func (r *reacher) run(b0 *ssa.BasicBlock, i0 int) (ssa.Instruction, bool) {
	type start struct {
		b    *ssa.BasicBlock
		i    int
		pred *ssa.BasicBlock
	}
	type visit struct{ b, pred *ssa.BasicBlock }
	seen := map[visit]bool{}
	work := []start{{b0, i0, nil}}
	first := true
	exits := false
	for len(work) > 0 {
		s := work[len(work)-1]
		work = work[:len(work)-1]
		if s.i == 0 {
			key := visit{s.b, nil}
			if ph, _ := phiBranch(s.b); ph != nil || phiReturn(s.b) != nil {
				key.pred = s.pred // resolved per incoming path
			}
			if seen[key] {
				continue
			}
			seen[key] = true
		} else if !first {
			continue
		}
		first = false
		stopped := false
		for i := s.i; i < len(s.b.Instrs); i++ {
			in := s.b.Instrs[i]
			if ret, ok := in.(*ssa.Return); ok && in.Parent() != r.root {
				// a helper's return is not an exit of the function under analysis
				if ret.Block().Comment != "recover" {
					exits = true
					if n := len(r.retList); n > 0 {
						vals := ResultValues(ret)
						if ph := phiReturn(s.b); ph != nil && s.i == 0 && len(vals) == 1 {
							if w := incoming(ph, s.pred); w != nil {
								vals = []ssa.Value{w}
							}
						}
						r.retList[n-1] = append(r.retList[n-1], binding{ret: ret, vals: vals})
					}
					if n := len(r.retVal); n > 0 && len(ret.Results) == 1 {
						v := ResultValues(ret)[0]
						if ph := phiReturn(s.b); ph != nil && s.i == 0 {
							if w := incoming(ph, s.pred); w != nil {
								v = w
							}
						}
						switch {
						case IsConstBool(v, true):
							r.retVal[n-1][true] = true
						case IsConstBool(v, false):
							r.retVal[n-1][false] = true
						default:
							// a computed result: each outcome is possible unless taking it establishes a cut fact
							if !r.cut.factCut(v, true) {
								r.retVal[n-1][true] = true
							}
							if !r.cut.factCut(v, false) {
								r.retVal[n-1][false] = true
							}
						}
					}
				}
				continue
			}
			activeBind = r.bind
			if r.target(in) {
				skip := false
				if ret, ok := in.(*ssa.Return); ok && r.cut != nil && r.cut.RetTrue && len(ret.Results) == 1 {
					v := ResultValues(ret)[0]
					if ph := phiReturn(s.b); ph != nil && s.i == 0 {
						if w := incoming(ph, s.pred); w != nil {
							v = w
						}
					}
					if IsConstBool(v, false) || (!IsConstBool(v, true) && r.cut.factCut(v, true)) {
						skip = true
					}
				}
				if !skip {
					return in, exits
				}
			}
			if r.cut != nil && r.cut.Instrs != nil && r.cut.Instrs(in) {
				stopped = true
				break
			}
			if h := transparentCallee(in); h != nil && len(helperSites[h]) == 1 && len(r.bind) < 3 && r.callee[h] == nil && h.Signature.Results().Len() >= 1 {
				// one call site: explore the body once, then continue the caller once per reachable return
				call := in.(*ssa.Call)
				r.callee[h] = &calleeResult{busy: true, exits: true, canTrue: true, canFalse: true}
				r.retList = append(r.retList, nil)
				r.retVal = append(r.retVal, map[bool]bool{})
				f, _ := r.run(h.Blocks[0], 0)
				rets := r.retList[len(r.retList)-1]
				r.retList = r.retList[:len(r.retList)-1]
				r.retVal = r.retVal[:len(r.retVal)-1]
				delete(r.callee, h)
				if f != nil {
					return f, exits
				}
				for _, rb := range rets {
					if rb.ret.Parent() != h {
						continue
					}
					r.bind = append(r.bind, binding{call, rb.ret, rb.vals})
					f, ex := r.run(s.b, i+1)
					r.bind = r.bind[:len(r.bind)-1]
					if f != nil {
						return f, exits || ex
					}
					exits = exits || ex
				}
				stopped = true
				break
			}
			if h := transparentCallee(in); h != nil {
				res := r.callee[h]
				if res == nil {
					res = &calleeResult{busy: true, exits: true, canTrue: true, canFalse: true}
					r.callee[h] = res
					r.retVal = append(r.retVal, map[bool]bool{})
					f, ex := r.run(h.Blocks[0], 0)
					vals := r.retVal[len(r.retVal)-1]
					r.retVal = r.retVal[:len(r.retVal)-1]
					res.found, res.exits, res.busy = f, ex, false
					if len(vals) > 0 {
						res.canTrue, res.canFalse = vals[true], vals[false]
					}
				}
				if res.found != nil {
					return res.found, exits
				}
				if !res.exits {
					stopped = true
					break
				}
			}
			if ret, ok := in.(*ssa.Return); ok && ret.Block().Comment != "recover" {
				exits = true
			}
		}
		if stopped {
			continue
		}
		var pv ssa.Value
		pneg := false
		if ph, neg := phiBranch(s.b); ph != nil && s.i == 0 {
			pv, pneg = incoming(ph, s.pred), neg
		}
		for k, succ := range s.b.Succs {
			if r.cut.edgeCut(s.b, k) {
				continue
			}
			if r.infeasible(s.b, k) {
				continue
			}
			if iff, ok := s.b.Instrs[len(s.b.Instrs)-1].(*ssa.If); ok && len(r.bind) > 0 {
				if d := boundBranch(r.bind, iff.Cond); (d > 0 && k == 1) || (d < 0 && k == 0) {
					continue // this path's helper results decide the branch the other way
				}
				// a computed result (`return last == kind`): the successor on which it would establish one
				// of the cut's facts is cut
				bc, bneg := iff.Cond, false
				for {
					u, ok := bc.(*ssa.UnOp)
					if !ok || u.Op != token.NOT {
						break
					}
					bc, bneg = u.X, !bneg
				}
				if bv := boundIn(r.bind, bc); bv != bc {
					if _, isConst := bv.(*ssa.Const); !isConst && r.cut.factCut(bv, (k == 0) != bneg) {
						continue
					}
				}
			}
			if pv != nil {
				// the branch tests a boolean materialised on the way in: resolve it for this way
				need := (k == 0) != pneg
				if IsConstBool(pv, !need) || r.cut.factCut(pv, need) {
					continue
				}
			}
			work = append(work, start{succ, 0, s.b})
		}
	}
	return nil, exits
}

// infeasible: the branch tests the result of a transparent predicate helper that, under the cut, can no
// longer return the value this branch needs.
func (r *reacher) infeasible(b *ssa.BasicBlock, k int) bool {
	iff, ok := b.Instrs[len(b.Instrs)-1].(*ssa.If)
	if !ok {
		return false
	}
	cond := iff.Cond
	neg := false
	for {
		u, ok := cond.(*ssa.UnOp)
		if !ok || u.Op != token.NOT {
			break
		}
		cond, neg = u.X, !neg
	}
	call, ok := cond.(*ssa.Call)
	if !ok {
		return false
	}
	h := transparentCallee(call)
	if h == nil {
		return false
	}
	res := r.callee[h]
	if res == nil || res.busy || len(helperSites[h]) != 1 {
		return false // result summary is only exact for a single call site
	}
	need := (k == 0) != neg
	if need {
		return !res.canTrue
	}
	return !res.canFalse
}

// after explores from the instruction following `from`; when `from` lives in a transparent helper
// and the helper can return, the search continues after each of its call sites under the root.
func (r *reacher) after(from ssa.Instruction) ssa.Instruction {
	if r.upSeen[from] {
		return nil
	}
	r.upSeen[from] = true
	return r.afterFrom(from)
}

func (r *reacher) afterFrom(from ssa.Instruction) ssa.Instruction {
	b := from.Block()
	idx := -1
	for i, in := range b.Instrs {
		if in == from {
			idx = i
			break
		}
	}
	g := from.Parent()
	inHelper := g != r.root && Transparent(g)
	if inHelper {
		r.retList = append(r.retList, nil)
	}
	found, exits := r.run(b, idx+1)
	var rets []binding
	if inHelper {
		rets = r.retList[len(r.retList)-1]
		r.retList = r.retList[:len(r.retList)-1]
	}
	if found != nil {
		return found
	}
	if exits && inHelper {
		for _, cs := range helperSites[g] {
			if !inDeep(r.root, cs.Parent()) {
				continue
			}
			if len(helperSites[g]) == 1 && len(rets) > 0 && len(r.bind) < 3 {
				// continue after the only call site once per return this start can reach, results bound
				for _, rb := range rets {
					if rb.ret.Parent() != g {
						continue
					}
					r.bind = append(r.bind, binding{cs, rb.ret, rb.vals})
					f := r.afterFrom(cs)
					r.bind = r.bind[:len(r.bind)-1]
					if f != nil {
						return f
					}
				}
				continue
			}
			if f := r.after(cs); f != nil {
				return f
			}
		}
	}
	return nil
}

// ReachFromBlock is ReachFrom starting at the first instruction of block b.
func ReachFromBlock(fn *ssa.Function, b *ssa.BasicBlock, cut *Cut, target func(ssa.Instruction) bool) ssa.Instruction {
	if len(b.Instrs) == 0 {
		return nil
	}
	first := b.Instrs[0]
	if target(first) {
		return first
	}
	if cut != nil && cut.Instrs != nil && cut.Instrs(first) {
		return nil
	}
	return ReachFrom(fn, first, cut, target)
}

// Guarded reports whether every path from entry to target crosses one of the
// given edges (edge dominance).
func Guarded(fn *ssa.Function, target ssa.Instruction, edges []Edge) bool {
	if len(edges) == 0 {
		return false
	}
	return ReachFrom(fn, nil, &Cut{Edges: edges}, func(in ssa.Instruction) bool { return in == target }) == nil
}

// GuardedAny reports whether every path from entry to target establishes one of the wanted facts.
func GuardedAny(fn *ssa.Function, target ssa.Instruction, wants ...Cmp) bool {
	var edges []Edge
	for _, w := range wants {
		edges = append(edges, EdgesImplying(fn, w)...)
	}
	cut := &Cut{Edges: edges, Facts: wants}
	return ReachFrom(fn, nil, cut, func(in ssa.Instruction) bool { return in == target }) == nil
}

// GuardedBy reports whether target is guarded by a fact implying want.
func GuardedBy(fn *ssa.Function, target ssa.Instruction, want Cmp) bool {
	if GuardedAny(fn, target, want) {
		return true
	}
	// asked in the frame of a transparent helper: every call site may carry the guard instead
	if sites := HelperSites(fn); len(sites) > 0 && target.Parent() == fn {
		for _, cs := range sites {
			if !GuardedBy(cs.Parent(), cs, want) {
				return false
			}
		}
		return true
	}
	return false
}

// IsExit reports whether in ends the function normally (return). Panics are
// not exits for must-pass purposes.
func IsExit(in ssa.Instruction) bool {
	_, ok := in.(*ssa.Return)
	return ok
}

// MustPass reports whether every path from `from` (nil = entry) to a normal
// return passes an instruction satisfying through. The returned instruction is
// an offending exit when the result is false.
func MustPass(fn *ssa.Function, from ssa.Instruction, through func(ssa.Instruction) bool) (bool, ssa.Instruction) {
	ex := ReachFrom(fn, from, &Cut{Instrs: through}, func(in ssa.Instruction) bool {
		if !IsExit(in) {
			return false
		}
		// the synthetic recover block's return is not a normal exit
		return in.Block().Comment != "recover"
	})
	return ex == nil, ex
}

// MustPassTo is MustPass with an explicit destination predicate instead of
// function exits.
func MustPassTo(fn *ssa.Function, from ssa.Instruction, through, to func(ssa.Instruction) bool) (bool, ssa.Instruction) {
	ex := ReachFrom(fn, from, &Cut{Instrs: through}, to)
	return ex == nil, ex
}

// Reaches reports whether `to` is reachable from just after `from`.
func Reaches(fn *ssa.Function, from, to ssa.Instruction) bool {
	return ReachFrom(fn, from, nil, func(in ssa.Instruction) bool { return in == to }) != nil
}

// Dominates reports whether instruction a dominates instruction b (same
// function).
func Dominates(a, b ssa.Instruction) bool {
	if a.Parent() != b.Parent() {
		// one of them lives in a transparent helper: a dominates b when b is unreachable from the entry of a
		// common owner once a is removed (and b is reachable at all)
		for _, ra := range Owners(a.Parent()) {
			for _, rb := range Owners(b.Parent()) {
				if ra != rb {
					continue
				}
				isB := func(in ssa.Instruction) bool { return in == b }
				if ReachFrom(ra, nil, nil, isB) == nil {
					return false
				}
				return ReachFrom(ra, nil, &Cut{Instrs: func(in ssa.Instruction) bool { return in == a }}, isB) == nil
			}
		}
		return false
	}
	ba, bb := a.Block(), b.Block()
	if ba == bb {
		for _, in := range ba.Instrs {
			if in == a {
				return true
			}
			if in == b {
				return false
			}
		}
		return false
	}
	return ba.Dominates(bb)
}

// ---------------------------------------------------------------------------
// Instruction enumeration helpers

// Instrs calls f for every instruction of fn.
func Instrs(fn *ssa.Function, f func(ssa.Instruction)) {
	for _, g := range deepFuncs(fn) {
		for _, b := range g.Blocks {
			for _, in := range b.Instrs {
				if _, isRet := in.(*ssa.Return); isRet && g != fn {
					continue // a helper's return is not a return of fn
				}
				f(in)
			}
		}
	}
}

// InstrsShallow visits the instructions of fn only (no transparent helpers): for scans that
// already iterate over every function of a package.
func InstrsShallow(fn *ssa.Function, f func(ssa.Instruction)) {
	for _, b := range fn.Blocks {
		for _, in := range b.Instrs {
			f(in)
		}
	}
}

// FindInstrs returns the instructions of fn satisfying pred, in block order.
func FindInstrs(fn *ssa.Function, pred func(ssa.Instruction) bool) []ssa.Instruction {
	var out []ssa.Instruction
	Instrs(fn, func(in ssa.Instruction) {
		if pred(in) {
			out = append(out, in)
		}
	})
	return out
}

// CallsTo returns the call instructions (call, go, defer) in fn whose static
// callee is named one of names.
func CallsTo(fn *ssa.Function, names ...string) []ssa.Instruction {
	return FindInstrs(fn, func(in ssa.Instruction) bool {
		c := CallOf(in)
		if c == nil {
			return false
		}
		f := StaticCallee(c)
		if f == nil {
			return false
		}
		n := CalleeName(f)
		for _, w := range names {
			if n == w {
				return true
			}
		}
		return false
	})
}

// StoresTo returns stores in fn whose address path has the given suffix
// (e.g. ".statusLTime").
func StoresTo(fn *ssa.Function, suffix string) []*ssa.Store {
	var out []*ssa.Store
	Instrs(fn, func(in ssa.Instruction) {
		if s, ok := in.(*ssa.Store); ok {
			if strings.HasSuffix(Path(s.Addr), suffix) {
				out = append(out, s)
			}
		}
	})
	return out
}

// FieldOf describes the struct field an address refers to: the named struct
// type and field name, or ok=false.
func FieldOf(addr ssa.Value) (typ, field string, ok bool) {
	fa, isFA := addr.(*ssa.FieldAddr)
	if !isFA {
		return "", "", false
	}
	t := fa.X.Type()
	if p, isP := t.Underlying().(*types.Pointer); isP {
		t = p.Elem()
	}
	name := ""
	if n, isN := t.(*types.Named); isN {
		name = n.Obj().Name()
	} else if a, isA := t.(*types.Alias); isA {
		name = a.Obj().Name()
	}
	return name, fieldName(fa.X.Type(), fa.Field), true
}

// LoadedField reports the struct field a value was loaded from (looking
// through conversions): v = *(&x.f) or v = x.f.
func LoadedField(v ssa.Value) (typ, field string, ok bool) {
	v = Strip(v)
	switch x := v.(type) {
	case *ssa.UnOp:
		if x.Op == token.MUL {
			return FieldOf(x.X)
		}
	case *ssa.Field:
		t := x.X.Type()
		name := ""
		if n, isN := t.(*types.Named); isN {
			name = n.Obj().Name()
		}
		return name, fieldName(t, x.Field), true
	}
	return "", "", false
}

// ResultValues resolves the values returned by a Return instruction, seeing
// through the result spill that go/ssa introduces for functions with defers
// (*t0 = v; rundefers; t1 = *t0; return t1).
func ResultValues(ret *ssa.Return) []ssa.Value {
	out := make([]ssa.Value, len(ret.Results))
	for i, r := range ret.Results {
		out[i] = r
		u, ok := r.(*ssa.UnOp)
		if !ok || u.Op != token.MUL {
			continue
		}
		al, ok := u.X.(*ssa.Alloc)
		if !ok {
			continue
		}
		// find the last store to al in this block before the return
		var last ssa.Value
		for _, in := range ret.Block().Instrs {
			if in == ssa.Instruction(ret) {
				break
			}
			if s, ok := in.(*ssa.Store); ok && s.Addr == ssa.Value(al) {
				last = s.Val
			}
		}
		if last != nil {
			out[i] = last
		}
	}
	return out
}

// Returns lists the normal return instructions of fn (excluding the synthetic
// recover block).
func Returns(fn *ssa.Function) []*ssa.Return {
	var out []*ssa.Return
	for _, b := range fn.Blocks {
		if b.Comment == "recover" {
			continue
		}
		for _, in := range b.Instrs {
			if r, ok := in.(*ssa.Return); ok {
				out = append(out, r)
			}
		}
	}
	return out
}

// IsConstBool reports whether v is the boolean constant b.
func IsConstBool(v ssa.Value, b bool) bool {
	c, ok := v.(*ssa.Const)
	if !ok || c.Value == nil || c.Value.Kind() != constant.Bool {
		return false
	}
	return constant.BoolVal(c.Value) == b
}

// ConstInt returns the integer value of a constant.
func ConstInt(v ssa.Value) (int64, bool) {
	c, ok := Strip(v).(*ssa.Const)
	if !ok || c.Value == nil {
		return 0, false
	}
	if c.Value.Kind() != constant.Int {
		return 0, false
	}
	n, ok := constant.Int64Val(c.Value)
	return n, ok
}

// IsNilConst reports whether v is a nil constant.
func IsNilConst(v ssa.Value) bool {
	c, ok := v.(*ssa.Const)
	return ok && c.Value == nil
}

// Ordinal computes the index of in among the instructions of its function
// that satisfy same (stable construct key component).
func Ordinal(in ssa.Instruction, same func(ssa.Instruction) bool) int {
	n := 0
	for _, b := range in.Parent().Blocks {
		for _, x := range b.Instrs {
			if x == in {
				return n
			}
			if same(x) {
				n++
			}
		}
	}
	return n
}
