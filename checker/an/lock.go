package an

import (
	"go/token"
	"sort"
	"strings"

	"golang.org/x/tools/go/ssa"
)

// LockSet is a set of held locks, each "Type.field:W" or "Type.field:R".
type LockSet map[string]bool

func (s LockSet) clone() LockSet {
	o := LockSet{}
	for k := range s {
		o[k] = true
	}
	return o
}

func (s LockSet) String() string {
	var ks []string
	for k := range s {
		ks = append(ks, k)
	}
	sort.Strings(ks)
	return "{" + strings.Join(ks, ",") + "}"
}

// HasW reports whether lock (Type.field) is held exclusively.
func (s LockSet) HasW(lock string) bool { return s[lock+":W"] }

// HasAny reports whether lock is held in any mode.
func (s LockSet) HasAny(lock string) bool { return s[lock+":W"] || s[lock+":R"] }

func intersect(a, b LockSet) LockSet {
	o := LockSet{}
	for k := range a {
		if b[k] {
			o[k] = true
		}
	}
	return o
}

func equalLS(a, b LockSet) bool {
	if len(a) != len(b) {
		return false
	}
	for k := range a {
		if !b[k] {
			return false
		}
	}
	return true
}

// lockOp classifies a call as a mutex operation on a struct field.
// op is "+W", "+R", "-W", "-R" or "".
func lockOp(c *ssa.CallCommon) (lock, op string) {
	f := StaticCallee(c)
	if f == nil || len(c.Args) == 0 {
		return "", ""
	}
	switch CalleeName(f) {
	case "sync.(*Mutex).Lock", "sync.(*RWMutex).Lock":
		op = "+W"
	case "sync.(*RWMutex).RLock":
		op = "+R"
	case "sync.(*Mutex).Unlock", "sync.(*RWMutex).Unlock":
		op = "-W"
	case "sync.(*RWMutex).RUnlock":
		op = "-R"
	default:
		return "", ""
	}
	t, fld, ok := FieldOf(c.Args[0])
	if !ok {
		return "", ""
	}
	return t + "." + fld, op
}

// Locks is the module-wide must-held lock analysis.
type Locks struct {
	p       *Prog
	entry   map[*ssa.Function]LockSet // nil = not yet constrained (top)
	before  map[ssa.Instruction]LockSet
	callers map[*ssa.Function][]ssa.Instruction // static plain-call sites
	escapes map[*ssa.Function]bool              // referenced as value / go / defer
}

// NewLocks computes the analysis for the whole module.
func NewLocks(p *Prog) *Locks {
	l := &Locks{p: p, entry: map[*ssa.Function]LockSet{}, before: map[ssa.Instruction]LockSet{},
		callers: map[*ssa.Function][]ssa.Instruction{}, escapes: map[*ssa.Function]bool{}}
	inMod := map[*ssa.Function]bool{}
	for _, f := range p.Funcs {
		inMod[f] = true
	}
	for _, f := range p.Funcs {
		InstrsShallow(f, func(in ssa.Instruction) {
			var callee *ssa.Function
			if c := CallOf(in); c != nil {
				callee = StaticCallee(c)
				if _, isCall := in.(*ssa.Call); isCall && callee != nil && inMod[callee] {
					l.callers[callee] = append(l.callers[callee], in)
				} else if callee != nil {
					l.escapes[callee] = true
				}
			}
			// any other reference to a function value makes it escape
			for _, op := range in.Operands(nil) {
				if op == nil || *op == nil {
					continue
				}
				var fn *ssa.Function
				switch x := (*op).(type) {
				case *ssa.Function:
					fn = x
				case *ssa.MakeClosure:
					fn, _ = x.Fn.(*ssa.Function)
				}
				if fn == nil {
					continue
				}
				if c := CallOf(in); c != nil && c.Value == *op {
					if _, isCall := in.(*ssa.Call); isCall {
						continue
					}
				}
				if _, isMC := in.(*ssa.MakeClosure); isMC {
					// the MakeClosure instruction itself references fn; whether
					// it escapes is decided by the uses of the closure value
					continue
				}
				l.escapes[fn] = true
			}
			if mc, ok := in.(*ssa.MakeClosure); ok {
				fn, _ := mc.Fn.(*ssa.Function)
				if fn != nil {
					for _, ref := range *mc.Referrers() {
						c := CallOf(ref)
						_, isCall := ref.(*ssa.Call)
						if c == nil || !isCall || c.Value != ssa.Value(mc) {
							l.escapes[fn] = true
						}
					}
				}
			}
		})
	}
	// exported/interface-reachable methods may be called from anywhere: treat a
	// function with no in-module static caller as entered with no locks.
	for iter := 0; iter < 20; iter++ {
		changed := false
		for _, f := range p.Funcs {
			l.run(f)
		}
		for _, f := range p.Funcs {
			var ne LockSet
			if l.escapes[f] || len(l.callers[f]) == 0 || (f.Parent() == nil && token.IsExported(f.Name())) {
				ne = LockSet{}
			} else {
				for _, site := range l.callers[f] {
					h := l.before[site]
					if h == nil {
						continue // caller not yet analysed/unreachable
					}
					if ne == nil {
						ne = h.clone()
					} else {
						ne = intersect(ne, h)
					}
				}
				if ne == nil {
					ne = LockSet{}
				}
			}
			if old, ok := l.entry[f]; !ok || !equalLS(old, ne) {
				l.entry[f] = ne
				changed = true
			}
		}
		if !changed {
			break
		}
	}
	return l
}

func (l *Locks) run(f *ssa.Function) {
	entry := l.entry[f]
	if entry == nil {
		entry = LockSet{}
	}
	in := map[*ssa.BasicBlock]LockSet{}
	in[f.Blocks[0]] = entry.clone()
	work := []*ssa.BasicBlock{f.Blocks[0]}
	for len(work) > 0 {
		b := work[len(work)-1]
		work = work[:len(work)-1]
		cur := in[b].clone()
		for _, ins := range b.Instrs {
			l.before[ins] = cur.clone()
			if c, ok := ins.(*ssa.Call); ok {
				lock, op := lockOp(&c.Call)
				switch op {
				case "+W":
					cur[lock+":W"] = true
				case "+R":
					cur[lock+":R"] = true
				case "-W":
					delete(cur, lock+":W")
				case "-R":
					delete(cur, lock+":R")
				}
			}
		}
		for _, s := range b.Succs {
			old, ok := in[s]
			var n LockSet
			if !ok {
				n = cur.clone()
			} else {
				n = intersect(old, cur)
				if equalLS(n, old) {
					continue
				}
			}
			in[s] = n
			work = append(work, s)
		}
	}
}

// Held returns the locks definitely held just before in executes.
func (l *Locks) Held(in ssa.Instruction) LockSet {
	if h := l.before[in]; h != nil {
		return h
	}
	return LockSet{}
}

// Entry returns the locks definitely held on entry to f.
func (l *Locks) Entry(f *ssa.Function) LockSet {
	if e := l.entry[f]; e != nil {
		return e
	}
	return LockSet{}
}

// Callers returns the in-module plain call sites of f.
func (l *Locks) Callers(f *ssa.Function) []ssa.Instruction { return l.callers[f] }

// Escapes reports whether f is referenced other than by a direct call.
func (l *Locks) Escapes(f *ssa.Function) bool { return l.escapes[f] }

// LockOpOf classifies a plain (not deferred) call instruction as a mutex
// operation: lock is "Type.field", op one of "+W", "+R", "-W", "-R"; "" when
// the instruction is not one.
func LockOpOf(in ssa.Instruction) (lock, op string) {
	call, ok := in.(*ssa.Call)
	if !ok {
		return "", ""
	}
	return lockOp(&call.Call)
}
