package rules

import (
	"sort"
	"strings"

	"serfcheck/an"

	"golang.org/x/tools/go/ssa"
)

const coord = an.PkgCoord

func cm(c *an.Ctx, rule, typ, name string) *ssa.Function {
	f := c.P.Method(coord, typ, name)
	if !c.NeedFunc(rule, f, "coordinate.("+typ+")."+name) {
		return nil
	}
	return f
}

func init() {
	register(&Rule{
		ID:      "C20",
		Explain: "Decides the structural clauses that keep the local coordinate valid whatever peers report: in Client.Update every mutation of client state (directly or through the four update helpers, which nobody else calls) is edge-dominated by checkCoordinate(other)==nil (compatible ∧ valid) and by 0 <= rtt <= max; every path from the mutations to the successful return passes the IsValid() re-check, whose false edge resets the coordinate; the error estimate is clamped to the maximum after it is written and the height is floored at the minimum; the ping delegate caches a peer coordinate only behind Update's nil error and the payload guards; the set of writers of the client's fields is closed. The numeric range of the error beyond the clamp and the validity re-check is not decided.",
		Run:     runC20,
		Mutants: []Mutant{
			{Name: "rename-locals", Equivalent: true, Regexp: true, File: "serf/ping_delegate.go", Func: "func (p *pingDelegate) NotifyPingComplete(", Old: `\b(coord|dec|before|after)\b`, New: "${1}Renamed"},
			{Name: "mutate-before-check", File: "coordinate/client.go", Func: "func (c *Client) Update(", Old: "\tif err := c.checkCoordinate(other); err != nil {\n\t\treturn nil, err\n\t}\n", New: "\trttSeconds0 := c.latencyFilter(node, rtt.Seconds())\n\t_ = rttSeconds0\n\tif err := c.checkCoordinate(other); err != nil {\n\t\treturn nil, err\n\t}\n", Expect: "R1"},
			{Name: "negative-rtt-accepted", File: "coordinate/client.go", Func: "func (c *Client) Update(", Old: "if rtt < 0 || rtt > maxRTT {", New: "if rtt > maxRTT {", Expect: "R1"},
			{Name: "no-validity-recheck", File: "coordinate/client.go", Func: "func (c *Client) Update(", Old: "\tif !c.coord.IsValid() {\n\t\tc.stats.Resets++\n\t\tc.coord = NewCoordinate(c.config)\n\t}\n", New: "", Expect: "R2"},
			{Name: "recheck-before-gravity", File: "coordinate/client.go", Func: "func (c *Client) Update(", Old: "\tc.updateGravity()\n\tif !c.coord.IsValid() {\n\t\tc.stats.Resets++\n\t\tc.coord = NewCoordinate(c.config)\n\t}\n", New: "\tif !c.coord.IsValid() {\n\t\tc.stats.Resets++\n\t\tc.coord = NewCoordinate(c.config)\n\t}\n\tc.updateGravity()\n", Expect: "R2"},
			{Name: "error-not-clamped", File: "coordinate/client.go", Func: "func (c *Client) updateVivaldi(", Old: "\tif c.coord.Error > c.config.VivaldiErrorMax {\n\t\tc.coord.Error = c.config.VivaldiErrorMax\n\t}\n", New: "", Expect: "R3"},
			{Name: "height-not-floored", File: "coordinate/coordinate.go", Func: "func (c *Coordinate) ApplyForce(", Old: "\t\tret.Height = math.Max(ret.Height, config.HeightMin)\n", New: "", Expect: "R3"},
			{Name: "cache-rejected-coordinate", File: "serf/ping_delegate.go", Func: "func (p *pingDelegate) NotifyPingComplete(", Old: "\t// Apply the update.\n", New: "\tp.serf.coordCacheLock.Lock()\n\tp.serf.coordCache[other.Name] = &coord\n\tp.serf.coordCacheLock.Unlock()\n", Expect: "R4"},
			{Name: "checkcoordinate-skips-validity", File: "coordinate/client.go", Func: "func (c *Client) checkCoordinate(", Old: "\tif !coord.IsValid() {\n\t\treturn fmt.Errorf(\"coordinate is invalid\")\n\t}\n", New: "", Expect: "R1"},
			{Name: "isvalid-ignores-height", File: "coordinate/coordinate.go", Func: "func (c *Coordinate) IsValid(", Old: "componentIsValid(c.Adjustment) &&\n\t\tcomponentIsValid(c.Height)", New: "componentIsValid(c.Adjustment)", Expect: "R2"},
		},
	})
	register(&Rule{
		ID:      "C21",
		Explain: "Decides the formula's structure, not its floating-point value: DistanceTo and ApplyForce perform every vector operation behind IsCompatibleWith and raise DimensionalityConflictError on the other edge; the raw distance is the sum of exactly {magnitude(diff(a.Vec,b.Vec)), a.Height, b.Height} and the adjusted distance adds exactly {a.Adjustment, b.Adjustment}, selected only on its > 0 edge (order-insensitive multisets, symmetric in the two operands; magnitude is the square root of a sum of squares of the difference, so swapping operands changes nothing but rounding); hence with non-negative heights the estimate is non-negative. Rounding error and the 1 ns symmetry bound as numbers are not computed.",
		Run:     runC21,
		Mutants: []Mutant{
			{Name: "distance-without-check", File: "coordinate/coordinate.go", Func: "func (c *Coordinate) DistanceTo(", Old: "\tif !c.IsCompatibleWith(other) {\n\t\tpanic(DimensionalityConflictError{})\n\t}\n", New: "", Expect: "R1"},
			{Name: "adjustment-once", File: "coordinate/coordinate.go", Func: "func (c *Coordinate) DistanceTo(", Old: "adjustedDist := dist + c.Adjustment + other.Adjustment", New: "adjustedDist := dist + c.Adjustment", Expect: "R3"},
			{Name: "adjusted-when-nonnegative", File: "coordinate/coordinate.go", Func: "func (c *Coordinate) DistanceTo(", Old: "if adjustedDist > 0.0 {", New: "if adjustedDist != 0.0 {", Expect: "R2"},
			{Name: "one-height", File: "coordinate/coordinate.go", Func: "func (c *Coordinate) rawDistanceTo(", Old: "magnitude(diff(c.Vec, other.Vec)) + c.Height + other.Height", New: "magnitude(diff(c.Vec, other.Vec)) + c.Height", Expect: "R3"},
			{Name: "manhattan", File: "coordinate/coordinate.go", Func: "func magnitude(", Old: "\t\tsum += vec[i] * vec[i]\n", New: "\t\tsum += math.Abs(vec[i])\n", Expect: "R3"},
			{Name: "wrong-error", File: "coordinate/coordinate.go", Func: "func (c *Coordinate) ApplyForce(", Old: "\tif !c.IsCompatibleWith(other) {\n\t\tpanic(DimensionalityConflictError{})\n\t}\n", New: "\tif !c.IsCompatibleWith(other) {\n\t\tpanic(\"bad dimensions\")\n\t}\n", Expect: "R1"},
		},
	})
}

func runC20(c *an.Ctx) {
	c.Rule("R1 Client.Update: every call of latencyFilter/updateVivaldi/updateAdjustment/updateGravity and every store to client state is dominated by checkCoordinate(other)==nil, rtt >= 0 and rtt <= 10s; the helpers are called only from Update; checkCoordinate returns nil only if compatible ∧ valid; closed writer set of Client's fields")
	c.Rule("R2 every path from the mutations to the successful return passes coord.IsValid(); its false edge must pass coord = NewCoordinate(config); IsValid covers Vec, Error, Adjustment and Height")
	c.Rule("R3 clamps: the store to coord.Error is followed on all paths by the > ErrorMax ⇒ = ErrorMax clamp; the last store to ret.Height on the force path is max(·, HeightMin)")
	c.Rule("R4 ping delegate: coordCache is written only behind Update(...) error == nil and the payload length/version/decode guards")
	locks := an.NewLocks(c.P)
	up := cm(c, "R1", "Client", "Update")
	helpers := []string{"(*Client).latencyFilter", "(*Client).updateVivaldi", "(*Client).updateAdjustment", "(*Client).updateGravity"}
	if up != nil {
		ok1 := an.Cmp{L: "(*Client).checkCoordinate($0,$2)", Op: "==", R: "c:nil"}
		lo := an.Cmp{L: "$3", Op: ">=", R: "c:0"}
		hi := an.Cmp{L: "$3", Op: "<=", R: "c:10000000000"}
		var muts []ssa.Instruction
		muts = append(muts, an.CallsTo(up, helpers...)...)
		an.Instrs(up, func(in ssa.Instruction) {
			if s, ok := in.(*ssa.Store); ok && strings.HasPrefix(an.Path(s.Addr), "&$0.") {
				muts = append(muts, in)
			}
		})
		c.Floor("R1", "mutations in Client.Update", len(muts), 6)
		for _, m := range muts {
			c.Add(an.GuardedBy(up, m, ok1), "R1", "Update:checked:"+kindOf(m), m, kindOf(m)+" only after checkCoordinate(other) returned nil", "edge dominance")
			c.Add(an.GuardedBy(up, m, lo) && an.GuardedBy(up, m, hi), "R1", "Update:rtt-range:"+kindOf(m), m, kindOf(m)+" only for 0 <= rtt <= 10s", "edge dominance")
			c.Add(locks.Held(m).HasW("Client.mutex"), "R1", "Update:locked:"+kindOf(m), m, kindOf(m)+" under the client's mutex", "must-held lockset")
		}
		// helpers operate on the checked coordinate
		for _, h := range an.CallsTo(up, "(*Client).updateVivaldi", "(*Client).updateAdjustment") {
			c.Add(an.Path(an.CallOf(h).Args[1]) == "$2", "R1", "Update:helper-operand:"+kindOf(h), h, "the helper receives the coordinate that was checked", "argument path")
		}
		// R2
		var okRet []*ssa.Return
		for _, r := range an.Returns(up) {
			if v := an.ResultValues(r); len(v) == 2 && an.IsNilConst(v[1]) {
				okRet = append(okRet, r)
			}
		}
		c.Floor("R2", "successful returns of Update", len(okRet), 1)
		isValidCall := func(in ssa.Instruction) bool {
			return an.IsCallTo(in, "(*Coordinate).IsValid") && an.Path(an.CallOf(in).Args[0]) == "$0.coord"
		}
		for _, m := range an.CallsTo(up, helpers...) {
			okMP, _ := an.MustPassTo(up, m, isValidCall, func(in ssa.Instruction) bool {
				for _, r := range okRet {
					if in == ssa.Instruction(r) {
						return true
					}
				}
				return false
			})
			c.Add(okMP, "R2", "Update:recheck-after:"+kindOf(m), m, "after "+kindOf(m)+" the coordinate's validity is re-checked before the successful return", "must-pass")
		}
		invalid := an.EdgesImplying(up, an.Cmp{L: "(*Coordinate).IsValid($0.coord)", Op: "==", R: "c:false"})
		c.Floor("R2", "invalid-coordinate edges", len(invalid), 1)
		for _, e := range invalid {
			r := an.ReachFromBlock(up, e.To(), &an.Cut{Instrs: func(in ssa.Instruction) bool {
				s, ok := in.(*ssa.Store)
				return ok && an.Path(s.Addr) == "&$0.coord" && an.Path(s.Val) == "NewCoordinate($0.config)"
			}}, an.IsExit)
			c.Add(r == nil, "R2", "Update:reset-on-invalid", up, "an invalid coordinate is replaced by a fresh one before Update returns", "must-pass from the invalid edge")
		}
		for _, r := range okRet {
			v := an.ResultValues(r)
			c.Add(an.Path(v[0]) == "(*Coordinate).Clone($0.coord)", "R2", "Update:returns-clone", r, "Update returns a copy of the (re-checked) coordinate", "result path")
		}
	}
	// helpers are private to Update
	for _, h := range []string{"latencyFilter", "updateVivaldi", "updateAdjustment", "updateGravity"} {
		f := c.P.Method(coord, "Client", h)
		if !c.NeedFunc("R1", f, "coordinate.(*Client)."+h) {
			continue
		}
		for _, s := range locks.Callers(f) {
			c.Add(s.Parent() == up, "R1", "helper-caller:"+h, s, h+" is called only from Update", "who-may-call")
		}
		c.Add(!locks.Escapes(f) && len(locks.Callers(f)) >= 1, "R1", "helper-private:"+h, f, h+" is only called directly", "reference enumeration")
	}
	// checkCoordinate summary
	if cc := cm(c, "R1", "Client", "checkCoordinate"); cc != nil {
		for _, r := range an.Returns(cc) {
			if v := an.ResultValues(r); len(v) == 1 && an.IsNilConst(v[0]) {
				c.Add(an.GuardedBy(cc, r, an.Cmp{L: "(*Coordinate).IsCompatibleWith($0.coord,$1)", Op: "==", R: "c:true"}), "R1", "checkCoordinate:compatible", r, "checkCoordinate accepts only dimension-compatible coordinates", "edge dominance on the nil return")
				c.Add(an.GuardedBy(cc, r, an.Cmp{L: "(*Coordinate).IsValid($1)", Op: "==", R: "c:true"}), "R1", "checkCoordinate:valid", r, "checkCoordinate accepts only valid (finite) coordinates", "edge dominance on the nil return")
			}
		}
	}
	// closed writer set
	allowed := map[string]bool{"NewClient": true, "(*Client).SetCoordinate": true, "(*Client).ForgetNode": true, "(*Client).Update": true, "(*Client).latencyFilter": true, "(*Client).updateVivaldi": true, "(*Client).updateAdjustment": true, "(*Client).updateGravity": true}
	nW := 0
	for _, f := range []string{"coord", "origin", "config", "adjustmentIndex", "adjustmentSamples", "latencyFilterSamples", "stats"} {
		for _, a := range an.FieldAccesses(c.P.FuncsIn(coord), "Client", f) {
			nW++
			c.Add(allowed[an.FuncName(a.Fn)], "R1", "client-writer:"+f+":"+an.FuncName(a.Fn), a.Instr, a.Kind+" on Client."+f+" in "+an.FuncName(a.Fn), "who-may-write")
		}
	}
	// writes through c.coord.X (fields of the coordinate the client owns)
	for _, fn := range c.P.FuncsIn(coord) {
		an.Instrs(fn, func(in ssa.Instruction) {
			s, ok := in.(*ssa.Store)
			if !ok {
				return
			}
			p := an.Path(s.Addr)
			if strings.HasPrefix(p, "&$0.coord.") && fn.Signature.Recv() != nil && strings.HasSuffix(fn.Signature.Recv().Type().String(), "Client") {
				nW++
				c.Add(allowed[an.FuncName(fn)], "R1", "client-writer:coord-field:"+an.FuncName(fn), in, "write to a field of the client's coordinate in "+an.FuncName(fn), "who-may-write")
			}
		})
	}
	c.Floor("R1", "writes to client state", nW, 10)
	if sc := cm(c, "R1", "Client", "SetCoordinate"); sc != nil {
		for _, a := range an.FieldAccesses([]*ssa.Function{sc}, "Client", "coord") {
			c.Add(an.GuardedBy(sc, a.Instr, an.Cmp{L: "(*Client).checkCoordinate($0,$1)", Op: "==", R: "c:nil"}), "R1", "SetCoordinate:checked", a.Instr, "SetCoordinate installs only a checked coordinate", "edge dominance")
		}
	}
	// IsValid covers all components
	if iv := cm(c, "R2", "Coordinate", "IsValid"); iv != nil {
		seen := map[string]bool{}
		for _, call := range an.CallsTo(iv, "componentIsValid") {
			p := an.Path(an.CallOf(call).Args[0])
			switch {
			case strings.HasPrefix(p, "$0.Vec["):
				seen["Vec"] = true
			case strings.HasPrefix(p, "$0."):
				seen[p[3:]] = true
			}
		}
		for _, f := range []string{"Vec", "Error", "Adjustment", "Height"} {
			c.Add(seen[f], "R2", "IsValid:covers:"+f, iv, "IsValid examines "+f, "call enumeration")
		}
		// true only if all component checks were true: every return of a possibly-true value is behind the Vec loop's exit
		for _, r := range an.Returns(iv) {
			v := an.ResultValues(r)[0]
			if an.IsConstBool(v, false) {
				continue
			}
			exit := an.EdgesWhere(iv, func(f an.Cmp) bool {
				return strings.HasPrefix(f.L, "(phi:rangeindex@") && f.Op == ">=" && f.R == "len($0.Vec)"
			})
			c.Add(an.Guarded(iv, r, exit), "R2", "IsValid:all-vec-components", r, "a non-false result is returned only after every vector component was checked", "edge dominance by the loop exit")
			if phi, ok := v.(*ssa.Phi); ok {
				n := 0
				for _, e := range phi.Edges {
					if !an.IsConstBool(e, false) {
						n++
						c.Add(strings.HasPrefix(an.Path(e), "componentIsValid($0."), "R2", "IsValid:conjunction-tail", r, "the only non-false operand of the conjunction is the last component check ("+an.Path(e)+")", "phi operands")
					}
				}
				c.Add(n == 1, "R2", "IsValid:conjunction", r, "the scalar checks are combined by short-circuit AND", "phi operand enumeration")
			}
		}
		if cv := c.P.Func(coord, "componentIsValid"); c.NeedFunc("R2", cv, "coordinate.componentIsValid") {
			ok := len(an.CallsTo(cv, "math.IsInf")) == 1 && len(an.CallsTo(cv, "math.IsNaN")) == 1
			c.Add(ok, "R2", "componentIsValid:inf-and-nan", cv, "a component is valid only if it is neither infinite nor NaN", "call enumeration")
		}
	}

	// R3 clamps
	if uv := cm(c, "R3", "Client", "updateVivaldi"); uv != nil {
		sts := an.StoresTo(uv, ".coord.Error")
		c.Floor("R3", "stores to coord.Error", len(sts), 2)
		within := an.EdgesImplying(uv, an.Cmp{L: "$0.coord.Error", Op: "<=", R: "$0.config.VivaldiErrorMax"})
		for _, st := range sts {
			if an.Path(st.Val) == "$0.config.VivaldiErrorMax" {
				continue
			}
			r := an.ReachFrom(uv, st, &an.Cut{Edges: within, Instrs: func(in ssa.Instruction) bool {
				s, ok := in.(*ssa.Store)
				return ok && an.Path(s.Addr) == "&$0.coord.Error" && an.Path(s.Val) == "$0.config.VivaldiErrorMax"
			}}, func(in ssa.Instruction) bool {
				return an.IsExit(in) || an.IsCallTo(in, "(*Coordinate).ApplyForce")
			})
			c.Add(r == nil, "R3", "updateVivaldi:error-clamped", st, "after the error estimate is written it is clamped to VivaldiErrorMax before it is used again", "reach/cut: every continuation passes the <= max edge or the clamp store")
		}
	}
	if af := cm(c, "R3", "Coordinate", "ApplyForce"); af != nil {
		sts := an.StoresTo(af, ".Height")
		c.Floor("R3", "stores to the result height in ApplyForce", len(sts), 1)
		for _, st := range sts {
			if strings.HasPrefix(an.Path(st.Val), "math.Max(") {
				c.Add(strings.HasSuffix(an.Path(st.Val), ",$1.HeightMin)"), "R3", "ApplyForce:floor-operand", st, "the height is floored at config.HeightMin", "value path")
				continue
			}
			ok, _ := an.MustPass(af, st, func(in ssa.Instruction) bool {
				s, isS := in.(*ssa.Store)
				return isS && strings.HasSuffix(an.Path(s.Addr), ".Height") && strings.HasPrefix(an.Path(s.Val), "math.Max(") && strings.HasSuffix(an.Path(s.Val), ",$1.HeightMin)")
			})
			c.Add(ok, "R3", "ApplyForce:height-floored", st, "a recomputed height is floored at HeightMin on every path to the return", "must-pass")
		}
	}
	if nc := c.P.Func(coord, "NewCoordinate"); c.NeedFunc("R3", nc, "coordinate.NewCoordinate") {
		okH, okE := false, false
		for _, st := range an.StoresTo(nc, ".Height") {
			okH = an.Path(st.Val) == "$0.HeightMin"
		}
		for _, st := range an.StoresTo(nc, ".Error") {
			okE = an.Path(st.Val) == "$0.VivaldiErrorMax"
		}
		c.Add(okH && okE, "R3", "NewCoordinate:within-bounds", nc, "a fresh coordinate starts at the minimum height and the maximum error", "field provenance")
	}

	// R4 ping delegate
	if np := sm(c, "R4", "pingDelegate", "NotifyPingComplete"); np != nil {
		var ws []ssa.Instruction
		an.Instrs(np, func(in ssa.Instruction) {
			if mu, ok := in.(*ssa.MapUpdate); ok && strings.HasSuffix(an.Path(mu.Map), ".coordCache") {
				ws = append(ws, in)
			}
		})
		c.Floor("R4", "coordinate cache writes in the ping delegate", len(ws), 2)
		accepted := an.EdgesWhere(np, func(f an.Cmp) bool {
			return strings.HasPrefix(f.L, "(*Client).Update($0.serf.coordClient,$1.Name,&local:Coordinate,$2)#1") && f.Op == "==" && f.R == "c:nil"
		})
		decoded := an.EdgesWhere(np, func(f an.Cmp) bool {
			return strings.HasPrefix(f.L, "codec.(*Decoder).Decode(") && strings.HasSuffix(f.L, ",&local:Coordinate)") && f.Op == "==" && f.R == "c:nil"
		})
		ver := an.EdgesImplying(np, an.Cmp{L: "$3[c:0]", Op: "==", R: cv(c, serf, "PingVersion")})
		for _, w := range ws {
			c.Add(an.Guarded(np, w, accepted), "R4", "ping:cache-after-accept", w, "a coordinate is cached only when Update accepted the observation", "edge dominance on Update's error")
			c.Add(an.Guarded(np, w, decoded) && an.Guarded(np, w, ver) && lenAtLeast(np, w, "$3", 1), "R4", "ping:cache-after-guards", w, "... and only for a non-empty payload of the supported version that decoded", "edge dominance")
		}
		// who else writes the cache
		for _, a := range an.FieldAccesses(c.P.FuncsIn(serf), "Serf", "coordCache") {
			fn := an.FuncName(a.Fn)
			ok := fn == "(*pingDelegate).NotifyPingComplete" || fn == "Create" || (fn == "(*Serf).eraseNode" && a.Kind == "delete")
			c.Add(ok, "R4", "coordCache-writer:"+fn+":"+a.Kind, a.Instr, a.Kind+" on Serf.coordCache in "+fn, "who-may-write")
		}
	}
	// R5 dimension typestate of every coordinate operation in the client (shared with C09.D7)
	d := &discharger{c: c, memo: map[string]bool{}}
	n := 0
	for _, fn := range c.P.FuncsIn(coord) {
		if fn.Signature.Recv() == nil || !strings.HasSuffix(fn.Signature.Recv().Type().String(), "Client") {
			continue
		}
		for _, call := range an.CallsTo(fn, "(*Coordinate).DistanceTo", "(*Coordinate).ApplyForce", "(*Coordinate).rawDistanceTo") {
			if an.FuncName(fn) == "(*Client).DistanceTo" {
				c.Exemption("(*Client).DistanceTo", "public query API: a caller-supplied coordinate of another dimension raises the documented DimensionalityConflictError; it mutates nothing")
				continue
			}
			n++
			c.Add(d.coordOperandsValid(call), "R5", an.FuncName(fn)+":operands-compatible:"+kindOf(call), call, "both operands are client-owned or were accepted by checkCoordinate", "dimension typestate")
		}
	}
	c.Floor("R5", "coordinate operations inside the client", n, 5)
}

// flattenAdd returns the multiset of addends of a float expression.
func flattenAdd(v ssa.Value) []string {
	if b, ok := v.(*ssa.BinOp); ok && b.Op.String() == "+" {
		return append(flattenAdd(b.X), flattenAdd(b.Y)...)
	}
	return []string{an.Path(v)}
}

func sameMultiset(a, b []string) bool {
	if len(a) != len(b) {
		return false
	}
	x := append([]string{}, a...)
	y := append([]string{}, b...)
	sort.Strings(x)
	sort.Strings(y)
	for i := range x {
		if x[i] != y[i] {
			return false
		}
	}
	return true
}

func runC21(c *an.Ctx) {
	c.Rule("R1 DistanceTo/ApplyForce: every vector operation is dominated by IsCompatibleWith==true; the other edge panics with DimensionalityConflictError")
	c.Rule("R2 the adjusted distance is used only on its > 0 edge; the result is dist*1e9 of the selected value")
	c.Rule("R3 addend multisets: raw = {magnitude(diff(a.Vec,b.Vec)), a.Height, b.Height}; adjusted = raw + {a.Adjustment, b.Adjustment}; magnitude = sqrt(sum of squares)")
	for _, name := range []string{"DistanceTo", "ApplyForce"} {
		f := cm(c, "R1", "Coordinate", name)
		if f == nil {
			continue
		}
		other := "$1"
		if name == "ApplyForce" {
			other = "$3"
		}
		compat := an.Cmp{L: "(*Coordinate).IsCompatibleWith($0," + other + ")", Op: "==", R: "c:true"}
		ops := an.CallsTo(f, "(*Coordinate).rawDistanceTo", "unitVectorAt", "add", "diff", "mul", "magnitude")
		c.Floor("R1", "vector operations in "+name, len(ops), 1)
		for _, o := range ops {
			c.Add(an.GuardedBy(f, o, compat), "R1", name+":compatible-first:"+kindOf(o), o, kindOf(o)+" only for dimension-compatible operands", "edge dominance")
		}
		// the other edge panics with the documented error
		bad := an.EdgesImplying(f, an.Cmp{L: compat.L, Op: "==", R: "c:false"})
		okP := len(bad) > 0
		for _, e := range bad {
			to := e.To()
			p, isP := to.Instrs[len(to.Instrs)-1].(*ssa.Panic)
			if !isP {
				okP = false
				continue
			}
			mi, isMI := p.X.(*ssa.MakeInterface)
			if !isMI || !strings.HasSuffix(mi.X.Type().String(), "DimensionalityConflictError") {
				okP = false
			}
		}
		c.Add(okP, "R1", name+":rejects-with-dimensionality-error", f, "incompatible operands are rejected with DimensionalityConflictError", "edge target inspection")
	}
	if dt := cm(c, "R2", "Coordinate", "DistanceTo"); dt != nil {
		raw := "(*Coordinate).rawDistanceTo($0,$1)"
		nRaw, nAdj := 0, 0
		for _, r := range an.Returns(dt) {
			v := an.ResultValues(r)[0]
			conv, _ := v.(*ssa.Convert)
			var mulv *ssa.BinOp
			if conv != nil {
				mulv, _ = conv.X.(*ssa.BinOp)
			}
			if mulv == nil || mulv.Op.String() != "*" || an.Path(mulv.Y) != "c:1000000000" {
				c.Add(false, "R2", "DistanceTo:seconds-to-ns", r, "the result is the selected distance in seconds times 1e9", "")
				continue
			}
			c.Add(true, "R2", "DistanceTo:seconds-to-ns", r, "the result is the selected distance in seconds times 1e9", "value shape")
			// the selection is a phi of the two candidates, or one return per candidate
			type alt struct {
				v  ssa.Value
				at ssa.Instruction
			}
			var alts []alt
			if phi, isPhi := mulv.X.(*ssa.Phi); isPhi {
				for i, e := range phi.Edges {
					pred := phi.Block().Preds[i]
					alts = append(alts, alt{e, pred.Instrs[len(pred.Instrs)-1]})
				}
			} else {
				alts = append(alts, alt{mulv.X, r})
			}
			for _, a := range alts {
				adds := flattenAdd(a.v)
				switch {
				case sameMultiset(adds, []string{raw}):
					nRaw++
				case sameMultiset(adds, []string{raw, "$0.Adjustment", "$1.Adjustment"}):
					nAdj++
					c.Add(an.GuardedBy(dt, a.at, an.Cmp{L: an.Path(a.v), Op: ">", R: "c:0"}), "R2", "DistanceTo:adjusted-only-if-positive", r, "the adjusted distance is used only when it is > 0", "edge dominance on the way the adjusted value is selected")
				default:
					c.Add(false, "R3", "DistanceTo:addends", r, "unexpected addends "+strings.Join(adds, " + "), "")
				}
			}
		}
		c.Add(nRaw == 1 && nAdj == 1, "R3", "DistanceTo:adjusted-addends", dt, "adjusted distance = raw + both adjustments (multiset {raw, a.Adjustment, b.Adjustment}); raw is the fallback", "addend multiset")
	}
	if rd := cm(c, "R3", "Coordinate", "rawDistanceTo"); rd != nil {
		for _, r := range an.Returns(rd) {
			adds := flattenAdd(an.ResultValues(r)[0])
			ok := sameMultiset(adds, []string{"magnitude(diff($0.Vec,$1.Vec))", "$0.Height", "$1.Height"}) || sameMultiset(adds, []string{"magnitude(diff($1.Vec,$0.Vec))", "$0.Height", "$1.Height"})
			c.Add(ok, "R3", "rawDistanceTo:addends", r, "raw distance = Euclidean distance + both heights (got "+strings.Join(adds, " + ")+")", "addend multiset, symmetric in the operands")
		}
	}
	if mg := c.P.Func(coord, "magnitude"); c.NeedFunc("R3", mg, "coordinate.magnitude") {
		ok := false
		for _, r := range an.Returns(mg) {
			p := an.Path(an.ResultValues(r)[0])
			if strings.HasPrefix(p, "math.Sqrt(phi@") {
				if call, isC := an.ResultValues(r)[0].(*ssa.Call); isC {
					if phi, isPhi := call.Call.Args[0].(*ssa.Phi); isPhi {
						ok = true
						for _, e := range phi.Edges {
							ep := an.Path(e)
							if ep == "c:0" {
								continue
							}
							idx := "$0[(phi:rangeindex@" + itoa(phi.Block().Index) + "+c:1)]"
							if ep != "("+an.Path(phi)+"+("+idx+"*"+idx+"))" {
								ok = false
							}
						}
					}
				}
			}
		}
		c.Add(ok, "R3", "magnitude:sqrt-sum-of-squares", mg, "magnitude is the square root of the sum of squares of the components", "phi operands of the accumulator")
	}
	if df := c.P.Func(coord, "diff"); c.NeedFunc("R3", df, "coordinate.diff") {
		ok := false
		an.Instrs(df, func(in ssa.Instruction) {
			if s, isS := in.(*ssa.Store); isS {
				v := an.Path(s.Val)
				if strings.HasPrefix(v, "($0[") && strings.Contains(v, "]-$1[") {
					ok = true
				}
			}
		})
		c.Add(ok, "R3", "diff:componentwise", df, "diff is the component-wise difference of its operands", "store value path")
	}
	c.Assumption("heights are non-negative (precondition of the property); math.Sqrt returns a non-negative value or NaN")
}
