package rules

import (
	"go/token"
	"go/types"
	"strconv"
	"strings"

	"serfcheck/an"

	"golang.org/x/tools/go/ssa"
)

// C01: the partition-healing path. Convergence itself (a statement about
// distributed histories) is not decided; what is decided is the one mechanism
// of serf's own code without which two halves of a healed partition never
// learn of each other again: the reconnect loop and the attempt it makes.
func init() {
	register(&Rule{
		ID:      "C01",
		Explain: "Decides a necessary condition of convergence after a healed partition, not convergence: the reconnect path is wired for every run. Create starts handleReconnect on every path to its successful return; handleReconnect calls reconnect on every timer tick and returns only on the shutdown channel; reconnect gives up without an attempt only when no member is failed or on the documented random throttle, whose probability is the floating-point quotient failed/alive (never an integer quotient, and the divisor never zero); the attempt joins the address, port and name of a member read from failedMembers under memberLock at an index drawn below len(failedMembers), and the memberlist join is made after the lock is released.",
		Run:     runC01,
		Mutants: []Mutant{
			{Name: "rename-locals", Equivalent: true, Regexp: true, File: "serf/serf.go", Func: "func (s *Serf) reconnect(", Old: `\b(numFailed|numAlive|prob|idx|mem|joinAddr)\b`, New: "${1}Renamed"},
			{Name: "reconnect-stops-after-first-tick", File: "serf/serf.go", Func: "func (s *Serf) handleReconnect(", Old: "\t\t\ts.reconnect()\n", New: "\t\t\ts.reconnect()\n\t\t\tif s.State() != SerfAlive {\n\t\t\t\treturn\n\t\t\t}\n", Expect: "R2"},
			{Name: "reconnect-skipped-while-leaving", File: "serf/serf.go", Func: "func (s *Serf) handleReconnect(", Old: "\t\t\ts.reconnect()\n", New: "\t\t\tif s.State() == SerfAlive {\n\t\t\t\ts.reconnect()\n\t\t\t}\n", Expect: "R2"},
			{Name: "integer-probability", File: "serf/serf.go", Func: "func (s *Serf) reconnect(", Old: "\tprob := numFailed / numAlive\n", New: "\tprob := float32(int(numFailed) / int(numAlive))\n", Expect: "R3"},
			{Name: "throttle-inverted", File: "serf/serf.go", Func: "func (s *Serf) reconnect(", Old: "if rand.Float32() > prob {", New: "if rand.Float32() < prob {", Expect: "R3"},
			{Name: "extra-give-up", File: "serf/serf.go", Func: "func (s *Serf) reconnect(", Old: "\t// Select a random member to try and join\n", New: "\tif len(s.leftMembers) > 0 {\n\t\ts.memberLock.RUnlock()\n\t\treturn\n\t}\n", Expect: "R3"},
			{Name: "joins-left-member", File: "serf/serf.go", Func: "func (s *Serf) reconnect(", Old: "mem := s.failedMembers[idx]", New: "mem := s.failedMembers[idx]\n\tif len(s.leftMembers) > 0 {\n\t\tmem = s.leftMembers[0]\n\t}", Expect: "R4"},
			{Name: "port-dropped", File: "serf/serf.go", Func: "func (s *Serf) reconnect(", Old: "addr := net.UDPAddr{IP: mem.Addr, Port: int(mem.Port)}", New: "addr := net.UDPAddr{IP: mem.Addr, Port: s.config.MemberlistConfig.BindPort}", Expect: "R4"},
			{Name: "join-under-lock", File: "serf/serf.go", Func: "func (s *Serf) reconnect(", Old: "\ts.memberLock.RUnlock()\n\n\t// Attempt to join at the memberlist level\n\t_, _ = s.memberlist.Join([]string{joinAddr})\n", New: "\t// Attempt to join at the memberlist level\n\t_, _ = s.memberlist.Join([]string{joinAddr})\n\ts.memberLock.RUnlock()\n", Expect: "R4"},
			{Name: "reconnect-not-started-with-snapshot", File: "serf/serf.go", Func: "func Create(", Old: "\tgo serf.handleReconnect()\n", New: "\tif conf.SnapshotPath == \"\" {\n\t\tgo serf.handleReconnect()\n\t}\n", Expect: "R1"},
		},
	})
}

func isGoOf(in ssa.Instruction, name string) bool {
	g, ok := in.(*ssa.Go)
	if !ok {
		return false
	}
	f := an.StaticCallee(&g.Call)
	return f != nil && an.FuncName(f) == name
}

func runC01(c *an.Ctx) {
	c.Rule("R1 Create: every path to a return with a nil error passes `go (*Serf).handleReconnect`")
	c.Rule("R2 handleReconnect: one blocking select over a timer and shutdownCh; from the select, the select is reached again only through a call of reconnect; every return is behind the shutdownCh case")
	c.Rule("R3 reconnect: a return not preceded by the memberlist join is behind len(failedMembers)==0 or behind rand.Float32() > failed/alive, the quotient being a float division whose divisor is tested non-zero")
	c.Rule("R4 reconnect: the joined string is built from Addr, Port and Name of failedMembers[i], i = rand.Int31n(len(failedMembers)), read with memberLock held; memberlist.Join is called with memberLock released")
	c.Assumption("memberlist.Join to a reachable member's address triggers a push/pull exchange and alive notifications (memberlist, outside the repository); what the exchange does with the states is decided under C02 and C15")
	c.Assumption("not decided: convergence itself, timing, the failure detector, and that a healed network lets the join through")

	// R1
	if cr := sf(c, "R1", "Create"); cr != nil {
		gos := an.FindInstrs(cr, func(in ssa.Instruction) bool { return isGoOf(in, "(*Serf).handleReconnect") })
		c.Floor("R1", "go handleReconnect in Create", len(gos), 1)
		nOK := 0
		for _, ret := range an.Returns(cr) {
			rv := an.ResultValues(ret)
			if len(rv) != 2 || !an.IsNilConst(rv[1]) {
				continue
			}
			nOK++
			r := ret
			ok, _ := an.MustPassTo(cr, nil, func(in ssa.Instruction) bool { return isGoOf(in, "(*Serf).handleReconnect") }, func(in ssa.Instruction) bool { return in == ssa.Instruction(r) })
			c.Add(ok, "R1", "Create:starts-reconnect-loop:"+strconv.Itoa(nOK), ret, "every path to this successful return starts the reconnect goroutine", "must-pass")
		}
		c.Floor("R1", "successful returns of Create", nOK, 1)
	}

	// R2
	if hr := sm(c, "R2", "Serf", "handleReconnect"); hr != nil {
		var sels []*ssa.Select
		an.InstrsShallow(hr, func(in ssa.Instruction) {
			if s, ok := in.(*ssa.Select); ok {
				sels = append(sels, s)
			}
		})
		c.Floor("R2", "select in handleReconnect", len(sels), 1)
		calls := an.CallsTo(hr, "(*Serf).reconnect")
		c.Floor("R2", "reconnect calls in handleReconnect", len(calls), 1)
		if len(sels) == 1 {
			sel := sels[0]
			shutIdx, timerIdx := -1, -1
			for i, st := range sel.States {
				if st.Dir != types.RecvOnly {
					continue
				}
				p := an.Path(st.Chan)
				switch {
				case p == "$0.shutdownCh":
					shutIdx = i
				case strings.HasPrefix(p, "time.After(") || strings.HasSuffix(p, ".C"):
					timerIdx = i
				}
			}
			c.Add(sel.Blocking && len(sel.States) == 2 && shutIdx >= 0 && timerIdx >= 0, "R2", "handleReconnect:select-shape", sel, "a blocking select over exactly a timer channel and shutdownCh", "select states")
			isCall := func(in ssa.Instruction) bool { return an.IsCallTo(in, "(*Serf).reconnect") }
			again := an.ReachFrom(hr, sel, &an.Cut{Instrs: isCall}, func(in ssa.Instruction) bool { return in == ssa.Instruction(sel) })
			c.Add(again == nil, "R2", "handleReconnect:every-tick-reconnects", sel, "the loop comes back to the select only after calling reconnect", "reach/cut")
			loops := false
			for _, cl := range calls {
				if an.Reaches(hr, cl, sel) {
					loops = true
				}
			}
			c.Add(loops, "R2", "handleReconnect:loops", sel, "after reconnect the select is reached again", "reachability")
			var idx ssa.Value
			for _, r := range *sel.Referrers() {
				if e, ok := r.(*ssa.Extract); ok && e.Index == 0 {
					idx = e
				}
			}
			rets := an.Returns(hr)
			c.Floor("R2", "returns of handleReconnect", len(rets), 1)
			for i, ret := range rets {
				ok := idx != nil && shutIdx >= 0 && an.GuardedBy(hr, ret, an.Cmp{L: an.Path(idx), Op: "==", R: "c:" + strconv.Itoa(shutIdx)})
				c.Add(ok, "R2", "handleReconnect:returns-only-on-shutdown:"+strconv.Itoa(i), ret, "the loop ends only when shutdownCh is readable", "edge dominance on the select index")
			}
		}
	}

	// R3, R4
	rc := sm(c, "R3", "Serf", "reconnect")
	if rc == nil {
		return
	}
	locks := an.NewLocks(c.P)
	joins := an.CallsTo(rc, "memberlist.(*Memberlist).Join")
	c.Floor("R3", "memberlist.Join in reconnect", len(joins), 1)
	isJoin := func(in ssa.Instruction) bool { return an.IsCallTo(in, "memberlist.(*Memberlist).Join") }
	const nFailed = "len($0.failedMembers)"
	// the throttle edges: rand.Float32() > q
	var cutEdges []an.Edge
	cutEdges = append(cutEdges, an.EdgesImplying(rc, an.Cmp{L: nFailed, Op: "==", R: "c:0"})...)
	nThrottle := 0
	for e, facts := range an.EdgeFacts(rc) {
		for _, f := range facts {
			f2 := f
			if strings.HasPrefix(f2.R, "rand.Float32()") {
				f2 = f2.Swap()
			}
			if f2.L != "rand.Float32()" || f2.Op != ">" {
				continue
			}
			// the right-hand side must be the float quotient failed/alive
			last := e.From.Instrs[len(e.From.Instrs)-1]
			iff, ok := last.(*ssa.If)
			if !ok {
				continue
			}
			q := throttleQuotient(iff.Cond)
			if q == nil {
				c.Add(false, "R3", "reconnect:throttle-probability", last, "the throttle compares rand.Float32() with a quotient (got "+f2.R+")", "")
				continue
			}
			nThrottle++
			b, isFloat := q.Type().Underlying().(*types.Basic)
			c.Add(isFloat && b.Info()&types.IsFloat != 0, "R3", "reconnect:throttle-probability:float-division", q, "failed/alive is divided in floating point (an integer quotient is 0 whenever failed < alive)", "type of the quotient")
			num := an.Path(q.X)
			c.Add(num == nFailed, "R3", "reconnect:throttle-probability:numerator", q, "the numerator is the number of failed members (got "+num+")", "access path")
			den := an.Path(q.Y)
			okDen := false
			alive := "((len($0.members)-len($0.failedMembers))-len($0.leftMembers))"
			if ph, isPhi := an.Strip(q.Y).(*ssa.Phi); isPhi {
				okDen = true
				for i, ev := range ph.Edges {
					p := an.Path(ev)
					if p == alive {
						// this operand must come in on an edge establishing alive != 0
						pred := ph.Block().Preds[i]
						g := false
						for _, e2 := range an.EdgesImplying(rc, an.Cmp{L: alive, Op: "!=", R: "c:0"}) {
							if e2.From == pred && e2.To() == ph.Block() {
								g = true
							}
						}
						okDen = okDen && g
					} else if n, isC := constNumber(ev); !isC || n == 0 {
						okDen = false
					}
				}
			} else if den == alive {
				okDen = an.GuardedBy(rc, q, an.Cmp{L: alive, Op: "!=", R: "c:0"})
			}
			c.Add(okDen, "R3", "reconnect:throttle-probability:divisor", q, "the divisor is members-failed-left where that is non-zero and a non-zero constant otherwise (got "+den+")", "phi operands + edge facts")
			cutEdges = append(cutEdges, e)
		}
	}
	c.Floor("R3", "throttle tests in reconnect", nThrottle, 1)
	for i, ret := range an.Returns(rc) {
		r := ret
		off := an.ReachFrom(rc, nil, &an.Cut{Instrs: isJoin, Edges: cutEdges}, func(in ssa.Instruction) bool { return in == ssa.Instruction(r) })
		c.Add(off == nil, "R3", "reconnect:gives-up-only-when-idle-or-throttled:"+strconv.Itoa(i), ret, "a return without a join attempt is behind len(failedMembers)==0 or the random throttle", "reach/cut over the two give-up edges")
	}

	// R4
	for _, j := range joins {
		c.Add(!locks.Held(j).HasAny("Serf.memberLock"), "R4", "reconnect:join-outside-lock", j, "memberlist.Join (which calls back into handleNodeJoin, a memberLock writer) runs with memberLock released", "must-held lockset")
		args := an.CallOf(j).Args
		if len(args) < 2 {
			c.Add(false, "R4", "reconnect:join-argument", j, "memberlist.Join takes the address list", "")
			continue
		}
		deps := depClosure(rc, args[len(args)-1])
		want := map[string]bool{"Addr": false, "Port": false, "Name": false}
		bad := ""
		for v := range deps {
			typ, field, ok := an.LoadedField(v)
			if !ok || typ != "Member" {
				continue
			}
			if _, w := want[field]; !w {
				continue
			}
			p := an.Path(v)
			if strings.HasPrefix(p, "$0.failedMembers[rand.Int31n("+nFailed+")].") {
				want[field] = true
				in, isIn := v.(ssa.Instruction)
				if isIn && !locks.Held(in).HasAny("Serf.memberLock") {
					bad = "read of " + p + " without memberLock"
				}
			} else {
				bad = "member field from another source: " + p
			}
		}
		for _, f := range []string{"Addr", "Port", "Name"} {
			c.Add(want[f], "R4", "reconnect:joins-failed-member:"+f, j, "the joined address carries "+f+" of a member drawn from failedMembers at rand.Int31n(len(failedMembers))", "operand closure of the join argument")
		}
		c.Add(bad == "", "R4", "reconnect:joins-failed-member:only", j, "every member field in the joined address comes from that one failed member, read under memberLock ("+bad+")", "operand closure + lockset")
	}
}

// throttleQuotient finds the division feeding a comparison with rand.Float32().
func throttleQuotient(cond ssa.Value) *ssa.BinOp {
	b, ok := an.Strip(cond).(*ssa.BinOp)
	if !ok {
		return nil
	}
	for _, side := range []ssa.Value{b.X, b.Y} {
		if q, ok := an.Strip(side).(*ssa.BinOp); ok && q.Op == token.QUO {
			return q
		}
	}
	return nil
}

func constNumber(v ssa.Value) (float64, bool) {
	k, ok := an.Strip(v).(*ssa.Const)
	if !ok || k.Value == nil {
		return 0, false
	}
	if n, ok := an.ConstInt(k); ok {
		return float64(n), true
	}
	return k.Float64(), true
}

// depClosure is the set of values v may be computed from inside fn: operands,
// and for memory cells local to fn (allocs and their fields/elements) every
// value stored into them.
func depClosure(fn *ssa.Function, v ssa.Value) map[ssa.Value]bool {
	root := func(a ssa.Value) ssa.Value {
		for {
			switch x := a.(type) {
			case *ssa.FieldAddr:
				a = x.X
			case *ssa.IndexAddr:
				a = x.X
			case *ssa.Slice:
				a = x.X
			default:
				return a
			}
		}
	}
	stores := map[ssa.Value][]ssa.Value{}
	an.InstrsShallow(fn, func(in ssa.Instruction) {
		if st, ok := in.(*ssa.Store); ok {
			if al, ok := root(st.Addr).(*ssa.Alloc); ok {
				stores[al] = append(stores[al], st.Val)
			}
		}
	})
	seen := map[ssa.Value]bool{}
	var walk func(x ssa.Value)
	walk = func(x ssa.Value) {
		if x == nil || seen[x] {
			return
		}
		seen[x] = true
		if al, ok := root(x).(*ssa.Alloc); ok {
			for _, s := range stores[al] {
				walk(s)
			}
		}
		if in, ok := x.(ssa.Instruction); ok {
			for _, op := range in.Operands(nil) {
				if *op != nil {
					walk(*op)
				}
			}
		}
	}
	walk(v)
	return seen
}
