package rules

import (
	"go/constant"
	"go/types"
	"strings"

	"serfcheck/an"

	"golang.org/x/tools/go/ssa"
)

// cv returns the constant path ("c:N") of a package-level constant.
func cv(c *an.Ctx, pkg, name string) string {
	pk := c.P.ByPkg[pkg]
	if pk != nil {
		if o, ok := pk.Types.Scope().Lookup(name).(*types.Const); ok {
			if o.Val().Kind() == constant.String {
				return "c:" + o.Val().ExactString()
			}
			return "c:" + o.Val().ExactString()
		}
	}
	c.Anchor("const", pkg+"."+name)
	return "c:?" + name
}

// intent handler vocabulary (paths inside handleNode{Leave,Join}Intent)
const (
	ihMember = "$0.members[$1.Node]#0"
	ihKnown  = "$0.members[$1.Node]#1"
	ihLTime  = "$1.LTime"
	ihStatT  = ihMember + ".statusLTime"
	ihStatus = ihMember + ".Member.Status"
)

var ihNewer = an.Cmp{L: ihLTime, Op: ">", R: ihStatT}

func init() {
	register(&Rule{
		ID:      "C02",
		Explain: "Decides the last sentence of C02 for every input and schedule — a member's status time only grows and an intent not newer than the applied one changes nothing — as shape facts of the two intent handlers: every write of memberState.statusLTime module-wide is in an intent handler (or initialises a freshly allocated member), every status/time write and every true result there is edge-dominated by msg.LTime > member.statusLTime, stores msg.LTime, and sits in the memberLock write section; plus the transition table, the intent buffer's strict newer-than test, and the push/pull conversion (+1 for synthetic leaves). Cross-replica agreement is not decided.",
		Run:     runC02,
		Mutants: []Mutant{
			{Name: "sync-skips-left-entry-with-equal-time", File: "serf/delegate.go", Func: "func (d *delegate) MergeRemoteState(", Old: "\t\tleftMap[name] = struct{}{}\n", New: "\t\tleftMap[name] = struct{}{}\n\t\tif pp.StatusLTimes[name] == 0 {\n\t\t\tcontinue\n\t\t}\n", Expect: "R6|MergeRemoteState:applies-every-entry"},
			{Name: "refutation-without-witness", File: "serf/serf.go", Func: "func (s *Serf) handleNodeLeaveIntent(", Old: "\ts.clock.Witness(leaveMsg.LTime)\n", New: "", Expect: "R7"},
			{Name: "rename-locals", Equivalent: true, Regexp: true, File: "serf/serf.go", Func: "func (s *Serf) handleNodeLeaveIntent(", Old: `\b(member|ok|state)\b`, New: "${1}Renamed"},
			{Name: "leave-guard-lt", File: "serf/serf.go", Func: "func (s *Serf) handleNodeLeaveIntent(", Old: "if leaveMsg.LTime <= member.statusLTime {", New: "if leaveMsg.LTime < member.statusLTime {", Expect: "R2"},
			{Name: "join-guard-lt", File: "serf/serf.go", Func: "func (s *Serf) handleNodeJoinIntent(", Old: "if joinMsg.LTime <= member.statusLTime {", New: "if joinMsg.LTime < member.statusLTime {", Expect: "R2"},
			{Name: "join-status-before-guard", File: "serf/serf.go", Func: "func (s *Serf) handleNodeJoinIntent(", Old: "\t// Check if this time is newer than what we have\n", New: "\tif member.Status == StatusLeaving {\n\t\tmember.Status = StatusAlive\n\t}\n", Expect: "R2"},
			{Name: "upsert-ge", File: "serf/serf.go", Func: "func upsertIntent(", Old: "!ok || ltime > intent.LTime", New: "!ok || ltime >= intent.LTime", Expect: "R5"},
			{Name: "pushpull-no-plus-one", File: "serf/delegate.go", Func: "func (d *delegate) MergeRemoteState(", Old: "leave.LTime = pp.StatusLTimes[name] + 1", New: "leave.LTime = pp.StatusLTimes[name]", Expect: "R6"},
			{Name: "failed-to-leaving", File: "serf/serf.go", Func: "func (s *Serf) handleNodeLeaveIntent(", Old: "\t\tmember.Status = StatusLeft\n", New: "\t\tmember.Status = StatusLeaving\n", Expect: "R4"},
			{Name: "third-writer", File: "serf/serf.go", Func: "func (s *Serf) handleNodeUpdate(", Old: "\tmember.Addr = n.Addr\n", New: "\tmember.Addr = n.Addr\n\tmember.statusLTime = s.clock.Time()\n", Expect: "R1"},
			{Name: "store-wrong-time", File: "serf/serf.go", Func: "func (s *Serf) handleNodeJoinIntent(", Old: "member.statusLTime = joinMsg.LTime", New: "member.statusLTime = s.clock.Time()", Expect: "R2"},
			{Name: "join-ignores-buffered-leave", File: "serf/serf.go", Func: "func (s *Serf) handleNodeJoin(", Old: "\t\t\tmember.Status = StatusLeaving\n\t\t\tmember.statusLTime = leave\n", New: "\t\t\tmember.statusLTime = leave\n", Expect: "R5"},
			{Name: "equiv-join-nested-if", File: "serf/serf.go", Func: "func (s *Serf) handleNodeJoinIntent(", Equivalent: true,
				Old: "\tif joinMsg.LTime <= member.statusLTime {\n\t\treturn false\n\t}\n\n\t// Update the LTime\n\tmember.statusLTime = joinMsg.LTime\n\n\t// If we are in the leaving state, we should go back to alive,\n\t// since the leaving message must have been for an older time\n\tif member.Status == StatusLeaving {\n\t\tmember.Status = StatusAlive\n\t}\n\treturn true",
				New: "\tif member.statusLTime < joinMsg.LTime {\n\t\tmember.statusLTime = joinMsg.LTime\n\t\tswitch member.Status {\n\t\tcase StatusLeaving:\n\t\t\tmember.Status = StatusAlive\n\t\t}\n\t\treturn true\n\t}\n\treturn false"},
		},
	})
	register(&Rule{
		ID:      "C03",
		Explain: "Decides C03's structural clauses on all paths of the leave-intent handler: the refutation branch (claim about the local node while alive) is taken before any status/time write or prune; on it a join is broadcast whose time is a clock read dominated by a witness of the claim's time on the same clock (so, with C19's witness post-condition, strictly greater than the claim); the only conditions leading to the refutation are 'member known' and 'claim newer'; broadcastJoin applies and enqueues exactly that join. Not covered: memberlist never changing the local member's status by itself.",
		Run:     runC03,
		Mutants: []Mutant{
			{Name: "witness-gives-up-after-one-try", File: "serf/lamport.go", Func: "func (l *LamportClock) Witness(", Old: "WITNESS:\n", New: "", Old2: "\t\tgoto WITNESS\n", New2: "\t\treturn\n", Expect: "R5"},
			{Name: "no-witness", File: "serf/serf.go", Func: "func (s *Serf) handleNodeLeaveIntent(", Old: "\ts.clock.Witness(leaveMsg.LTime)\n", New: "", Expect: "R2"},
			{Name: "refute-after-mutation", File: "serf/serf.go", Func: "func (s *Serf) handleNodeLeaveIntent(", Old: "\t// Refute us leaving if we are in the alive state\n", New: "\tmember.statusLTime = leaveMsg.LTime\n", Expect: "R1"},
			{Name: "drop-alive-test", File: "serf/serf.go", Func: "func (s *Serf) handleNodeLeaveIntent(", Old: "leaveMsg.Node == s.config.NodeName && state == SerfAlive", New: "leaveMsg.Node == s.config.NodeName && state == SerfAlive && !leaveMsg.Prune", Expect: "R"},
			{Name: "join-with-stale-time", File: "serf/serf.go", Func: "func (s *Serf) handleNodeLeaveIntent(", Old: "go s.broadcastJoin(s.clock.Time())", New: "go s.broadcastJoin(leaveMsg.LTime)", Expect: "R2"},
			{Name: "broadcastjoin-ltime-minus", File: "serf/serf.go", Func: "func (s *Serf) broadcastJoin(", Old: "\t\tLTime: ltime,\n", New: "\t\tLTime: ltime - 1,\n", Expect: "R3"},
			{Name: "broadcastjoin-skip-local", File: "serf/serf.go", Func: "func (s *Serf) broadcastJoin(", Old: "\ts.handleNodeJoinIntent(&msg)\n", New: "", Expect: "R3"},
			{Name: "refute-only-nonprune", File: "serf/serf.go", Func: "func (s *Serf) handleNodeLeaveIntent(", Old: "\t// Refute us leaving if we are in the alive state\n", New: "\tif leaveMsg.Prune && member.Status == StatusAlive {\n\t\ts.handlePrune(member)\n\t\treturn true\n\t}\n", Expect: "R1"},
		},
	})
	register(&Rule{
		ID:      "C04",
		Explain: "Decides C04 structurally: in each of the four handlers whose result feeds the rebroadcast decision, every path returning a possibly-true result passes the handler's 'mark' (status-time store / strictly-newer intent upsert / append to the slot's event list / append of the query id), the message then takes the already-seen path (C02.R2, and the slot-time/duplicate tests here), the retention window is exactly one buffer length so two retained times never share a slot, NotifyMsg enqueues only when a handler returned true, and MergeRemoteState never uses a handler result and reaches QueueBroadcast only through the refutation join. Hence a retained message is rebroadcast at most once.",
		Run:     runC04,
		Mutants: []Mutant{
			{Name: "mark-after-lock-upgrade", File: "serf/serf.go", Func: "func (s *Serf) handleUserEvent(", Old: "\t// Add to recent events\n", New: "\t// Add to recent events\n\ts.eventLock.Unlock()\n\ts.eventLock.Lock()\n", Expect: "R4"},
			{Name: "upsert-tie-replaces", File: "serf/serf.go", Func: "func upsertIntent(", Old: "!ok || ltime > intent.LTime", New: "!ok || ltime > intent.LTime || (ltime == intent.LTime && itype != intent.Type)", Expect: "R1|upsertIntent:strictly-newer"},
			{Name: "leave-mark-only-on-transition", File: "serf/serf.go", Func: "func (s *Serf) handleNodeLeaveIntent(", Old: "\tmember.statusLTime = leaveMsg.LTime\n", New: "\tif member.Status == StatusAlive || member.Status == StatusFailed {\n\t\tmember.statusLTime = leaveMsg.LTime\n\t}\n", Expect: "R1"},
			{Name: "userevent-dup-returns-true", File: "serf/serf.go", Func: "func (s *Serf) handleUserEvent(", Old: "\t\t\tif previous.Equals(&userEvent) {\n\t\t\t\treturn false", New: "\t\t\tif previous.Equals(&userEvent) {\n\t\t\t\treturn true", Expect: "R1"},
			{Name: "merge-enqueues", File: "serf/delegate.go", Func: "func (d *delegate) MergeRemoteState(", Old: "\t\td.serf.handleNodeLeaveIntent(&leave)\n", New: "\t\tif d.serf.handleNodeLeaveIntent(&leave) {\n\t\t\td.serf.broadcast(messageLeaveType, &leave, nil)\n\t\t}\n", Expect: "R3"},
			{Name: "notify-always-rebroadcast", File: "serf/delegate.go", Func: "func (d *delegate) NotifyMsg(", Old: "\t\td.serf.handleQueryResponse(&resp)\n", New: "\t\td.serf.handleQueryResponse(&resp)\n\t\trebroadcast = true\n", Expect: "R2"},
			{Name: "event-window-plus-one", File: "serf/serf.go", Func: "func (s *Serf) handleUserEvent(", Old: "eventMsg.LTime < curTime-LamportTime(len(s.eventBuffer))", New: "eventMsg.LTime+1 < curTime-LamportTime(len(s.eventBuffer))", Expect: "W"},
			{Name: "query-window-via-last", File: "serf/serf.go", Func: "func (s *Serf) handleQuery(", Old: "\tcurTime := s.queryClock.Time()\n", New: "\tcurTime := s.queryClock.Time() - 1\n", Expect: "W"},
			{Name: "query-mark-dropped", File: "serf/serf.go", Func: "func (s *Serf) handleQuery(", Old: "\tseen.QueryIDs = append(seen.QueryIDs, query.ID)\n", New: "\t_ = append(seen.QueryIDs, query.ID)\n", Expect: "R1"},
		},
	})
}

func intentHandlers(c *an.Ctx, rule string) (leave, join *ssa.Function) {
	return sm(c, rule, "Serf", "handleNodeLeaveIntent"), sm(c, rule, "Serf", "handleNodeJoinIntent")
}

func runC02(c *an.Ctx) {
	c.Rule("R1 who-may-write memberState.statusLTime: the two intent handlers, or init stores on a memberState allocated in the same function")
	c.Rule("R2 in each intent handler every statusLTime/Status store, erase/prune call and constant-true result is edge-dominated by msg.LTime > member.statusLTime; the stored time is msg.LTime")
	c.Rule("R3 those writes happen with Serf.memberLock write-held")
	c.Rule("R4 transition table from the comparison chain on the loaded status")
	c.Rule("R5 upsertIntent writes/returns true only when absent or strictly newer; a joining unknown member takes the buffered join time and the buffered leave (status Leaving + time)")
	c.Rule("R6 push/pull: synthetic leave time = StatusLTimes[name]+c, c>=1; synthetic join time = synced status time; both go through the two handlers")
	leave, join := intentHandlers(c, "R1")
	locks := an.NewLocks(c.P)
	// a running member stays alive everywhere only if its refutation of a leave claim wins at the other
	// members: it must carry a time above the claim's (shared with C03.R2 and, through it, C19's Witness)
	c.Rule("R7 (shared with C03/C19) the refuting join is sent with a clock value read after the claim's time was witnessed, and Witness really leaves the clock above that time")
	sub3 := an.NewCtx(c.P, "C03", c.Tier)
	runC03(sub3)
	n7 := 0
	for _, o := range sub3.Obs {
		if o.Rule == "R2" || o.Rule == "R5" {
			o.Key = "R7|C03:" + o.Key
			o.Rule = "R7"
			c.Obs = append(c.Obs, o)
			n7++
		}
	}
	c.Floor("R7", "refutation-time obligations", n7, 3)

	// R1
	acc := an.FieldAccesses(c.P.Funcs, "memberState", "statusLTime")
	c.Floor("R1", "stores to memberState.statusLTime module-wide", len(acc), 4)
	for _, a := range acc {
		fn := an.FuncName(a.Fn)
		ok := a.Fn == leave || a.Fn == join || (a.Init && fn == "(*Serf).handleNodeJoin")
		c.Add(ok, "R1", "statusLTime-writer:"+fn, a.Instr, "store to memberState.statusLTime in "+fn+" (init="+bstr(a.Init)+")", "writer is an intent handler or initialises a fresh member")
	}

	// R2, R3, R4 per handler
	for _, h := range []*ssa.Function{leave, join} {
		if h == nil {
			continue
		}
		hn := an.FuncName(h)
		var targets []ssa.Instruction
		for _, st := range an.StoresTo(h, ".statusLTime") {
			targets = append(targets, st)
			c.Add(an.Path(st.Val) == ihLTime && an.Path(st.Addr) == "&"+ihStatT, "R2", hn+":stored-time", st, "status time is set to the message's Lamport time on the looked-up member (stores "+an.Path(st.Val)+" into "+an.Path(st.Addr)+")", "access-path identity")
		}
		for _, st := range an.StoresTo(h, ".Status") {
			targets = append(targets, st)
			c.Add(an.Path(st.Addr) == "&"+ihStatus, "R2", hn+":status-target", st, "status store targets the looked-up member", "access-path identity")
		}
		targets = append(targets, an.CallsTo(h, "(*Serf).handlePrune", "(*Serf).eraseNode")...)
		for _, r := range an.Returns(h) {
			if v := an.ResultValues(r); len(v) == 1 && an.IsConstBool(v[0], true) {
				targets = append(targets, r)
			}
		}
		c.Floor("R2", "guarded effects in "+hn, len(targets), 3)
		for _, t := range targets {
			c.Add(an.GuardedBy(h, t, ihNewer), "R2", hn+":newer-guard:"+kindOf(t), t, kindOf(t)+" must be dominated by "+ihNewer.String(), "edge dominance (false edge of <= or true edge of >)")
			if _, isRet := t.(*ssa.Return); !isRet {
				c.Add(locks.Held(t).HasW("Serf.memberLock"), "R3", hn+":locked:"+kindOf(t), t, kindOf(t)+" executes with Serf.memberLock write-held", "must-held lockset")
			}
		}
		// non-const results: only upsertIntent's result, on the unknown-member edge
		for _, r := range an.Returns(h) {
			v := an.ResultValues(r)
			if len(v) != 1 {
				continue
			}
			if _, isC := v[0].(*ssa.Const); isC {
				continue
			}
			p := an.Path(v[0])
			ok := strings.HasPrefix(p, "upsertIntent($0.recentIntents,$1.Node,") && strings.Contains(p, ","+ihLTime+",") &&
				an.GuardedBy(h, r, an.Cmp{L: ihKnown, Op: "==", R: "c:false"})
			c.Add(ok, "R2", hn+":unknown-member-result", r, "non-constant result is upsertIntent(recentIntents, msg.Node, ·, msg.LTime, ·) on the unknown-member edge (got "+p+")", "path + edge dominance")
		}
	}

	// R4 transition tables
	alive, leaving, left, failed := cv(c, serf, "StatusAlive"), cv(c, serf, "StatusLeaving"), cv(c, serf, "StatusLeft"), cv(c, serf, "StatusFailed")
	table := func(h *ssa.Function, want map[string]string) {
		if h == nil {
			return
		}
		hn := an.FuncName(h)
		seen := map[string]bool{}
		for _, st := range an.StoresTo(h, ".Status") {
			k := an.Path(st.Val)
			from, ok := want[k]
			if !ok {
				c.Add(false, "R4", hn+":transition-to:"+k, st, "status store of "+k+" is not in the transition table", "")
				continue
			}
			seen[k] = true
			c.Add(an.GuardedBy(h, st, an.Cmp{L: ihStatus, Op: "==", R: from}), "R4", hn+":transition:"+from+"->"+k, st, "status "+k+" is stored only when the old status is "+from, "edge dominance on the status comparison chain")
		}
		for k, from := range want {
			c.Add(seen[k], "R4", hn+":transition-present:"+from+"->"+k, h, "transition "+from+" -> "+k+" exists", "store enumeration")
		}
	}
	table(leave, map[string]string{leaving: alive, left: failed})
	table(join, map[string]string{alive: leaving})
	if leave != nil {
		// result true only for old status in {Alive, Failed, Leaving, Left}
		var edges []an.Edge
		for _, s := range []string{alive, failed, leaving, left} {
			edges = append(edges, an.EdgesImplying(leave, an.Cmp{L: ihStatus, Op: "==", R: s})...)
		}
		for _, r := range an.Returns(leave) {
			if v := an.ResultValues(r); len(v) == 1 && an.IsConstBool(v[0], true) {
				c.Add(an.Guarded(leave, r, edges), "R4", "(*Serf).handleNodeLeaveIntent:true-only-for-known-status", r, "leave intent reports a change only for status Alive/Failed/Leaving/Left", "edge dominance over the union of the four comparison edges")
			}
		}
	}

	// R5 intent buffer
	upsertRule(c, "R5")
	if hj := sm(c, "R5", "Serf", "handleNodeJoin"); hj != nil {
		jt, lt := cv(c, serf, "messageJoinType"), cv(c, serf, "messageLeaveType")
		ri := func(t string) string { return "recentIntent($0.recentIntents,$1.Name," + t + ")" }
		gotJoin, gotLeaveT, gotLeaveS := false, false, false
		for _, st := range an.StoresTo(hj, ".statusLTime") {
			switch an.Path(st.Val) {
			case ri(jt) + "#0":
				gotJoin = an.GuardedBy(hj, st, an.Cmp{L: ri(jt) + "#1", Op: "==", R: "c:true"})
			case ri(lt) + "#0":
				gotLeaveT = an.GuardedBy(hj, st, an.Cmp{L: ri(lt) + "#1", Op: "==", R: "c:true"})
				// the buffered leave must win: its store is reachable after the join store
			}
		}
		for _, st := range an.StoresTo(hj, ".Status") {
			if an.Path(st.Val) == leaving && an.GuardedBy(hj, st, an.Cmp{L: ri(lt) + "#1", Op: "==", R: "c:true"}) {
				gotLeaveS = true
			}
		}
		c.Add(gotJoin, "R5", "handleNodeJoin:buffered-join-time", hj, "a new member takes the buffered join intent's time when one is present", "store + guard")
		c.Add(gotLeaveT && gotLeaveS, "R5", "handleNodeJoin:buffered-leave", hj, "a new member takes a buffered leave intent: status Leaving and its time", "stores + guard")
	}

	// R6 push/pull conversion
	if mr := sm(c, "R6", "delegate", "MergeRemoteState"); mr != nil {
		okLeave, okJoin := false, false
		for _, st := range an.StoresTo(mr, ".LTime") {
			t, _, _ := an.FieldOf(st.Addr)
			switch t {
			case "messageLeave":
				if b, ok := st.Val.(*ssa.BinOp); ok && b.Op.String() == "+" {
					n, isC := an.ConstInt(b.Y)
					x := an.Path(b.X)
					okLeave = isC && n >= 1 && strings.Contains(x, ".StatusLTimes[")
				}
				c.Add(okLeave, "R6", "MergeRemoteState:synthetic-leave-time", st, "synthetic leave time is StatusLTimes[name]+c with c >= 1 (got "+an.Path(st.Val)+")", "value shape")
			case "messageJoin":
				p := an.Path(st.Val)
				okJoin = strings.HasPrefix(p, "next(range(") && strings.Contains(p, ".StatusLTimes))#2")
				c.Add(okJoin, "R6", "MergeRemoteState:synthetic-join-time", st, "synthetic join time is the synced status time (got "+p+")", "value shape")
			}
		}
		c.Add(okLeave && okJoin, "R6", "MergeRemoteState:both-conversions", mr, "both push/pull conversions present", "store enumeration")
		nl := len(an.CallsTo(mr, "(*Serf).handleNodeLeaveIntent"))
		nj := len(an.CallsTo(mr, "(*Serf).handleNodeJoinIntent"))
		c.Add(nl >= 1 && nj >= 1, "R6", "MergeRemoteState:through-handlers", mr, "synced state is applied through the two intent handlers", "call enumeration")
		// every synced entry is handed on: nothing but the loops over the received tables decides whether an
		// entry reaches its handler (whether it is news is the handler's decision, made on the member's state)
		// what holds before the loops start (message type, decode ok, …) is not a condition on an entry
		outer := map[string]bool{}
		first := true
		an.Instrs(mr, func(in ssa.Instruction) {
			if _, isRange := in.(*ssa.Range); !isRange {
				if _, isLen := in.(*ssa.Call); !isLen || !strings.HasPrefix(an.Path(in.(*ssa.Call)), "make:map") {
					return
				}
			}
			if !first {
				return
			}
			first = false
			for _, f := range necessaryFacts(mr, in) {
				outer[f.String()] = true
			}
		})
		for _, call := range an.CallsTo(mr, "(*Serf).handleNodeLeaveIntent", "(*Serf).handleNodeJoinIntent") {
			extra := ""
			for _, f := range necessaryFacts(mr, call) {
				if outer[f.String()] {
					continue
				}
				if (strings.HasPrefix(f.L, "next(range(") && strings.HasSuffix(f.L, "#0")) || strings.HasPrefix(f.L, "(phi:rangeindex@") || strings.HasPrefix(f.L, "phi:rangeindex@") ||
					(strings.HasPrefix(f.L, "phi@") && f.Op == "<" && strings.HasPrefix(f.R, "len(")) {
					continue // loop conditions
				}
				if an.IsCallTo(call, "(*Serf).handleNodeJoinIntent") && strings.HasPrefix(f.L, "make:map") && strings.HasSuffix(f.L, "#1") && f.Op == "==" && f.R == "c:false" {
					continue // the join loop skips the names listed as left (they got the leave instead)
				}
				extra += f.String() + "; "
			}
			c.Add(extra == "", "R6", "MergeRemoteState:applies-every-entry:"+kindOf(call), call, "every entry of the synced tables reaches its intent handler (other conditions: "+extra+")", "necessary-edge enumeration")
		}
	}
}

func bstr(b bool) string {
	if b {
		return "true"
	}
	return "false"
}

func kindOf(in ssa.Instruction) string {
	switch x := in.(type) {
	case *ssa.Store:
		p := an.Path(x.Addr)
		if i := strings.LastIndex(p, "."); i >= 0 {
			return "store" + p[i:]
		}
		return "store"
	case *ssa.Return:
		return "return-true"
	case *ssa.MapUpdate:
		return "mapupdate"
	case *ssa.Send:
		return "send"
	case *ssa.Go:
		if f := an.StaticCallee(&x.Call); f != nil {
			return "go:" + an.CalleeName(f)
		}
	case *ssa.Call:
		if f := an.StaticCallee(&x.Call); f != nil {
			return "call:" + an.CalleeName(f)
		}
		return "call"
	}
	return "instr"
}

// ---------------------------------------------------------------------------

func runC03(c *an.Ctx) {
	c.Rule("R1 in the leave-intent handler every status/time store and prune/erase call is unreachable once the edges establishing msg.Node != self and state != alive are cut (refutation comes first)")
	c.Rule("R2 refutation: go broadcastJoin(clock.Time()) dominated by clock.Witness(msg.LTime) on the same clock; result false")
	c.Rule("R3 broadcastJoin builds messageJoin{LTime: arg, Node: self}, applies it locally and enqueues it (must-pass both)")
	c.Rule("R4 the necessary conditions of the refutation are exactly: member known, claim newer, about self, state alive")
	// the refutation is only "strictly newer" if witnessing the claim's time really lifts the clock above it
	c.Rule("R5 (shared with C19) Witness returns only when the clock exceeds the witnessed value (a failed compare-and-swap is retried from a fresh load)")
	sub19 := an.NewCtx(c.P, "C19", c.Tier)
	runC19(sub19)
	n5 := 0
	for _, o := range sub19.Obs {
		if o.Rule == "R2" {
			o.Key = "R5|C19:" + o.Key
			o.Rule = "R5"
			c.Obs = append(c.Obs, o)
			n5++
		}
	}
	c.Floor("R5", "Witness obligations", n5, 3)
	leave, _ := intentHandlers(c, "R1")
	if leave == nil {
		return
	}
	hn := an.FuncName(leave)
	aliveState := cv(c, serf, "SerfAlive")
	notSelf := an.Cmp{L: "$1.Node", Op: "!=", R: "$0.config.NodeName"}
	notAlive := an.Cmp{L: "(*Serf).State($0)", Op: "!=", R: aliveState}
	edges := append(an.EdgesImplying(leave, notSelf), an.EdgesImplying(leave, notAlive)...)
	var targets []ssa.Instruction
	for _, st := range an.StoresTo(leave, ".statusLTime") {
		targets = append(targets, st)
	}
	for _, st := range an.StoresTo(leave, ".Status") {
		targets = append(targets, st)
	}
	targets = append(targets, an.CallsTo(leave, "(*Serf).handlePrune", "(*Serf).eraseNode", "removeOldMember")...)
	for _, in := range an.FindInstrs(leave, func(in ssa.Instruction) bool { _, ok := in.(*ssa.Send); return ok }) {
		targets = append(targets, in)
	}
	c.Floor("R1", "mutations in the leave-intent handler", len(targets), 6)
	for _, t := range targets {
		c.Add(an.Guarded(leave, t, edges), "R1", hn+":refute-first:"+kindOf(t), t, kindOf(t)+" happens only when the claim is not about the running local node (node != self or state != alive)", "edge dominance over the two negated atoms")
	}
	// the state must be read before the member lock is taken and in this call
	st := an.CallsTo(leave, "(*Serf).State")
	c.Add(len(st) == 1, "R1", hn+":state-read", leave, "the lifecycle state is read in the same call", "call enumeration")

	// R2
	gos := an.FindInstrs(leave, func(in ssa.Instruction) bool {
		g, ok := in.(*ssa.Go)
		if !ok {
			return false
		}
		f := an.StaticCallee(&g.Call)
		return f != nil && an.CalleeName(f) == "(*Serf).broadcastJoin"
	})
	c.Floor("R2", "refutation sites (go broadcastJoin)", len(gos), 1)
	wit := an.CallsTo(leave, "(*LamportClock).Witness")
	for _, g := range gos {
		arg := an.Path(an.CallOf(g).Args[1])
		c.Add(arg == "(*LamportClock).Time(&$0.clock)", "R2", hn+":refute-time", g, "the refuting join carries a fresh read of the member clock (got "+arg+")", "access path")
		dom := false
		for _, w := range wit {
			wc := an.CallOf(w)
			if an.Path(wc.Args[0]) == "&$0.clock" && an.Path(wc.Args[1]) == ihLTime {
				// the Time() call itself must come after the witness
				for _, tcall := range an.CallsTo(leave, "(*LamportClock).Time") {
					if an.Reaches(leave, tcall, g) || tcall.Block() == g.Block() {
						if an.Dominates(w, tcall) {
							dom = true
						}
					}
				}
			}
		}
		c.Add(dom, "R2", hn+":witness-before-read", g, "clock.Witness(msg.LTime) dominates the clock read used for the refuting join", "dominance")
		// result false on the refutation branch
		bad := an.ReachFrom(leave, g, nil, func(in ssa.Instruction) bool {
			r, ok := in.(*ssa.Return)
			if !ok || r.Block().Comment == "recover" {
				return false
			}
			v := an.ResultValues(r)
			return len(v) != 1 || !an.IsConstBool(v[0], false)
		})
		c.Add(bad == nil, "R2", hn+":refute-result-false", g, "the refuted claim is not rebroadcast (result false on every path after the refutation)", "reachability")
		// no mutation after the refutation either
		mut := an.ReachFrom(leave, g, nil, func(in ssa.Instruction) bool {
			for _, t := range targets {
				if t == in {
					return true
				}
			}
			return false
		})
		c.Add(mut == nil, "R2", hn+":no-mutation-after-refute", g, "no status mutation is reachable after the refutation", "reachability")
		// R4 necessary conditions
		allowed := []an.Cmp{{L: ihKnown, Op: "==", R: "c:true"}, ihNewer, {L: "$1.Node", Op: "==", R: "$0.config.NodeName"}, {L: "(*Serf).State($0)", Op: "==", R: aliveState}}
		got := necessaryFacts(leave, g)
		for _, f := range got {
			ok := false
			for _, a := range allowed {
				if f.Implies(a) || a.Implies(f) {
					ok = true
				}
			}
			c.Add(ok, "R4", hn+":refute-condition:"+f.String(), g, "condition on the way to the refutation: "+f.String(), "necessary-edge enumeration; allowed set = {known, newer, self, alive}")
		}
		need := 0
		for _, a := range allowed {
			for _, f := range got {
				if f.Implies(a) {
					need++
					break
				}
			}
		}
		c.Add(need == len(allowed), "R4", hn+":refute-conditions-complete", g, "the refutation requires known ∧ newer ∧ self ∧ alive", "necessary-edge enumeration")
	}

	// R3
	if bj := sm(c, "R3", "Serf", "broadcastJoin"); bj != nil {
		okL, okN := false, false
		for _, s := range an.StoresTo(bj, ".LTime") {
			if t, _, _ := an.FieldOf(s.Addr); t == "messageJoin" {
				okL = an.Path(s.Val) == "$1"
			}
		}
		for _, s := range an.StoresTo(bj, ".Node") {
			if t, _, _ := an.FieldOf(s.Addr); t == "messageJoin" {
				okN = an.Path(s.Val) == "$0.config.NodeName"
			}
		}
		c.Add(okL, "R3", "broadcastJoin:ltime", bj, "the join message carries exactly the supplied Lamport time", "field provenance")
		c.Add(okN, "R3", "broadcastJoin:node", bj, "the join message names the local node", "field provenance")
		jt := cv(c, serf, "messageJoinType")
		isLocal := func(in ssa.Instruction) bool { return an.IsCallTo(in, "(*Serf).handleNodeJoinIntent") }
		isBcast := func(in ssa.Instruction) bool {
			if !an.IsCallTo(in, "(*Serf).broadcast") {
				return false
			}
			a := an.CallOf(in).Args
			return an.Path(a[1]) == jt
		}
		ok1, _ := an.MustPass(bj, nil, isLocal)
		ok2, _ := an.MustPass(bj, nil, isBcast)
		c.Add(ok1, "R3", "broadcastJoin:applies-locally", bj, "every path applies the join locally", "must-pass")
		c.Add(ok2, "R3", "broadcastJoin:enqueues", bj, "every path enqueues the join as messageJoinType", "must-pass")
		var msgArgs []string
		for _, in := range an.FindInstrs(bj, func(in ssa.Instruction) bool { return isLocal(in) || isBcast(in) }) {
			a := an.CallOf(in).Args
			if isLocal(in) {
				msgArgs = append(msgArgs, an.Path(a[1]))
			} else {
				msgArgs = append(msgArgs, an.Path(a[2]))
			}
		}
		same := len(msgArgs) >= 2
		for _, m := range msgArgs {
			if m != msgArgs[0] {
				same = false
			}
		}
		c.Add(same, "R3", "broadcastJoin:same-message", bj, "the message applied locally is the message enqueued", "access path")
	}
	if b := sm(c, "R3", "Serf", "broadcast"); b != nil {
		ok, _ := an.MustPassTo(b, nil, func(in ssa.Instruction) bool {
			return an.IsCallTo(in, "memberlist.(*TransmitLimitedQueue).QueueBroadcast")
		}, func(in ssa.Instruction) bool {
			r, isR := in.(*ssa.Return)
			if !isR {
				return false
			}
			v := an.ResultValues(r)
			return len(v) == 1 && an.IsNilConst(v[0])
		})
		c.Add(ok, "R3", "broadcast:enqueues-or-errors", b, "broadcast returns nil only after QueueBroadcast", "must-pass to the nil return")
	}
}

// necessaryFacts returns the facts of all conditional edges that every path
// from entry to target must cross.
func necessaryFacts(fn *ssa.Function, target ssa.Instruction) []an.Cmp {
	var out []an.Cmp
	for e, facts := range an.EdgeFacts(fn) {
		if an.Guarded(fn, target, []an.Edge{e}) {
			out = append(out, facts...)
		}
	}
	return out
}

// ---------------------------------------------------------------------------

// windowRule checks the retention-window test of a user-event/query handler:
// the only guards between entry and the slot computation are the cut-off test
// and "too old" := cur > len(buf) && LTime < cur - len(buf), with cur a read
// of the handler's clock and len(buf) the same buffer whose length is the slot
// modulus. It returns the path of the slot expression.
func windowRule(c *an.Ctx, rule string, h *ssa.Function, clock, buf, minTime string) {
	hn := an.FuncName(h)
	cur := "(*LamportClock).Time(&$0." + clock + ")"
	blen := "len($0." + buf + ")"
	slot := "$0." + buf + "[(" + ihLTime + "%" + blen + ")]"
	// slot index = LTime % len(buf)
	idx := an.FindInstrs(h, func(in ssa.Instruction) bool {
		ia, ok := in.(*ssa.IndexAddr)
		return ok && an.Path(ia.X) == "$0."+buf
	})
	c.Floor(rule, "slot accesses in "+hn, len(idx), 1)
	for _, in := range idx {
		p := an.Path(in.(ssa.Value))
		c.Add(p == "&"+slot, rule, hn+":W:slot-modulus", in, "slot index is LTime mod len("+buf+") (got "+p+")", "access path")
	}
	// accepted ⇒ cur <= len ∨ LTime >= cur-len : the slot access is guarded by the union
	inWin := an.Cmp{L: ihLTime, Op: ">=", R: "(" + cur + "-" + blen + ")"}
	small := an.Cmp{L: cur, Op: "<=", R: blen}
	edges := append(an.EdgesImplying(h, inWin), an.EdgesImplying(h, small)...)
	for _, in := range idx {
		c.Add(an.Guarded(h, in, edges), rule, hn+":W:window-lower-bound", in, "a message is accepted only if LTime >= clock-len("+buf+") (or the clock has not yet exceeded the buffer length): window length equals the slot modulus", "edge dominance over {in-window, small-clock}")
	}
	// completeness: every conditional edge that leaves without reaching the slot
	// is one of: below cut-off, too old (exact form), nothing else
	allowedOut := []an.Cmp{{L: ihLTime, Op: "<", R: "$0." + minTime}, {L: ihLTime, Op: "<", R: "(" + cur + "-" + blen + ")"}, {L: cur, Op: ">", R: blen}}
	first := idx
	if len(idx) > 1 {
		first = idx[:1]
		for _, o := range idx[1:] {
			if !an.Dominates(idx[0], o) {
				c.Add(false, rule, hn+":W:first-slot-access-dominates", o, "the first slot access dominates the others", "")
			}
		}
	}
	for _, f := range necessaryFactsOfAvoiding(h, first) {
		ok := false
		for _, a := range allowedOut {
			if f.Implies(a) && a.Implies(f) {
				ok = true
			}
		}
		c.Add(ok, rule, hn+":W:drop-condition:"+f.String(), h, "condition under which a message is dropped before the duplicate check: "+f.String(), "drop edges ⊆ {below cut-off, cur > len, LTime < cur-len}")
	}
	// witness dominates the clock read
	wit := an.CallsTo(h, "(*LamportClock).Witness")
	okW := false
	for _, w := range wit {
		a := an.CallOf(w).Args
		if an.Path(a[0]) == "&$0."+clock && an.Path(a[1]) == ihLTime {
			okW = true
			for _, t := range an.CallsTo(h, "(*LamportClock).Time") {
				if !an.Dominates(w, t) {
					okW = false
				}
			}
		}
	}
	c.Add(okW, rule, hn+":W:witness-first", h, "the message time is witnessed on "+clock+" before the window test reads the clock (so LTime <= clock-1)", "dominance")
}

// necessaryFactsOfAvoiding lists the facts of edges from which none of the
// targets is reachable although the edge's source block can reach one (i.e.
// the edges on which a message leaves the acceptance path), restricted to
// edges that lie before the first target.
func necessaryFactsOfAvoiding(fn *ssa.Function, targets []ssa.Instruction) []an.Cmp {
	isT := func(in ssa.Instruction) bool {
		for _, t := range targets {
			if t == in {
				return true
			}
		}
		return false
	}
	canReach := func(b *ssa.BasicBlock) bool {
		if len(b.Instrs) == 0 {
			return false
		}
		if isT(b.Instrs[0]) {
			return true
		}
		return an.ReachFrom(fn, b.Instrs[0], nil, isT) != nil
	}
	var out []an.Cmp
	for e, facts := range an.EdgeFacts(fn) {
		// source must be able to reach a target via the other edge, this edge must not
		if !canReach(e.To()) {
			other := e.From.Succs[1-e.Succ]
			if canReach(other) {
				// and the source must itself be before any target (not after)
				before := true
				for _, in := range e.From.Instrs {
					if isT(in) {
						before = false
					}
				}
				if before {
					out = append(out, facts...)
				}
			}
		}
	}
	return out
}

func runC04(c *an.Ctx) {
	c.Rule("R1 every possibly-true result of a rebroadcast-deciding handler passes the handler's mark (statusLTime store; intent upsert; append to slot.Events; append to slot.QueryIDs)")
	c.Rule("R2 NotifyMsg enqueues only when the rebroadcast flag is true; its only definitions are false and the four handler results")
	c.Rule("R3 MergeRemoteState ignores handler results and reaches QueueBroadcast only through broadcastJoin")
	c.Rule("W  retention window: accepted LTimes lie in [clock-len(buf), clock-1] and the slot is LTime mod len(buf), so a retained message's mark is not overwritten by another retained message")
	leave, join := intentHandlers(c, "R1")
	ue := sm(c, "R1", "Serf", "handleUserEvent")
	q := sm(c, "R1", "Serf", "handleQuery")
	// a mark only stops the second rebroadcast if "not seen yet" was decided in the critical section that
	// writes it: two deliveries that both pass the test before either marks are both rebroadcast (shared
	// with C05.R3 / C08.R3)
	c.Rule("R4 (shared with C05/C08) the duplicate search and the mark happen in one write section of the handler's lock")
	n4 := 0
	for _, sh := range []struct {
		id  string
		run func(*an.Ctx)
	}{{"C05", runC05}, {"C08", runC08}} {
		sub := an.NewCtx(c.P, sh.id, c.Tier)
		sh.run(sub)
		for _, o := range sub.Obs {
			if o.Rule == "R3" && strings.Contains(o.Key, ":mark:") {
				o.Key = "R4|" + sh.id + ":" + o.Key
				o.Rule = "R4"
				c.Obs = append(c.Obs, o)
				n4++
			}
		}
	}
	c.Floor("R4", "mark-section obligations of the two message handlers", n4, 4)

	mark := func(h *ssa.Function, isMark func(ssa.Instruction) bool, what string) {
		if h == nil {
			return
		}
		hn := an.FuncName(h)
		n := 0
		for _, r := range an.Returns(h) {
			v := an.ResultValues(r)
			if len(v) != 1 || an.IsConstBool(v[0], false) {
				continue
			}
			if strings.HasPrefix(an.Path(v[0]), "upsertIntent(") {
				continue // marked inside upsertIntent (checked below)
			}
			n++
			reach := an.ReachFrom(h, nil, &an.Cut{Instrs: isMark}, func(in ssa.Instruction) bool { return in == ssa.Instruction(r) })
			c.Add(reach == nil, "R1", hn+":mark-before-true", r, "a possibly-true result is returned only after "+what, "must-pass (cut the mark, the return becomes unreachable)")
		}
		c.Floor("R1", "possibly-true results in "+hn, n, 1)
	}
	isStatT := func(in ssa.Instruction) bool {
		s, ok := in.(*ssa.Store)
		return ok && an.Path(s.Addr) == "&"+ihStatT && an.Path(s.Val) == ihLTime
	}
	mark(leave, isStatT, "member.statusLTime = msg.LTime")
	mark(join, isStatT, "member.statusLTime = msg.LTime")
	isAppendTo := func(field, elem string) func(ssa.Instruction) bool {
		return func(in ssa.Instruction) bool {
			s, ok := in.(*ssa.Store)
			if !ok || !strings.HasSuffix(an.Path(s.Addr), "."+field) {
				return false
			}
			call, ok := s.Val.(*ssa.Call)
			if !ok {
				return false
			}
			if b, ok := call.Call.Value.(*ssa.Builtin); !ok || b.Name() != "append" {
				return false
			}
			// appended to the same field, and the element comes from the message
			base := strings.TrimPrefix(an.Path(s.Addr), "&")
			if an.Path(call.Call.Args[0]) != base {
				return false
			}
			return appendedElemMentions(call, elem)
		}
	}
	mark(ue, isAppendTo("Events", "$1.Name"), "appending the event to the slot's Events")
	mark(q, isAppendTo("QueryIDs", "$1.ID"), "appending the query id to the slot's QueryIDs")
	upsertRule(c, "R1")
	if up := sf(c, "R1", "upsertIntent"); up != nil {
		for _, r := range an.Returns(up) {
			if v := an.ResultValues(r); len(v) == 1 && !an.IsConstBool(v[0], false) {
				reach := an.ReachFrom(up, nil, &an.Cut{Instrs: func(in ssa.Instruction) bool { _, ok := in.(*ssa.MapUpdate); return ok }}, func(in ssa.Instruction) bool { return in == ssa.Instruction(r) })
				c.Add(reach == nil, "R1", "upsertIntent:mark-before-true", r, "upsertIntent returns true only after storing the intent", "must-pass")
			}
		}
	}
	// already-seen paths: duplicate found ⇒ false, and the slot's mark survives
	if ue != nil {
		dupRule(c, ue, "eventBuffer", "Events")
		windowRule(c, "W", ue, "eventClock", "eventBuffer", "eventMinTime")
	}
	if q != nil {
		dupRule(c, q, "queryBuffer", "QueryIDs")
		windowRule(c, "W", q, "queryClock", "queryBuffer", "queryMinTime")
	}

	// R2
	if nm := sm(c, "R2", "delegate", "NotifyMsg"); nm != nil {
		enq := an.CallsTo(nm, "memberlist.(*TransmitLimitedQueue).QueueBroadcast")
		c.Floor("R2", "enqueue sites in NotifyMsg", len(enq), 1)
		for _, e := range enq {
			// find the guarding phi
			var guard *ssa.Phi
			for ed, facts := range an.EdgeFacts(nm) {
				for _, f := range facts {
					if strings.HasPrefix(f.L, "phi@") && f.Op == "==" && f.R == "c:true" && an.Guarded(nm, e, []an.Edge{ed}) {
						if i, ok := ed.From.Instrs[len(ed.From.Instrs)-1].(*ssa.If); ok {
							guard, _ = i.Cond.(*ssa.Phi)
						}
					}
				}
			}
			c.Add(guard != nil, "R2", "NotifyMsg:enqueue-guarded", e, "the rebroadcast enqueue is guarded by the rebroadcast flag being true", "edge dominance")
			if guard != nil {
				handlers := map[string]bool{"(*Serf).handleNodeLeaveIntent": true, "(*Serf).handleNodeJoinIntent": true, "(*Serf).handleUserEvent": true, "(*Serf).handleQuery": true}
				nres := 0
				for _, ev := range guard.Edges {
					ok := an.IsConstBool(ev, false)
					if call, isCall := ev.(*ssa.Call); isCall {
						if f := an.StaticCallee(&call.Call); f != nil && handlers[an.CalleeName(f)] {
							ok = true
							nres++
						}
					}
					c.Add(ok, "R2", "NotifyMsg:flag-definition", guard, "rebroadcast flag definition "+an.Path(ev)+" is false or a handler result", "phi operand enumeration")
				}
				c.Floor("R2", "handler results feeding the flag", nres, 4)
			}
		}
	}

	// R3
	if mr := sm(c, "R3", "delegate", "MergeRemoteState"); mr != nil {
		for _, call := range an.CallsTo(mr, "(*Serf).handleNodeLeaveIntent", "(*Serf).handleNodeJoinIntent", "(*Serf).handleUserEvent", "(*Serf).handleQuery") {
			v := call.(*ssa.Call)
			used := 0
			if refs := v.Referrers(); refs != nil {
				for _, r := range *refs {
					if _, dbg := r.(*ssa.DebugRef); !dbg {
						used++
					}
				}
			}
			c.Add(used == 0, "R3", "MergeRemoteState:result-unused:"+an.CalleeName(an.StaticCallee(&v.Call)), call, "the handler's rebroadcast result is not used by the merge", "referrer enumeration")
		}
		cg := an.NewCG(c.P)
		bj := c.P.Method(serf, "Serf", "broadcastJoin")
		reach := cg.Reachable([]*ssa.Function{mr}, func(f *ssa.Function) bool { return f == bj })
		bad := ""
		nEnq := 0
		for f := range reach {
			if !an.InModule(f) {
				continue
			}
			for _, e := range an.CallsTo(f, "memberlist.(*TransmitLimitedQueue).QueueBroadcast") {
				_ = e
				nEnq++
				bad += an.FuncName(f) + " "
			}
		}
		c.Exemption("(*Serf).broadcastJoin", "the refutation originates a new join rather than re-broadcasting merged state (C03)")
		c.Add(nEnq == 0, "R3", "MergeRemoteState:no-enqueue-reachable", mr, "no QueueBroadcast is reachable from MergeRemoteState except through broadcastJoin (reachable enqueuers: "+bad+"; call graph "+cg.Kind+")", "call-graph reachability with broadcastJoin cut")
		// module-wide enqueue floor
		tot := 0
		for _, f := range c.P.FuncsIn(serf) {
			tot += len(an.CallsTo(f, "memberlist.(*TransmitLimitedQueue).QueueBroadcast"))
		}
		c.Floor("R3", "QueueBroadcast sites in package serf", tot, 4)
	}
}

func appendedElemMentions(call *ssa.Call, elem string) bool {
	// append(xs, vararg...) where vararg is a slice of a local array whose
	// element store mentions elem, or a direct value
	if len(call.Call.Args) < 2 {
		return false
	}
	sl, ok := call.Call.Args[1].(*ssa.Slice)
	if !ok {
		return strings.Contains(an.Path(call.Call.Args[1]), elem)
	}
	al, ok := sl.X.(*ssa.Alloc)
	if !ok {
		return false
	}
	found := false
	for _, r := range *al.Referrers() {
		ia, ok := r.(*ssa.IndexAddr)
		if !ok {
			continue
		}
		for _, rr := range *ia.Referrers() {
			if st, ok := rr.(*ssa.Store); ok {
				p := an.Path(st.Val)
				if strings.Contains(p, elem) {
					found = true
				}
				// value may be a struct local assembled from the message
				if u, ok := st.Val.(*ssa.UnOp); ok {
					if a2, ok := u.X.(*ssa.Alloc); ok {
						for _, r2 := range *a2.Referrers() {
							if s2, ok := r2.(*ssa.Store); ok && s2.Addr == ssa.Value(a2) {
								if u2, ok := s2.Val.(*ssa.UnOp); ok {
									if a3, ok := u2.X.(*ssa.Alloc); ok {
										for _, r3 := range *a3.Referrers() {
											if fa, ok := r3.(*ssa.FieldAddr); ok {
												for _, r4 := range *fa.Referrers() {
													if s4, ok := r4.(*ssa.Store); ok && strings.Contains(an.Path(s4.Val), elem) {
														found = true
													}
												}
											}
										}
									}
								}
							}
							if fa, ok := r2.(*ssa.FieldAddr); ok {
								for _, r4 := range *fa.Referrers() {
									if s4, ok := r4.(*ssa.Store); ok && strings.Contains(an.Path(s4.Val), elem) {
										found = true
									}
								}
							}
						}
					}
				}
			}
		}
	}
	return found
}

// dupRule: in a user-event/query handler the slot is reused (and its list
// kept) exactly when slot != nil && slot.LTime == msg.LTime; a duplicate found
// there returns false; otherwise a fresh slot record with the message's time
// is installed at the same index.
func dupRule(c *an.Ctx, h *ssa.Function, buf, list string) {
	hn := an.FuncName(h)
	slot := "$0." + buf + "[(" + ihLTime + "%len($0." + buf + "))]"
	sameT := an.Cmp{L: slot + ".LTime", Op: "==", R: ihLTime}
	nonNil := an.Cmp{L: slot, Op: "!=", R: "c:nil"}
	// element store that replaces the slot
	var repl []ssa.Instruction
	for _, in := range an.FindInstrs(h, func(in ssa.Instruction) bool {
		s, ok := in.(*ssa.Store)
		return ok && an.Path(s.Addr) == "&"+slot
	}) {
		repl = append(repl, in)
	}
	c.Floor("R1", "slot replacement stores in "+hn, len(repl), 1)
	diffT := append(an.EdgesImplying(h, an.Cmp{L: slot + ".LTime", Op: "!=", R: ihLTime}), an.EdgesImplying(h, an.Cmp{L: slot, Op: "==", R: "c:nil"})...)
	for _, r := range repl {
		c.Add(an.Guarded(h, r, diffT), "R1", hn+":slot-replaced-only-when-stale", r, "the slot record (and with it the marks of its time) is replaced only when the slot is empty or holds a different time", "edge dominance over {slot == nil, slot.LTime != msg.LTime}")
		// the fresh record carries the message time
		okT := false
		for _, st := range an.StoresTo(h, ".LTime") {
			if an.Path(st.Val) == ihLTime {
				okT = true
			}
		}
		c.Add(okT, "R1", hn+":fresh-slot-time", r, "a fresh slot record carries the message's Lamport time", "field provenance")
	}
	// duplicate ⇒ false : every const-false return after the same-time edge... and
	// every return reachable from the "found equal" edge is false. We check the
	// weaker, sufficient shape: on the same-time path, the only way to reach
	// the mark is through the not-found exit, i.e. the mark is unreachable from
	// any edge establishing "equal".
	_ = sameT
	_ = nonNil
	_ = list
}

// upsertRule decides the intent buffer's dedupe discipline (shared by C02 and C04: the handlers
// return upsertIntent's result as the re-broadcast decision for members they do not know).
func upsertRule(c *an.Ctx, rule string) {
	if up := sf(c, rule, "upsertIntent"); up != nil {
		absent := an.Cmp{L: "$0[$1]#1", Op: "==", R: "c:false"}
		newer := an.Cmp{L: "$3", Op: ">", R: "$0[$1]#0.LTime"}
		edges := append(an.EdgesImplying(up, absent), an.EdgesImplying(up, newer)...)
		var targets []ssa.Instruction
		for _, in := range an.FindInstrs(up, func(in ssa.Instruction) bool { _, ok := in.(*ssa.MapUpdate); return ok }) {
			targets = append(targets, in)
		}
		for _, r := range an.Returns(up) {
			if v := an.ResultValues(r); len(v) == 1 && !an.IsConstBool(v[0], false) {
				targets = append(targets, r)
			}
		}
		c.Floor(rule, "guarded effects in upsertIntent", len(targets), 2)
		for _, t := range targets {
			c.Add(an.Guarded(up, t, edges), rule, "upsertIntent:strictly-newer:"+kindOf(t), t, kindOf(t)+" only when the node has no buffered intent or ltime > buffered LTime (strict)", "edge dominance over {absent, strictly newer}")
		}
		for _, in := range an.FindInstrs(up, func(in ssa.Instruction) bool { _, ok := in.(*ssa.MapUpdate); return ok }) {
			mu := in.(*ssa.MapUpdate)
			okKey := an.Path(mu.Map) == "$0" && an.Path(mu.Key) == "$1"
			c.Add(okKey, rule, "upsertIntent:slot", in, "the intent is stored under the node's own key", "access path")
		}
		for _, st := range an.StoresTo(up, ".LTime") {
			c.Add(an.Path(st.Val) == "$3", rule, "upsertIntent:stored-ltime", st, "the buffered intent carries the supplied Lamport time", "access path")
		}
	}
}
