package rules

import (
	"go/token"
	"sort"
	"strings"

	"serfcheck/an"

	"golang.org/x/tools/go/ssa"
)

func init() {
	register(&Rule{
		ID:      "C27",
		Explain: "Decides the event-handler contract as table and shape facts: the event names a filter accepts are exactly the names EventType.String() produces plus '*'; a script runs only behind its filter's Invoke(e) == true, and Invoke returns true only on '*' or on type-name equality, additionally behind name equality for user:NAME / query:NAME filters; the type switch of the invoker covers every implementation of serf.Event; SERF_EVENT, SERF_SELF_NAME and SERF_SELF_ROLE are always set, the user/query name and Lamport time variables in their arms, SERF_TAG_ names go through upper-casing and the [^A-Z0-9_] sanitiser; a member line has exactly four tab-separated fields ending in a newline with the free-text fields passed through the tab/newline escaper; a payload gets a newline appended exactly when it is non-empty and lacks one; a query response is sent only after a successful run with output, from the 8 KiB ring buffer. What the shell does is not covered.",
		Run:     runC27,
		Mutants: []Mutant{
			{Name: "handler-list-reused-on-deregister", File: "cmd/serf/command/agent/agent.go", Func: "func (a *Agent) DeregisterEventHandler(", Old: "\ta.eventHandlerList = nil\n", New: "\ta.eventHandlerList = a.eventHandlerList[:0]\n", Expect: "R7"},
			{Name: "inherited-env-overrides", File: "cmd/serf/command/agent/invoke.go", Func: "func invokeEventScript(", Old: "\tcmd.Env = append(os.Environ(),\n", New: "\tcmd.Env = append(os.Environ()[:0:0],\n", Expect: "R3|env:inherited-first"},
			{Name: "filter-accepts-unknown-event", File: "cmd/serf/command/agent/event_handler.go", Func: "func (s *EventFilter) Valid(", Old: "\tcase \"member-reap\":\n", New: "\tcase \"member-reap\":\n\tcase \"member-remove\":\n", Expect: "R1"},
			{Name: "user-name-filter-ignored", File: "cmd/serf/command/agent/event_handler.go", Func: "func (s *EventFilter) Invoke(", Old: "\t\tif userE.Name != s.Name {\n\t\t\treturn false\n\t\t}\n", New: "\t\t_ = userE\n", Expect: "R4"},
			{Name: "query-name-prefix-match", File: "cmd/serf/command/agent/event_handler.go", Func: "func (s *EventFilter) Invoke(", Old: "if query.Name != s.Name {", New: "if !strings.HasPrefix(query.Name, s.Name) {", Expect: "R4"},
			{Name: "member-name-not-escaped", File: "cmd/serf/command/agent/invoke.go", Func: "func memberEventStdin(", Old: "\t\t\teventClean(member.Name),\n", New: "\t\t\tmember.Name,\n", Expect: "R2"},
			{Name: "escaper-forgets-newline", File: "cmd/serf/command/agent/invoke.go", Func: "func eventClean(", Old: "\tv = strings.ReplaceAll(v, \"\\n\", \"\\\\n\")\n", New: "", Expect: "R2"},
			{Name: "tag-env-not-sanitised", File: "cmd/serf/command/agent/invoke.go", Func: "func invokeEventScript(", Old: "sanitizeTagRegexp.ReplaceAllString(strings.ToUpper(name), \"_\")", New: "strings.ToUpper(name)", Expect: "R3"},
			{Name: "query-ltime-missing", File: "cmd/serf/command/agent/invoke.go", Func: "func invokeEventScript(", Old: "\t\tcmd.Env = append(cmd.Env, fmt.Sprintf(\"SERF_QUERY_LTIME=%d\", e.LTime))\n", New: "", Expect: "R3"},
			{Name: "respond-on-failure", File: "cmd/serf/command/agent/invoke.go", Func: "func invokeEventScript(", Old: "\tif err != nil {\n\t\treturn err\n\t}\n\n\t// If this is a query and we have output, respond\n", New: "\t// If this is a query and we have output, respond\n", Expect: "R5"},
			{Name: "newline-always-appended", File: "cmd/serf/command/agent/invoke.go", Func: "func streamPayload(", Old: "if len(payload) > 0 && payload[len(payload)-1] != '\\n' {", New: "if len(payload) > 0 {", Expect: "R5"},
			{Name: "empty-reload-ignored", File: "cmd/serf/command/agent/event_handler.go", Func: "func (h *ScriptEventHandler) HandleEvent(", Old: "if h.newScripts != nil {", New: "if len(h.newScripts) > 0 {", Expect: "R6|HandleEvent:installs-pending"},
			{Name: "reload-hands-nil-list", File: "cmd/serf/command/agent/config.go", Func: "func (c *Config) EventScripts(", Old: "\tresult := make([]EventScript, 0, len(c.EventHandlers))\n", New: "\tvar result []EventScript\n", Expect: "R6|UpdateScripts-caller"},
			{Name: "script-runs-without-filter", File: "cmd/serf/command/agent/event_handler.go", Func: "func (h *ScriptEventHandler) HandleEvent(", Old: "\t\tif !script.Invoke(e) {\n\t\t\tcontinue\n\t\t}\n", New: "\t\tif !script.Invoke(e) && script.Event != \"\" {\n\t\t\tcontinue\n\t\t}\n", Expect: "R4"},
		},
	})
}

func constStringsIn(fn *ssa.Function) map[string]bool {
	out := map[string]bool{}
	an.Instrs(fn, func(in ssa.Instruction) {
		for _, op := range in.Operands(nil) {
			if op != nil && *op != nil {
				if s, ok := an.ConstString(*op); ok {
					out[s] = true
				}
			}
		}
	})
	return out
}

func runC27(c *an.Ctx) {
	c.Rule("R1 names accepted by EventFilter.Valid = names returned by EventType.String ∪ {\"*\"}; the invoker's type switch covers every implementation of serf.Event")
	c.Rule("R2 member stdin line: format %s\\t%s\\t%s\\t%s\\n; free-text fields through eventClean (tab and newline escaped), address through net.IP.String")
	c.Rule("R3 environment: SERF_EVENT/SERF_SELF_NAME/SERF_SELF_ROLE always; SERF_USER_EVENT/SERF_USER_LTIME in the user arm; SERF_QUERY_NAME/SERF_QUERY_LTIME in the query arm; SERF_TAG_ names upper-cased and sanitised with [^A-Z0-9_] → _")
	c.Rule("R4 a script runs only behind Invoke(e)==true; Invoke: true on '*', else type-name equality and, for user/query filters with a name, name equality")
	c.Rule("R5 payload: newline appended iff non-empty and missing; query response only behind run error == nil ∧ output written > 0, taken from the ring buffer of 8 KiB")
	// ---- R1
	var valid, names []string
	if vf := am(c, "R1", "EventFilter", "Valid"); vf != nil {
		for e, facts := range an.EdgeFacts(vf) {
			_ = e
			for _, f := range facts {
				if f.L == "$0.Event" && f.Op == "==" && strings.HasPrefix(f.R, `c:"`) {
					valid = append(valid, strings.Trim(strings.TrimPrefix(f.R, "c:"), `"`))
				}
			}
		}
		// true only via one of those edges; false otherwise
		for _, r := range an.Returns(vf) {
			v := an.ResultValues(r)[0]
			if an.IsConstBool(v, true) {
				edges := an.EdgesWhere(vf, func(f an.Cmp) bool { return f.L == "$0.Event" && f.Op == "==" })
				c.Add(an.Guarded(vf, r, edges), "R1", "Valid:true-only-listed", r, "Valid returns true only for a listed event name", "edge dominance")
			}
		}
	}
	if ts := c.P.Method(serf, "EventType", "String"); c.NeedFunc("R1", ts, "serf.(EventType).String") {
		for _, r := range an.Returns(ts) {
			if s, ok := an.ConstString(an.ResultValues(r)[0]); ok {
				names = append(names, s)
			}
		}
	}
	sort.Strings(valid)
	sort.Strings(names)
	want := append([]string{"*"}, names...)
	sort.Strings(want)
	valid = uniq(valid)
	c.Add(len(names) >= 7 && strings.Join(valid, ",") == strings.Join(want, ","), "R1", "Valid:names-agree", nil, "filter names {"+strings.Join(valid, ",")+"} = event names {"+strings.Join(names, ",")+"} ∪ {*}", "constant table join")
	inv := c.P.Func(agent, "invokeEventScript")
	if c.NeedFunc("R1", inv, "agent.invokeEventScript") {
		asserted := map[string]bool{}
		an.Instrs(inv, func(in ssa.Instruction) {
			if ta, ok := in.(*ssa.TypeAssert); ok && ta.CommaOk && an.Path(ta.X) == "$3" {
				asserted[namedOf(ta.AssertedType)] = true
			}
		})
		for _, impl := range eventImpls(c) {
			c.Add(asserted[impl], "R1", "invoke:covers:"+impl, inv, "the invoker's type switch has an arm for "+impl, "type-assert enumeration over the implementations of serf.Event")
		}
	}

	// ---- R2
	if ms := c.P.Func(agent, "memberEventStdin"); c.NeedFunc("R2", ms, "agent.memberEventStdin") {
		n := 0
		for _, call := range an.CallsTo(ms, "fmt.Appendf", "fmt.Sprintf", "fmt.Fprintf") {
			cc := an.CallOf(call)
			fi := 0
			if strings.HasSuffix(an.CalleeName(an.StaticCallee(cc)), "Sprintf") {
				fi = 0
			} else {
				fi = 1
			}
			f, ok := an.ConstString(cc.Args[fi])
			if !ok || !strings.Contains(f, "\t") {
				continue
			}
			n++
			c.Add(f == "%s\t%s\t%s\t%s\n", "R2", "memberline:format", call, "a member line is four tab-separated fields and a newline (format "+quoteS(strings.ReplaceAll(f, "\t", "\\t"))+")", "constant format")
			args := an.VarArgs(cc)
			if len(args) != 4 {
				c.Add(false, "R2", "memberline:argc", call, "four fields", "")
				continue
			}
			m := "$2.Members[(phi:rangeindex@"
			exp := []struct{ what, prefix, suffix string }{
				{"name", "eventClean(" + m, ".Name)"},
				{"address", "net.(IP).String(" + m, ".Addr)"},
				{"role", "eventClean(" + m, `.Tags[c:"role"])`},
				{"tags", "eventClean(strings.Join(", `,c:","))`},
			}
			for i, e := range exp {
				p := an.Path(args[i])
				c.Add(strings.HasPrefix(p, e.prefix) && strings.HasSuffix(p, e.suffix), "R2", "memberline:field:"+e.what, call, "field "+itoa(i+1)+" is the member's "+e.what+", escaped/rendered so that it contains no tab or newline (got "+short(p)+")", "argument provenance")
			}
		}
		c.Floor("R2", "member line format sites", n, 1)
	}
	if ec := c.P.Func(agent, "eventClean"); c.NeedFunc("R2", ec, "agent.eventClean") {
		repl := map[string]string{}
		for _, call := range an.CallsTo(ec, "strings.ReplaceAll") {
			a := an.CallOf(call).Args
			o, _ := an.ConstString(a[1])
			n, _ := an.ConstString(a[2])
			repl[o] = n
		}
		okChain := false
		for _, r := range an.Returns(ec) {
			p := an.Path(an.ResultValues(r)[0])
			okChain = strings.HasPrefix(p, "strings.ReplaceAll(strings.ReplaceAll($0,")
		}
		c.Add(repl["\t"] == "\\t" && repl["\n"] == "\\n" && okChain, "R2", "eventClean:escapes", ec, "eventClean replaces tabs and newlines of its argument by \\t and \\n (both replacements chained on the input)", "call arguments + result path")
	}

	// ---- R3
	if inv != nil {
		cs := constStringsIn(inv)
		for _, k := range []string{"SERF_EVENT=", "SERF_SELF_NAME=", "SERF_SELF_ROLE="} {
			c.Add(cs[k], "R3", "env:"+k, inv, k+" is set", "string constant enumeration")
		}
		// the three always-set variables are built before the type switch, unconditionally: their
		// concatenations dominate the StdinPipe call
		pipe := an.CallsTo(inv, "exec.(*Cmd).StdinPipe")
		an.Instrs(inv, func(in ssa.Instruction) {
			b, ok := in.(*ssa.BinOp)
			if !ok || b.Op.String() != "+" {
				return
			}
			s, isC := an.ConstString(b.X)
			if !isC || !strings.HasPrefix(s, "SERF_") {
				return
			}
			val := an.Path(b.Y)
			switch s {
			case "SERF_EVENT=":
				c.Add(val == "(EventType).String(invoke:EventType($3))" && len(pipe) == 1 && an.Dominates(in, pipe[0]), "R3", "env-value:SERF_EVENT", in, "SERF_EVENT is the event's type name, set unconditionally", "value path + dominance")
			case "SERF_SELF_NAME=":
				c.Add(val == "$2.Name" && len(pipe) == 1 && an.Dominates(in, pipe[0]), "R3", "env-value:SERF_SELF_NAME", in, "SERF_SELF_NAME is the local member's name", "value path + dominance")
			case "SERF_SELF_ROLE=":
				c.Add(val == `$2.Tags[c:"role"]` && len(pipe) == 1 && an.Dominates(in, pipe[0]), "R3", "env-value:SERF_SELF_ROLE", in, "SERF_SELF_ROLE is the local member's role tag", "value path + dominance")
			case "SERF_USER_EVENT=":
				c.Add(val == "$3.(serf.UserEvent)#0.Name" && an.GuardedBy(inv, in, an.Cmp{L: "$3.(serf.UserEvent)#1", Op: "==", R: "c:true"}), "R3", "env-value:SERF_USER_EVENT", in, "SERF_USER_EVENT is the user event's name, in the user arm", "value path + edge dominance")
			case "SERF_QUERY_NAME=":
				c.Add(val == "$3.(*serf.Query)#0.Name" && an.GuardedBy(inv, in, an.Cmp{L: "$3.(*serf.Query)#1", Op: "==", R: "c:true"}), "R3", "env-value:SERF_QUERY_NAME", in, "SERF_QUERY_NAME is the query's name, in the query arm", "value path + edge dominance")
			}
		})
		// the inherited environment comes first: exec keeps the last value of a duplicated key, so the per-event
		// variables must be appended after os.Environ(), never the other way round
		nEnv := 0
		for _, ev := range an.CallsTo(inv, "os.Environ") {
			nEnv++
			base := false
			for _, r := range *ev.(*ssa.Call).Referrers() {
				if call, ok := r.(*ssa.Call); ok {
					if b, isB := call.Call.Value.(*ssa.Builtin); isB && b.Name() == "append" && call.Call.Args[0] == ev.(ssa.Value) {
						base = true
					}
				}
			}
			used := len(*ev.(*ssa.Call).Referrers())
			c.Add(base && used == 1, "R3", "env:inherited-first", ev, "the process environment is the base the SERF_ variables are appended to (they take precedence over inherited values)", "use of os.Environ() as the first operand of append only")
		}
		c.Floor("R3", "os.Environ() uses in the invoker", nEnv, 1)
		for _, k := range []string{"SERF_USER_EVENT=", "SERF_QUERY_NAME="} {
			c.Add(cs[k], "R3", "env:"+k, inv, k+" is set in its arm", "string constant enumeration")
		}
		for _, sp := range an.CallsTo(inv, "fmt.Sprintf") {
			cc := an.CallOf(sp)
			f, _ := an.ConstString(cc.Args[0])
			args := an.VarArgs(cc)
			switch f {
			case "SERF_USER_LTIME=%d":
				c.Add(len(args) == 1 && an.Path(args[0]) == "$3.(serf.UserEvent)#0.LTime", "R3", "env-value:SERF_USER_LTIME", sp, "SERF_USER_LTIME is the user event's Lamport time", "argument provenance")
			case "SERF_QUERY_LTIME=%d":
				c.Add(len(args) == 1 && an.Path(args[0]) == "$3.(*serf.Query)#0.LTime", "R3", "env-value:SERF_QUERY_LTIME", sp, "SERF_QUERY_LTIME is the query's Lamport time", "argument provenance")
			case "SERF_TAG_%s=%s":
				ok := len(args) == 2 && strings.HasPrefix(an.Path(args[0]), "regexp.(*Regexp).ReplaceAllString(g:sanitizeTagRegexp,strings.ToUpper(next(range($2.Tags))#1),c:\"_\")") && an.Path(args[1]) == "next(range($2.Tags))#2"
				c.Add(ok, "R3", "env-value:SERF_TAG", sp, "each tag becomes SERF_TAG_<upper-cased, sanitised name>=<value> (name "+short(an.Path(args[0]))+")", "argument provenance")
			}
		}
		// the same variable built by concatenation: "SERF_TAG_" + name + "=" + value
		an.Instrs(inv, func(in ssa.Instruction) {
			b, ok := in.(*ssa.BinOp)
			if !ok || b.Op != token.ADD {
				return
			}
			for _, r := range *b.Referrers() {
				if rb, isB := r.(*ssa.BinOp); isB && rb.Op == token.ADD {
					return // not the outermost concatenation
				}
			}
			var parts []ssa.Value
			var flat func(v ssa.Value)
			flat = func(v ssa.Value) {
				if bb, isB := v.(*ssa.BinOp); isB && bb.Op == token.ADD {
					flat(bb.X)
					flat(bb.Y)
					return
				}
				parts = append(parts, v)
			}
			flat(b)
			if len(parts) != 4 {
				return
			}
			p0, ok0 := an.ConstString(parts[0])
			p2, ok2 := an.ConstString(parts[2])
			if !ok0 || !ok2 || p0 != "SERF_TAG_" || p2 != "=" {
				return
			}
			cs["SERF_TAG_%s=%s"] = true
			okT := strings.HasPrefix(an.Path(parts[1]), "regexp.(*Regexp).ReplaceAllString(g:sanitizeTagRegexp,strings.ToUpper(next(range($2.Tags))#1),c:\"_\")") && an.Path(parts[3]) == "next(range($2.Tags))#2"
			c.Add(okT, "R3", "env-value:SERF_TAG", in, "each tag becomes SERF_TAG_<upper-cased, sanitised name>=<value> (name "+short(an.Path(parts[1]))+")", "operand provenance of the concatenation")
		})
		for _, k := range []string{"SERF_USER_LTIME=%d", "SERF_QUERY_LTIME=%d", "SERF_TAG_%s=%s"} {
			c.Add(cs[k], "R3", "env:"+k, inv, strings.Split(k, "=")[0]+" is set", "string constant enumeration")
		}
		// sanitiser constant
		okRe := false
		for _, f := range []*ssa.Function{c.P.Func(agent, "init")} {
			if f == nil {
				continue
			}
			for _, call := range an.CallsTo(f, "regexp.MustCompile") {
				s, _ := an.ConstString(an.CallOf(call).Args[0])
				for _, r := range *call.(*ssa.Call).Referrers() {
					if st, ok := r.(*ssa.Store); ok && an.Path(st.Addr) == "&g:sanitizeTagRegexp" {
						okRe = s == "[^A-Z0-9_]"
					}
				}
			}
		}
		c.Add(okRe, "R3", "env:sanitiser-pattern", inv, "the tag-name sanitiser replaces every character outside [A-Z0-9_]", "package initialiser constant")
	}

	// ---- R4
	if he := am(c, "R4", "ScriptEventHandler", "HandleEvent"); he != nil {
		runs := an.CallsTo(he, "invokeEventScript")
		c.Floor("R4", "script invocation sites", len(runs), 1)
		matched := an.EdgesWhere(he, func(f an.Cmp) bool {
			return strings.HasPrefix(f.L, "(*EventFilter).Invoke(") && strings.HasSuffix(f.L, ",$1)") && f.Op == "==" && f.R == "c:true"
		})
		for _, r := range runs {
			c.Add(an.Guarded(he, r, matched), "R4", "HandleEvent:filter-first", r, "a script runs only if its filter matched the event", "edge dominance")
			facts := necessaryFacts(he, r)
			extra := ""
			for _, f := range facts {
				if strings.HasPrefix(f.L, "(*EventFilter).Invoke(") || strings.HasPrefix(f.L, "(phi:rangeindex@") {
					continue
				}
				extra += f.String() + "; "
			}
			c.Add(extra == "", "R4", "HandleEvent:only-filter-decides", r, "nothing but the filter decides whether a configured script runs (other conditions: "+extra+")", "necessary-edge enumeration")
			a := an.CallOf(r).Args
			c.Add(an.Path(a[3]) == "$1", "R4", "HandleEvent:passes-event", r, "the script is invoked with the event that matched", "argument path")
		}
		// the matched edge's complement skips only this script: no return/break
		for _, e := range an.EdgesWhere(he, func(f an.Cmp) bool {
			return strings.HasPrefix(f.L, "(*EventFilter).Invoke(") && f.Op == "==" && f.R == "c:false"
		}) {
			c.Add(e.To().Comment == "rangeindex.loop", "R4", "HandleEvent:mismatch-continues", he, "a script whose filter does not match is skipped and the next script is considered", "edge target")
		}
	}
	if iv := am(c, "R4", "EventFilter", "Invoke"); iv != nil {
		star := an.Cmp{L: "$0.Event", Op: "==", R: `c:"*"`}
		typeEq := an.Cmp{L: "(EventType).String(invoke:EventType($1))", Op: "==", R: "$0.Event"}
		// judged per return that can answer true (a constant true, or a computed value / short-circuit
		// expression on the ways where it can be true): reach/cut with the facts of the cut, so the shape
		// of the function (if-chain, switch, `ok && name == NAME`) does not matter
		nT := 0
		for _, r := range an.Returns(iv) {
			if an.IsConstBool(an.ResultValues(r)[0], false) {
				continue
			}
			reachTrue := func(cmps ...an.Cmp) bool {
				var edges []an.Edge
				for _, w := range cmps {
					edges = append(edges, an.EdgesImplying(iv, w)...)
				}
				return an.ReachFrom(iv, nil, &an.Cut{Edges: edges, Facts: cmps, RetTrue: true}, func(in ssa.Instruction) bool { return in == ssa.Instruction(r) }) != nil
			}
			if !reachTrue() {
				continue // cannot return true at all
			}
			nT++
			if an.GuardedBy(iv, r, star) {
				c.Add(true, "R4", "Invoke:star", r, "'*' matches every event", "edge dominance")
				continue
			}
			c.Add(!reachTrue(star, typeEq), "R4", "Invoke:type-name-equal", r, "a non-'*' filter matches only events whose type name equals the filter's event name", "reach/cut over {'*', type name equal}")
			for _, k := range []struct{ ev, assert string }{{"user", "$1.(serf.UserEvent)"}, {"query", "$1.(*serf.Query)"}} {
				x := reachTrue(an.Cmp{L: "$0.Event", Op: "!=", R: `c:"` + k.ev + `"`}, an.Cmp{L: "$0.Name", Op: "==", R: `c:""`}, an.Cmp{L: k.assert + "#0.Name", Op: "==", R: "$0.Name"}, star)
				c.Add(!x, "R4", "Invoke:name-equal:"+k.ev, r, "a "+k.ev+":NAME filter matches only "+k.ev+" events whose name equals NAME", "reach/cut over {event != "+k.ev+", no name given, names equal}")
			}
		}
		c.Add(nT >= 2, "R4", "Invoke:true-sites", iv, "Invoke has accepting exits for '*' and for a full match", "result enumeration")
	}

	// ---- R5
	if sp := c.P.Func(agent, "streamPayload"); c.NeedFunc("R5", sp, "agent.streamPayload") {
		var app *ssa.Call
		an.Instrs(sp, func(in ssa.Instruction) {
			if call, ok := in.(*ssa.Call); ok {
				if b, ok := call.Call.Value.(*ssa.Builtin); ok && b.Name() == "append" {
					app = call
				}
			}
		})
		if app == nil {
			c.Anchor("R5", "newline append in streamPayload")
		} else {
			nonEmpty := an.Cmp{L: "len($2)", Op: ">", R: "c:0"}
			missing := an.Cmp{L: "$2[(len($2)-c:1)]", Op: "!=", R: "c:10"}
			c.Add(an.GuardedBy(sp, app, nonEmpty) && an.GuardedBy(sp, app, missing), "R5", "streamPayload:append-iff-missing", app, "a newline is appended only to a non-empty payload whose last byte is not a newline", "edge dominance")
			// and whenever both hold it is appended: the written value on those edges is the appended one
			for _, w := range an.FindInstrs(sp, func(in ssa.Instruction) bool {
				call, ok := in.(*ssa.Call)
				return ok && call.Call.IsInvoke() && call.Call.Method.Name() == "Write"
			}) {
				phi, isPhi := an.CallOf(w).Args[0].(*ssa.Phi)
				ok := isPhi
				if isPhi {
					for i, e := range phi.Edges {
						pred := phi.Block().Preds[i]
						if e == ssa.Value(app) {
							continue
						}
						if an.Path(e) != "$2" {
							ok = false
						}
						// the unmodified payload is written only from edges where one of the two conditions failed
						last := pred.Instrs[len(pred.Instrs)-1]
						_ = last
					}
				}
				c.Add(ok, "R5", "streamPayload:writes-payload", w, "stdin receives the payload, with the newline added when it was missing", "phi operands of the written value")
			}
			el, _ := an.ConstInt(appendedConst(app))
			c.Add(el == 10, "R5", "streamPayload:appends-newline", app, "the appended byte is a newline", "append operand")
		}
	}
	if inv != nil {
		resp := an.CallsTo(inv, "(*Query).Respond")
		c.Floor("R5", "query response sites in the invoker", len(resp), 1)
		for _, r := range resp {
			waitOK := an.EdgesWhere(inv, func(f an.Cmp) bool {
				return strings.HasPrefix(f.L, "exec.(*Cmd).Wait(") && f.Op == "==" && f.R == "c:nil"
			})
			wrote := an.EdgesWhere(inv, func(f an.Cmp) bool {
				return strings.HasPrefix(f.L, "circbuf.(*Buffer).TotalWritten(") && f.Op == ">" && f.R == "c:0"
			})
			isQ := an.EdgesImplying(inv, an.Cmp{L: "$3.(*serf.Query)#1", Op: "==", R: "c:true"})
			c.Add(an.Guarded(inv, r, waitOK), "R5", "respond:after-success", r, "the query response is sent only after the script exited successfully", "edge dominance on cmd.Wait()'s error")
			c.Add(an.Guarded(inv, r, wrote), "R5", "respond:only-with-output", r, "... and only when the script wrote output", "edge dominance")
			c.Add(an.Guarded(inv, r, isQ), "R5", "respond:only-queries", r, "... and only for query events", "edge dominance")
			a := an.CallOf(r).Args
			c.Add(strings.HasPrefix(an.Path(a[1]), "circbuf.(*Buffer).Bytes(circbuf.NewBuffer("+cv(c, agent, "maxBufSize")+")#0)") && an.Path(a[0]) == "$3.(*serf.Query)#0", "R5", "respond:ring-bytes", r, "the response is the content of the ring buffer ("+cv(c, agent, "maxBufSize")+" bytes: the last 8 KiB of output), sent on the query that triggered the script", "argument provenance")
		}
		c.Add(cv(c, agent, "maxBufSize") == "c:8192", "R5", "respond:ring-size", inv, "the ring buffer holds 8 KiB", "constant")
		// stdout and stderr both go to the ring
		n := 0
		for _, f := range []string{"Stdout", "Stderr"} {
			for _, st := range an.StoresTo(inv, "."+f) {
				if strings.HasPrefix(an.Path(st.Val), "circbuf.NewBuffer(") {
					n++
				}
			}
		}
		c.Add(n == 2, "R5", "respond:captures-output", inv, "the script's stdout and stderr are captured in the ring buffer", "field provenance")
	}

	// ---- R7 (shared with C25.R8) the event loop iterates a snapshot of the handler list outside the
	// lock: a handler is invoked exactly once per event only if that snapshot is never rewritten in place
	handlerListFresh(c, "R7")

	// ---- R6 "configured" follows a reload: the pending list replaces the current one at the next event
	c.Rule("R6 reload: UpdateScripts stores its argument as the pending list under the lock; HandleEvent installs a pending list whenever one is pending (condition: pending != nil, nothing else), under the same lock, before it iterates; every list handed to UpdateScripts is non-nil (an empty configuration removes all handlers)")
	const sl = "ScriptEventHandler.scriptLock"
	locks := an.NewLocks(c.P)
	if us := am(c, "R6", "ScriptEventHandler", "UpdateScripts"); us != nil {
		n := 0
		for _, st := range an.StoresTo(us, ".newScripts") {
			n++
			c.Add(an.Path(st.Val) == "$1" && locks.Held(st).HasW(sl) && len(necessaryFacts(us, st)) == 0, "R6", "UpdateScripts:stores-pending", st, "UpdateScripts records its argument as the pending list, unconditionally, under the lock", "store path + lockset")
		}
		c.Floor("R6", "pending-list stores in UpdateScripts", n, 1)
	}
	if he := c.P.Method(agent, "ScriptEventHandler", "HandleEvent"); he != nil {
		n := 0
		var swap *ssa.Store
		for _, st := range an.StoresTo(he, ".Scripts") {
			if an.Path(st.Val) != "$0.newScripts" {
				c.Add(false, "R6", "HandleEvent:scripts-writer", st, "the current list is only ever replaced by the pending list (stores "+an.Path(st.Val)+")", "store enumeration")
				continue
			}
			n++
			swap = st
			extra := ""
			for _, f := range necessaryFacts(he, st) {
				if f.L == "$0.newScripts" && f.Op == "!=" && f.R == "c:nil" {
					continue
				}
				extra += f.String() + "; "
			}
			c.Add(extra == "" && locks.Held(st).HasW(sl), "R6", "HandleEvent:installs-pending", st, "a pending list is installed whenever there is one (a nil test only; an empty list is a list), under the lock (other conditions: "+extra+")", "necessary-edge enumeration + lockset")
		}
		c.Floor("R6", "pending-list installs in HandleEvent", n, 1)
		if swap != nil {
			// the iteration reads the list after the swap section
			for _, r := range an.FieldReads([]*ssa.Function{he}, "ScriptEventHandler", "Scripts") {
				c.Add(an.Reaches(he, swap, r) && !an.Reaches(he, r, swap), "R6", "HandleEvent:iterates-after-install", r, "the list iterated for this event is read after the pending list was installed", "ordering (reachability)")
			}
		}
	}
	// every caller hands over a non-nil list
	var nonNil func(v ssa.Value, seen map[ssa.Value]bool) bool
	nonNil = func(v ssa.Value, seen map[ssa.Value]bool) bool {
		if seen[v] {
			return true
		}
		seen[v] = true
		switch x := v.(type) {
		case *ssa.MakeSlice:
			return true
		case *ssa.Slice:
			if _, ok := x.X.(*ssa.Alloc); ok {
				return true
			}
			return nonNil(x.X, seen)
		case *ssa.Phi:
			for _, e := range x.Edges {
				if !nonNil(e, seen) {
					return false
				}
			}
			return true
		case *ssa.Call:
			if b, ok := x.Call.Value.(*ssa.Builtin); ok && b.Name() == "append" {
				return nonNil(x.Call.Args[0], seen)
			}
			if f := an.StaticCallee(&x.Call); f != nil && an.InModule(f) && len(f.Blocks) > 0 {
				for _, r := range an.Returns(f) {
					if !nonNil(an.ResultValues(r)[0], seen) {
						return false
					}
				}
				return true
			}
		}
		return false
	}
	nu := 0
	for _, f := range c.P.FuncsIn(agent) {
		for _, call := range an.CallsTo(f, "(*ScriptEventHandler).UpdateScripts") {
			nu++
			a := an.CallOf(call).Args[1]
			c.Add(nonNil(a, map[ssa.Value]bool{}), "R6", "UpdateScripts-caller:"+an.FuncName(f)+":non-nil-list", call, "the list handed over on reload is never nil, so a configuration without handlers removes the old ones ("+short(an.Path(a))+")", "non-nil provenance (make/append/phi induction)")
		}
	}
	c.Floor("R6", "UpdateScripts call sites", nu, 1)
}

func appendedConst(call *ssa.Call) ssa.Value {
	args := an.VarArgs(&call.Call)
	if len(args) == 1 {
		return args[0]
	}
	return call
}

func uniq(in []string) []string {
	var out []string
	for i, s := range in {
		if i == 0 || s != in[i-1] {
			out = append(out, s)
		}
	}
	return out
}
