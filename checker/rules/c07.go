package rules

import (
	"go/token"
	"strings"

	"serfcheck/an"

	"golang.org/x/tools/go/ssa"
)

func init() {
	register(&Rule{
		ID:      "C07",
		Explain: "Decides query-reply routing for every arrival order and interleaving as shape facts: every send on a QueryResponse's ack/response channel happens with closeLock held and behind !closed in that critical section; close happens under the same lock behind !closed with closed=true set (exactly once, no send after close); the send methods are called only from the reply handler behind table-hit, id-equal and !Finished; the per-node 'already seen' test and the mark are in the SAME closeLock critical section as the send, and the acks/responses maps are never touched without that lock (NotifyMsg is concurrently callable); the timeout closure deletes the table entry and closes under queryLock. Timer firing and channel capacity (drops are allowed) are not covered.",
		Run:     runC07,
		Mutants: []Mutant{
			{Name: "dedupe-outside-lock", File: "serf/query.go", Func: "func (r *QueryResponse) sendResponse(", Old: "\tif _, ok := r.responses[nr.From]; ok {\n\t\treturn true, nil\n\t}\n", New: "", Expect: "R3"},
			{Name: "send-ignores-closed", File: "serf/query.go", Func: "func (r *QueryResponse) sendAck(", Old: "\tif r.closed {\n\t\treturn false, nil\n\t}\n", New: "", Expect: "R1"},
			{Name: "close-twice", File: "serf/query.go", Func: "func (r *QueryResponse) Close(", Old: "\tif r.closed {\n\t\treturn\n\t}\n", New: "", Expect: "R1"},
			{Name: "close-without-flag", File: "serf/query.go", Func: "func (r *QueryResponse) Close(", Old: "\tr.closed = true\n", New: "", Expect: "R1"},
			{Name: "reply-id-not-checked", File: "serf/serf.go", Func: "func (s *Serf) handleQueryResponse(", Old: "if query.id != resp.ID {", New: "if query.id != resp.ID && resp.ID != 0 {", Expect: "R2"},
			{Name: "unlocked-map-read", File: "serf/serf.go", Func: "func (s *Serf) handleQueryResponse(", Old: "\tif resp.Ack() {\n\t\tduplicate, err := query.sendAck(resp)", New: "\tif _, ok := query.responses[resp.From]; ok && !resp.Ack() {\n\t\treturn\n\t}\n\tif resp.Ack() {\n\t\tduplicate, err := query.sendAck(resp)", Expect: "R3"},
			{Name: "timeout-skips-delete", File: "serf/serf.go", Func: "func (s *Serf) registerQueryResponse(", Old: "\t\tdelete(s.queryResponse, resp.lTime)\n", New: "", Expect: "R4"},
			{Name: "mark-before-send", File: "serf/query.go", Func: "func (r *QueryResponse) sendAck(", Old: "\tselect {\n\tcase r.ackCh <- nr.From:\n\t\tr.acks[nr.From] = struct{}{}\n", New: "\tr.acks[nr.From] = struct{}{}\n\tselect {\n\tcase r.ackCh <- nr.From:\n", Expect: "R3"},
			{Name: "ack-into-response-set", File: "serf/query.go", Func: "func (r *QueryResponse) sendAck(", Old: "\t\tr.acks[nr.From] = struct{}{}\n", New: "\t\tr.responses[nr.From] = struct{}{}\n", Expect: "R3"},
		},
	})
}

func runC07(c *an.Ctx) {
	c.Rule("R1 sends on QueryResponse.ackCh/respCh only with closeLock held and behind !closed; close only under closeLock behind !closed with closed=true stored in the same section")
	c.Rule("R2 the send methods are called only by the reply handler, behind table hit, id equality and !Finished; ack replies go to sendAck, others to sendResponse")
	c.Rule("R3 per-node dedupe: the already-seen test, the send and the mark are in one closeLock critical section; the acks/responses maps are never read or written without closeLock")
	c.Rule("R4 the timeout closure deletes queryResponse[lTime] and closes the tracker under queryLock; registration under the same lock")
	locks := an.NewLocks(c.P)
	const lk = "QueryResponse.closeLock"
	notClosed := an.Cmp{L: "$0.closed", Op: "==", R: "c:false"}

	// R1 channels
	nSend, nClose := 0, 0
	for _, ch := range []string{"ackCh", "respCh"} {
		for _, a := range an.FieldAccesses(c.P.Funcs, "QueryResponse", ch) {
			fn := an.FuncName(a.Fn)
			switch a.Kind {
			case "send":
				nSend++
				c.Add(locks.Held(a.Instr).HasW(lk), "R1", fn+":send-locked:"+ch, a.Instr, "send on "+ch+" with closeLock held", "must-held lockset")
				c.Add(an.GuardedBy(a.Fn, a.Instr, notClosed), "R1", fn+":send-not-closed:"+ch, a.Instr, "send on "+ch+" only when the tracker is not closed (tested in the same critical section)", "edge dominance")
				// no unlock between entry and the send (the test and the send share the section)
				unl := an.CallsTo(a.Fn, "sync.(*Mutex).Unlock")
				reach := false
				for _, u := range unl {
					if _, isDefer := u.(*ssa.Defer); isDefer {
						continue
					}
					if an.Reaches(a.Fn, u, a.Instr) {
						reach = true
					}
				}
				c.Add(!reach, "R1", fn+":send-same-section:"+ch, a.Instr, "the closed test and the send are in one critical section", "no explicit unlock reaches the send")
			case "close":
				nClose++
				c.Add(fn == "(*QueryResponse).Close", "R1", fn+":close-owner:"+ch, a.Instr, ch+" is closed only by QueryResponse.Close", "who-may-close")
				c.Add(locks.Held(a.Instr).HasW(lk), "R1", fn+":close-locked:"+ch, a.Instr, "close of "+ch+" with closeLock held", "must-held lockset")
				c.Add(an.GuardedBy(a.Fn, a.Instr, notClosed), "R1", fn+":close-once:"+ch, a.Instr, "close of "+ch+" only when not yet closed", "edge dominance")
				// closed = true is stored on every path through the close, in the same section
				set := an.FindInstrs(a.Fn, func(in ssa.Instruction) bool {
					s, ok := in.(*ssa.Store)
					return ok && an.Path(s.Addr) == "&$0.closed" && an.IsConstBool(s.Val, true)
				})
				ok := false
				for _, s := range set {
					if an.Dominates(s, a.Instr) {
						ok = true
					}
				}
				if !ok {
					okMP, _ := an.MustPass(a.Fn, a.Instr, func(in ssa.Instruction) bool {
						for _, s := range set {
							if s == in {
								return true
							}
						}
						return false
					})
					ok = okMP && len(set) > 0
				}
				c.Add(ok, "R1", fn+":close-sets-flag:"+ch, a.Instr, "closing "+ch+" is paired with closed=true in the same critical section", "dominance / must-pass")
			case "store":
				c.Add(a.Init, "R1", fn+":chan-assigned:"+ch, a.Instr, ch+" is only assigned when the tracker is constructed", "init store")
			}
		}
	}
	c.Floor("R1", "sends on the reply channels", nSend, 2)
	c.Floor("R1", "closes of the reply channels", nClose, 2)
	// closed flag writers
	for _, a := range an.FieldAccesses(c.P.Funcs, "QueryResponse", "closed") {
		if a.Init {
			continue
		}
		c.Add(an.FuncName(a.Fn) == "(*QueryResponse).Close" && locks.Held(a.Instr).HasW(lk) && an.IsConstBool(a.Val, true), "R1", "closed-writer:"+an.FuncName(a.Fn), a.Instr, "the closed flag is only ever set (to true) by Close under closeLock", "who-may-write")
	}

	// R2 callers
	hq := sm(c, "R2", "Serf", "handleQueryResponse")
	tr := "$0.queryResponse[$1.LTime]"
	for _, m := range []string{"sendAck", "sendResponse"} {
		f := sm(c, "R2", "QueryResponse", m)
		if f == nil {
			continue
		}
		sites := locks.Callers(f)
		c.Floor("R2", "call sites of "+m, len(sites), 1)
		c.Add(!locks.Escapes(f), "R2", m+":not-a-value", f, m+" is only called directly", "reference enumeration")
		for _, s := range sites {
			fn := s.Parent()
			if fn != hq {
				c.Add(false, "R2", m+":caller:"+an.FuncName(fn), s, m+" called outside the reply handler", "")
				continue
			}
			c.Add(an.Path(an.CallOf(s).Args[0]) == tr+"#0", "R2", m+":on-looked-up-tracker", s, "the reply is routed to the tracker registered under the reply's Lamport time", "access path")
			c.Add(an.GuardedBy(fn, s, an.Cmp{L: tr + "#1", Op: "==", R: "c:true"}), "R2", m+":table-hit", s, "only for a running query", "edge dominance")
			c.Add(an.GuardedBy(fn, s, an.Cmp{L: tr + "#0.id", Op: "==", R: "$1.ID"}), "R2", m+":id-equal", s, "only when the reply's id equals the query's id", "edge dominance")
			c.Add(an.GuardedBy(fn, s, an.Cmp{L: "(*QueryResponse).Finished(" + tr + "#0)", Op: "==", R: "c:false"}), "R2", m+":not-finished", s, "only while the query has not finished", "edge dominance")
			want := "c:false"
			if m == "sendAck" {
				want = "c:true"
			}
			c.Add(an.GuardedBy(fn, s, an.Cmp{L: "(*messageQueryResponse).Ack($1)", Op: "==", R: want}), "R2", m+":kind", s, "acks go to the ack stream and responses to the response stream", "edge dominance")
		}
	}
	if hq != nil {
		// the table lookup is under queryLock
		for _, in := range an.FindInstrs(hq, func(in ssa.Instruction) bool {
			l, ok := in.(*ssa.Lookup)
			return ok && an.Path(l.X) == "$0.queryResponse"
		}) {
			c.Add(locks.Held(in).HasAny("Serf.queryLock"), "R2", "handleQueryResponse:lookup-locked", in, "the tracker table is read under queryLock", "must-held lockset")
		}
	}

	// R3 dedupe atomicity
	for _, k := range []struct{ m, ch, set, from string }{{"sendAck", "ackCh", "acks", "$1.From"}, {"sendResponse", "respCh", "responses", "$1.From"}} {
		f := c.P.Method(serf, "QueryResponse", k.m)
		if f == nil {
			continue
		}
		var sends []ssa.Instruction
		for _, a := range an.FieldAccesses([]*ssa.Function{f}, "QueryResponse", k.ch) {
			if a.Kind == "send" {
				sends = append(sends, a.Instr)
			}
		}
		unseen := an.Cmp{L: "$0." + k.set + "[" + k.from + "]#1", Op: "==", R: "c:false"}
		for _, s := range sends {
			c.Add(an.GuardedBy(f, s, unseen), "R3", k.m+":dedupe-in-section", s, "the send is dominated by 'this node has not "+k.set+" yet', tested inside the closeLock critical section of "+k.m, "edge dominance + lockset")
			// the delivered value is the node's reply
			if sel, ok := s.(*ssa.Select); ok {
				for _, st := range sel.States {
					if st.Dir == 1 {
						p := an.Path(st.Send)
						c.Add(p == k.from || p == "$1", "R3", k.m+":delivers-reply", s, "the value delivered is the reply being routed ("+p+")", "select send operand")
					}
				}
			}
		}
		// mark after the send, same set, same key
		marks := an.FindInstrs(f, func(in ssa.Instruction) bool {
			mu, ok := in.(*ssa.MapUpdate)
			return ok && strings.HasPrefix(an.Path(mu.Map), "$0.")
		})
		okMark := len(marks) == 1
		for _, mk := range marks {
			mu := mk.(*ssa.MapUpdate)
			if an.Path(mu.Map) != "$0."+k.set || an.Path(mu.Key) != k.from {
				okMark = false
			}
			dom := false
			for _, s := range sends {
				if an.Dominates(s, mk) {
					dom = true
				}
			}
			// only on the branch where the send was chosen
			if !dom {
				okMark = false
			}
			if sel, ok := firstSelect(sends); ok {
				if !an.GuardedBy(f, mk, an.Cmp{L: an.Path(sel) + "#0", Op: "==", R: "c:0"}) {
					okMark = false
				}
			}
		}
		c.Add(okMark, "R3", k.m+":mark", f, "the node is marked in "+k.set+" exactly when its reply was put on the channel", "map update path + dominance + select-branch guard")
	}
	// maps only under closeLock
	for _, set := range []string{"acks", "responses"} {
		n := 0
		for _, fn := range c.P.Funcs {
			an.Instrs(fn, func(in ssa.Instruction) {
				var m ssa.Value
				switch x := in.(type) {
				case *ssa.Lookup:
					m = x.X
				case *ssa.MapUpdate:
					m = x.Map
				case *ssa.Range:
					m = x.X
				default:
					return
				}
				t, f, ok := an.LoadedField(m)
				if !ok || t != "QueryResponse" || f != set {
					return
				}
				n++
				c.Add(locks.Held(in).HasW(lk), "R3", "map-access-locked:"+set+":"+an.FuncName(fn), in, "QueryResponse."+set+" is accessed with closeLock held", "must-held lockset")
			})
		}
		c.Floor("R3", "accesses of QueryResponse."+set, n, 2)
	}

	// R4 registration and timeout
	if rq := sm(c, "R4", "Serf", "registerQueryResponse"); rq != nil {
		for _, in := range an.FindInstrs(rq, func(in ssa.Instruction) bool { _, ok := in.(*ssa.MapUpdate); return ok }) {
			c.Add(locks.Held(in).HasW("Serf.queryLock"), "R4", "register:locked", in, "registration under queryLock", "must-held lockset")
		}
		if len(rq.AnonFuncs) != 1 {
			c.Anchor("R4", "timeout closure of registerQueryResponse")
		} else {
			cl := rq.AnonFuncs[0]
			dels := an.FindInstrs(cl, func(in ssa.Instruction) bool {
				call, ok := in.(*ssa.Call)
				if !ok {
					return false
				}
				b, ok := call.Call.Value.(*ssa.Builtin)
				return ok && b.Name() == "delete"
			})
			closes := an.CallsTo(cl, "(*QueryResponse).Close")
			okD, okC := false, false
			for _, d := range dels {
				a := an.CallOf(d).Args
				if strings.HasSuffix(an.Path(a[0]), ".queryResponse") && strings.HasSuffix(an.Path(a[1]), ".lTime") && locks.Held(d).HasW("Serf.queryLock") {
					mp, _ := an.MustPass(cl, nil, func(in ssa.Instruction) bool { return in == d })
					okD = mp
				}
			}
			for _, k := range closes {
				if locks.Held(k).HasW("Serf.queryLock") {
					mp, _ := an.MustPass(cl, nil, func(in ssa.Instruction) bool { return in == k })
					okC = mp
				}
			}
			c.Add(okD, "R4", "timeout:deletes-entry", cl, "the timeout removes the tracker from the table under queryLock on every path", "must-pass + lockset")
			c.Add(okC, "R4", "timeout:closes", cl, "the timeout closes the tracker under queryLock on every path", "must-pass + lockset")
			// scheduled with the query's timeout
			af := an.CallsTo(rq, "time.AfterFunc")
			c.Add(len(af) == 1 && an.Path(an.CallOf(af[0]).Args[0]) == "$1", "R4", "timeout:scheduled", rq, "the closure is scheduled with the query timeout", "call argument")
		}
	}
	_ = token.NoPos
}

func firstSelect(ins []ssa.Instruction) (*ssa.Select, bool) {
	for _, in := range ins {
		if s, ok := in.(*ssa.Select); ok {
			return s, true
		}
	}
	return nil, false
}
