// Package rules holds the per-property rule tables (the oracle) for the
// serf static checker.
package rules

import (
	"os"
	"path/filepath"
	"regexp"
	"strings"

	"serfcheck/an"

	"golang.org/x/tools/go/ssa"
)

// Rule is the checker of one property.
type Rule struct {
	ID      string
	Explain string
	Run     func(c *an.Ctx)
	Mutants []Mutant
}

// Mutant is a self-test variant of the repository expressed as a source
// rewrite inside one function of one file; it is applied to the current tree
// as an in-memory overlay. If Old does not occur exactly once in the named
// function the mutant is skipped (never a failure).
type Mutant struct {
	Name       string
	File       string // repository-relative
	Func       string // text that must precede Old (start of the search window), usually "func (s *Serf) name("
	Old, New   string
	Old2, New2 string // optional second rewrite in the same function
	Regexp     bool   // Old is a regular expression; every match in the function is replaced by New (used for renames)
	Expect     string // substring of the violated obligation key that must be reported
	Equivalent bool   // behaviour-preserving variant: the rule must stay silent
}

// Overlay builds the overlay map for a mutant.
func (m Mutant) Overlay(repo string) (map[string][]byte, bool) {
	file := filepath.Join(repo, m.File)
	b, err := os.ReadFile(file)
	if err != nil {
		return nil, false
	}
	s := string(b)
	start := 0
	if m.Func != "" {
		start = strings.Index(s, m.Func)
		if start < 0 {
			return nil, false
		}
	}
	end := len(s)
	if m.Func != "" {
		// window = up to the next top-level "\nfunc " after start
		if i := strings.Index(s[start+1:], "\nfunc "); i >= 0 {
			end = start + 1 + i
		}
	}
	win := s[start:end]
	if m.Regexp {
		re, err := regexp.Compile(m.Old)
		if err != nil || !re.MatchString(win) {
			return nil, false
		}
		win = re.ReplaceAllString(win, m.New)
		return map[string][]byte{file: []byte(s[:start] + win + s[end:])}, true
	}
	if strings.Count(win, m.Old) != 1 {
		return nil, false
	}
	win = strings.Replace(win, m.Old, m.New, 1)
	if m.Old2 != "" {
		if strings.Count(win, m.Old2) != 1 {
			return nil, false
		}
		win = strings.Replace(win, m.Old2, m.New2, 1)
	}
	return map[string][]byte{file: []byte(s[:start] + win + s[end:])}, true
}

// All is the registry.
var All = map[string]*Rule{}

func register(r *Rule) { All[r.ID] = r }

// ---------------------------------------------------------------------------
// helpers shared by rules

const (
	serf  = an.PkgSerf
	agent = an.PkgAgent
)

// sm resolves a method of the serf package.
func sm(c *an.Ctx, rule, typ, name string) *ssa.Function {
	f := c.P.Method(serf, typ, name)
	if !c.NeedFunc(rule, f, "serf.("+typ+")."+name) {
		return nil
	}
	return f
}

// sf resolves a function of the serf package.
func sf(c *an.Ctx, rule, name string) *ssa.Function {
	f := c.P.Func(serf, name)
	if !c.NeedFunc(rule, f, "serf."+name) {
		return nil
	}
	return f
}

// am resolves a method of the agent package.
func am(c *an.Ctx, rule, typ, name string) *ssa.Function {
	f := c.P.Method(agent, typ, name)
	if !c.NeedFunc(rule, f, "agent.("+typ+")."+name) {
		return nil
	}
	return f
}

// guardedAll checks that target is guarded by every fact in wants; records
// one obligation per fact.
func guardedAll(c *an.Ctx, rule string, fn *ssa.Function, target ssa.Instruction, what string, wants map[string]an.Cmp) {
	for name, w := range wants {
		ok := an.GuardedBy(fn, target, w)
		c.Add(ok, rule, an.FuncName(fn)+":"+what+":"+name, target,
			what+" must be guarded by "+w.String(), "edge-dominance: every path from entry crosses an edge establishing the fact")
	}
}

// anyGuard reports whether target is guarded by at least one of the
// alternative formulations of the same fact.
func anyGuard(fn *ssa.Function, target ssa.Instruction, alts ...an.Cmp) bool {
	var edges []an.Edge
	for _, w := range alts {
		edges = append(edges, an.EdgesImplying(fn, w)...)
	}
	return an.Guarded(fn, target, edges)
}

func has(s, sub string) bool { return strings.Contains(s, sub) }

// condLoads returns the load instructions of the value with access path p
// that feed condition v (through comparisons, negations and conversions).
func condLoads(v ssa.Value, p string, depth int) []ssa.Instruction {
	if v == nil || depth > 6 {
		return nil
	}
	if in, ok := v.(ssa.Instruction); ok && an.Path(v) == p {
		return []ssa.Instruction{in}
	}
	var out []ssa.Instruction
	switch x := v.(type) {
	case *ssa.BinOp:
		out = append(out, condLoads(x.X, p, depth+1)...)
		out = append(out, condLoads(x.Y, p, depth+1)...)
	case *ssa.UnOp:
		out = append(out, condLoads(x.X, p, depth+1)...)
	case *ssa.Convert:
		out = append(out, condLoads(x.X, p, depth+1)...)
	case *ssa.ChangeType:
		out = append(out, condLoads(x.X, p, depth+1)...)
	case *ssa.Phi:
		for _, e := range x.Edges {
			out = append(out, condLoads(e, p, depth+1)...)
		}
	}
	return out
}

// guardReadInSection decides a check-then-act obligation: target is guarded by
// the fact want, and on every guarding edge that can lead to target the tested
// value (want.L) was read in the critical section of lock that still holds at
// target: no path from the read to target passes a release of lock. Returns
// "" when it holds, else the reason.
func guardReadInSection(fn *ssa.Function, target ssa.Instruction, want an.Cmp, lock string) string {
	edges := an.EdgesImplying(fn, want)
	if !an.Guarded(fn, target, edges) {
		return "not guarded by " + want.String()
	}
	isT := func(in ssa.Instruction) bool { return in == target }
	var releases []ssa.Instruction
	an.Instrs(fn, func(in ssa.Instruction) {
		if l, op := an.LockOpOf(in); l == lock && strings.HasPrefix(op, "-") {
			releases = append(releases, in)
		}
	})
	// the edges whose tested value was read in the section that still holds at target must
	// guard target on their own (an earlier, stale test may exist besides them: double-checked locking)
	var fresh []an.Edge
	for _, e := range edges {
		ifi, ok := e.From.Instrs[len(e.From.Instrs)-1].(*ssa.If)
		if !ok {
			continue
		}
		reads := condLoads(ifi.Cond, want.L, 0)
		if len(reads) == 0 {
			reads = []ssa.Instruction{ifi}
		}
		stale := false
		for _, rd := range reads {
			for _, r := range releases {
				if an.ReachFrom(fn, rd, &an.Cut{Instrs: isT}, func(in ssa.Instruction) bool { return in == r }) != nil &&
					an.ReachFrom(fn, r, &an.Cut{Instrs: func(in ssa.Instruction) bool { return in == rd }}, isT) != nil {
					stale = true
				}
			}
		}
		if !stale {
			fresh = append(fresh, e)
		}
	}
	if !an.Guarded(fn, target, fresh) {
		return "(the lock is released between the test of " + want.L + " and the action: stale check)"
	}
	return ""
}

// decodeTargetsFresh decides, for every msgpack decode site in funcs whose target is a local
// variable, that the variable is a fresh (zero) value at each execution of the decode: no path
// leads from a decode into that variable to a decode into the same variable without passing the
// variable's allocation again. (The decoder only overwrites the fields present in the input, so a
// reused target keeps fields of the previous message.) Returns the number of sites examined.
func decodeTargetsFresh(c *an.Ctx, rule string, funcs []*ssa.Function) int {
	n := 0
	for _, f := range funcs {
		type site struct {
			in ssa.Instruction
			al *ssa.Alloc
		}
		var sites []site
		an.Instrs(f, func(in ssa.Instruction) {
			cc := an.CallOf(in)
			if cc == nil {
				return
			}
			callee := an.StaticCallee(cc)
			if callee == nil {
				return
			}
			var target ssa.Value
			switch an.CalleeName(callee) {
			case "decodeMessage":
				if len(cc.Args) == 2 {
					target = cc.Args[1]
				}
			case "codec.(*Decoder).Decode":
				if len(cc.Args) == 2 {
					target = cc.Args[1]
				}
			}
			if target == nil {
				return
			}
			if mi, ok := target.(*ssa.MakeInterface); ok {
				target = mi.X
			}
			if al, ok := an.Strip(target).(*ssa.Alloc); ok {
				sites = append(sites, site{in, al})
			}
		})
		for _, s := range sites {
			n++
			again := an.ReachFrom(f, s.in, &an.Cut{Instrs: func(in ssa.Instruction) bool {
				if in == ssa.Instruction(s.al) {
					return true
				}
				// an explicit reset to the zero value is as good as a new variable
				if st, ok := in.(*ssa.Store); ok && st.Addr == ssa.Value(s.al) {
					if k, ok := st.Val.(*ssa.Const); ok && k.Value == nil {
						return true
					}
				}
				return false
			}}, func(in ssa.Instruction) bool {
				for _, t := range sites {
					if t.in == in && t.al == s.al {
						return true
					}
				}
				return false
			})
			name := strings.TrimPrefix(an.Path(s.al), "&local:")
			c.Add(again == nil, rule, an.FuncName(f)+":decode-target-fresh:"+name, s.in, "the decode target "+name+" is a fresh zero value each time a message is decoded into it (a reused struct would keep fields of the previous message)", "reach/cut: no decode→decode path avoiding the variable's allocation")
		}
	}
	return n
}

// releaseBetween reports whether some path from instruction a to instruction b passes an explicit
// release (Unlock/RUnlock) of lock: a and b are then not in one critical section.
func releaseBetween(fn *ssa.Function, a, b ssa.Instruction, lock string) bool {
	isB := func(in ssa.Instruction) bool { return in == b }
	found := false
	an.Instrs(fn, func(r ssa.Instruction) {
		if l, op := an.LockOpOf(r); l != lock || !strings.HasPrefix(op, "-") {
			return
		}
		if an.ReachFrom(fn, a, &an.Cut{Instrs: isB}, func(in ssa.Instruction) bool { return in == r }) != nil &&
			an.ReachFrom(fn, r, &an.Cut{Instrs: func(in ssa.Instruction) bool { return in == a }}, isB) != nil {
			found = true
		}
	})
	return found
}

// boolWay is one way a function returns its (first) result: a return statement, or — when the returned
// value is a phi of the returning block (a short-circuit expression) — one incoming edge of it; facts
// are the comparison facts known on that way.
type boolWay struct {
	ret   *ssa.Return
	v     ssa.Value
	facts []an.Cmp
}

func boolWays(f *ssa.Function) []boolWay {
	var out []boolWay
	ef := an.EdgeFacts(f)
	for _, r := range an.Returns(f) {
		vals := an.ResultValues(r)
		if len(vals) == 0 {
			continue
		}
		v := vals[0]
		ph, isPhi := v.(*ssa.Phi)
		if !isPhi || ph.Block() != r.Block() {
			out = append(out, boolWay{r, v, necessaryFacts(f, r)})
			continue
		}
		for i, e := range ph.Edges {
			pred := ph.Block().Preds[i]
			var facts []an.Cmp
			if len(pred.Instrs) > 0 {
				facts = append(facts, necessaryFacts(f, pred.Instrs[len(pred.Instrs)-1])...)
			}
			for k, sc := range pred.Succs {
				if sc == ph.Block() {
					facts = append(facts, ef[an.Edge{From: pred, Succ: k}]...)
				}
			}
			out = append(out, boolWay{r, e, facts})
		}
	}
	return out
}
