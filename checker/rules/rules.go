// Package rules holds the per-property rule tables (the oracle) for the
// serf static checker.
package rules

import (
	"os"
	"path/filepath"
	"strings"

	"serfcheck/an"

	"golang.org/x/tools/go/ssa"
)

// Rule is the checker of one property.
type Rule struct {
	ID      string
	Explain string
	Run     func(c *an.Ctx)
	Mutants []Mutant
}

// Mutant is a self-test variant of the repository expressed as a source
// rewrite inside one function of one file; it is applied to the current tree
// as an in-memory overlay. If Old does not occur exactly once in the named
// function the mutant is skipped (never a failure).
type Mutant struct {
	Name       string
	File       string // repository-relative
	Func       string // text that must precede Old (start of the search window), usually "func (s *Serf) name("
	Old, New   string
	Expect     string // substring of the violated obligation key that must be reported
	Equivalent bool   // behaviour-preserving variant: the rule must stay silent
}

// Overlay builds the overlay map for a mutant.
func (m Mutant) Overlay(repo string) (map[string][]byte, bool) {
	file := filepath.Join(repo, m.File)
	b, err := os.ReadFile(file)
	if err != nil {
		return nil, false
	}
	s := string(b)
	start := 0
	if m.Func != "" {
		start = strings.Index(s, m.Func)
		if start < 0 {
			return nil, false
		}
	}
	end := len(s)
	if m.Func != "" {
		// window = up to the next top-level "\nfunc " after start
		if i := strings.Index(s[start+1:], "\nfunc "); i >= 0 {
			end = start + 1 + i
		}
	}
	win := s[start:end]
	if strings.Count(win, m.Old) != 1 {
		return nil, false
	}
	win = strings.Replace(win, m.Old, m.New, 1)
	return map[string][]byte{file: []byte(s[:start] + win + s[end:])}, true
}

// All is the registry.
var All = map[string]*Rule{}

func register(r *Rule) { All[r.ID] = r }

// ---------------------------------------------------------------------------
// helpers shared by rules

const (
	serf  = an.PkgSerf
	agent = an.PkgAgent
)

// sm resolves a method of the serf package.
func sm(c *an.Ctx, rule, typ, name string) *ssa.Function {
	f := c.P.Method(serf, typ, name)
	if !c.NeedFunc(rule, f, "serf.("+typ+")."+name) {
		return nil
	}
	return f
}

// sf resolves a function of the serf package.
func sf(c *an.Ctx, rule, name string) *ssa.Function {
	f := c.P.Func(serf, name)
	if !c.NeedFunc(rule, f, "serf."+name) {
		return nil
	}
	return f
}

// am resolves a method of the agent package.
func am(c *an.Ctx, rule, typ, name string) *ssa.Function {
	f := c.P.Method(agent, typ, name)
	if !c.NeedFunc(rule, f, "agent.("+typ+")."+name) {
		return nil
	}
	return f
}

// guardedAll checks that target is guarded by every fact in wants; records
// one obligation per fact.
func guardedAll(c *an.Ctx, rule string, fn *ssa.Function, target ssa.Instruction, what string, wants map[string]an.Cmp) {
	for name, w := range wants {
		ok := an.GuardedBy(fn, target, w)
		c.Add(ok, rule, an.FuncName(fn)+":"+what+":"+name, target,
			what+" must be guarded by "+w.String(), "edge-dominance: every path from entry crosses an edge establishing the fact")
	}
}

// anyGuard reports whether target is guarded by at least one of the
// alternative formulations of the same fact.
func anyGuard(fn *ssa.Function, target ssa.Instruction, alts ...an.Cmp) bool {
	var edges []an.Edge
	for _, w := range alts {
		edges = append(edges, an.EdgesImplying(fn, w)...)
	}
	return an.Guarded(fn, target, edges)
}

func has(s, sub string) bool { return strings.Contains(s, sub) }
