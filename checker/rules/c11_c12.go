package rules

import (
	"strings"

	"serfcheck/an"

	"golang.org/x/tools/go/ssa"
)

const (
	oAPPEND = 0x400
	oTRUNC  = 0x200
	oCREATE = 0x40
)

func init() {
	register(&Rule{
		ID:      "C11",
		Explain: "Decides the replace-by-rename discipline of the snapshot file for every crash point (process-crash semantics): the live path is never removed, never opened with O_TRUNC and always opened with O_APPEND; the only replacement of the live file is os.Rename(temp, live), reached only after the temp's buffered writer was flushed without error and the temp file synced without error (in that order, all writes before the flush), the temp being opened with O_TRUNC|O_CREATE; replay ignores a torn last line; the leave and shutdown paths flush then sync. File-system semantics of rename/fsync are the trusted base.",
		Run:     runC11,
		Mutants: []Mutant{
			{Name: "clock-field-after-append", File: "serf/snapshot.go", Func: "func (s *Snapshotter) processUserEvent(", Old: "\ts.lastEventClock = e.LTime\n", New: "", Old2: "\ts.tryAppend(fmt.Sprintf(\"event-clock: %d\\n\", e.LTime))\n", New2: "\ts.tryAppend(fmt.Sprintf(\"event-clock: %d\\n\", e.LTime))\n\ts.lastEventClock = e.LTime\n", Expect: "R5"},
			{Name: "remove-before-rename", File: "serf/snapshot.go", Func: "func (s *Snapshotter) compact(", Old: "\t// Move the new file into place", New: "\t_ = os.Remove(s.path)\n\n\t// Move the new file into place", Expect: "R1"},
			{Name: "rename-without-sync", File: "serf/snapshot.go", Func: "func (s *Snapshotter) compact(", Old: "\terr = fh.Sync()\n", New: "\terr = nil\n", Expect: "R2"},
			{Name: "rename-ignores-flush-error", File: "serf/snapshot.go", Func: "func (s *Snapshotter) compact(", Old: "\terr = buf.Flush()\n", New: "\t_ = buf.Flush()\n\terr = nil\n", Expect: "R2"},
			{Name: "live-opened-trunc", File: "serf/snapshot.go", Func: "func NewSnapshotter(", Old: "os.OpenFile(path, os.O_RDWR|os.O_APPEND|os.O_CREATE, 0644)", New: "os.OpenFile(path, os.O_RDWR|os.O_TRUNC|os.O_APPEND|os.O_CREATE, 0644)", Expect: "R1"},
			{Name: "replay-processes-torn-line", File: "serf/snapshot.go", Func: "func (s *Snapshotter) replay(", Old: "\t\tif err != nil {\n\t\t\tbreak\n\t\t}\n", New: "\t\tif err != nil && len(line) == 0 {\n\t\t\tbreak\n\t\t}\n\t\tline += \"\\n\"\n", Expect: "R3"},
			{Name: "temp-not-truncated", File: "serf/snapshot.go", Func: "func (s *Snapshotter) compact(", Old: "os.OpenFile(newPath, os.O_RDWR|os.O_TRUNC|os.O_CREATE, 0755)", New: "os.OpenFile(newPath, os.O_RDWR|os.O_APPEND|os.O_CREATE, 0755)", Expect: "R2"},
			{Name: "shutdown-no-sync", File: "serf/snapshot.go", Func: "func (s *Snapshotter) stream(", Old: "\t\t\tif err := s.fh.Sync(); err != nil {\n\t\t\t\ts.logger.Printf(\"[ERR] serf: failed to sync snapshot: %v\", err)\n\t\t\t}\n", New: "", Expect: "R4"},
			{Name: "write-after-flush", File: "serf/snapshot.go", Func: "func (s *Snapshotter) compact(", Old: "\terr = fh.Sync()\n", New: "\t_, _ = buf.WriteString(\"# end\\n\")\n\terr = fh.Sync()\n", Expect: "R2"},
		},
	})
	register(&Rule{
		ID:      "C12",
		Explain: "Decides that snapshot I/O failures cannot crash the node or stop recording, structurally: the Snapshotter's file/writer handles are never left nil by any function (a nil store must be overwritten before every return), so no later use dereferences a nil writer; every error of a write/flush on the append path reaches the append wrapper's recovery branch, which (behind the retry interval only) re-runs compaction from in-memory state; errors of open/sync/rename are branched on and never flow into a panic; the tee goroutine that delivers events shares no handle state with the writer goroutine. Which faults an OS can produce and the 30 s timing are not covered.",
		Run:     runC12,
		Mutants: []Mutant{
			{Name: "append-before-state-on-departure", File: "serf/snapshot.go", Func: "func (s *Snapshotter) processMemberEvent(", Old: "\t\t\tdelete(s.aliveNodes, mem.Name)\n\t\t\ts.tryAppend(fmt.Sprintf(\"not-alive: %s\\n\", mem.Name))\n", New: "\t\t\ts.tryAppend(fmt.Sprintf(\"not-alive: %s\\n\", mem.Name))\n\t\t\tdelete(s.aliveNodes, mem.Name)\n", Expect: "R7"},
			{Name: "compact-temp-not-truncated", File: "serf/snapshot.go", Func: "func (s *Snapshotter) compact(", Old: "os.O_RDWR|os.O_TRUNC|os.O_CREATE", New: "os.O_RDWR|os.O_CREATE", Expect: "R6"},
			{Name: "compact-before-buffering", File: "serf/snapshot.go", Func: "func (s *Snapshotter) appendLine(", Old: "\tn, err := s.buffered.WriteString(l)\n", New: "\tif s.offset+int64(len(l)) > s.snapshotMaxSize() {\n\t\tif err := s.compact(); err != nil {\n\t\t\treturn err\n\t\t}\n\t}\n\tn, err := s.buffered.WriteString(l)\n", Expect: "R3|appendLine"},
			{Name: "throttle-armed-by-routine-compaction", File: "serf/snapshot.go", Func: "func (s *Snapshotter) compact(", Old: "\tnewPath := s.path + tmpExt\n", New: "\ts.lastAttemptedCompaction = time.Now()\n\tnewPath := s.path + tmpExt\n", Expect: "R4|throttle-writer"},
			{Name: "handles-nil-on-error", File: "serf/snapshot.go", Func: "func (s *Snapshotter) compact(", Old: "\ts.fh.Close()\n\n\t// Move the new file into place\n", New: "\ts.fh.Close()\n\ts.buffered = nil\n\n\t// Move the new file into place\n", Expect: "R1"},
			{Name: "recovery-depends-on-old-handle", File: "serf/snapshot.go", Func: "func (s *Snapshotter) compact(", Old: "\ts.fh.Close()\n\n\t// Move the new file into place\n", New: "\tif err := s.fh.Close(); err != nil {\n\t\treturn err\n\t}\n\n\t// Move the new file into place\n", Expect: "R4"},
			{Name: "append-swallows-write-error", File: "serf/snapshot.go", Func: "func (s *Snapshotter) appendLine(", Old: "\tn, err := s.buffered.WriteString(l)\n\tif err != nil {\n\t\treturn err\n\t}\n", New: "\tn, _ := s.buffered.WriteString(l)\n", Expect: "R3"},
			{Name: "append-swallows-flush-error", File: "serf/snapshot.go", Func: "func (s *Snapshotter) appendLine(", Old: "\t\tif err := s.buffered.Flush(); err != nil {\n\t\t\treturn err\n\t\t}\n", New: "\t\t_ = s.buffered.Flush()\n", Expect: "R3"},
			{Name: "no-recovery", File: "serf/snapshot.go", Func: "func (s *Snapshotter) tryAppend(", Old: "\t\t\terr = s.compact()\n", New: "\t\t\terr = nil\n", Expect: "R4"},
			{Name: "recovery-only-when-small", File: "serf/snapshot.go", Func: "func (s *Snapshotter) tryAppend(", Old: "if now.Sub(s.lastAttemptedCompaction) > snapshotErrorRecoveryInterval {", New: "if now.Sub(s.lastAttemptedCompaction) > snapshotErrorRecoveryInterval && s.offset < s.minCompactSize {", Expect: "R4"},
			{Name: "tee-touches-file", File: "serf/snapshot.go", Func: "func (s *Snapshotter) teeStream(", Old: "\t\t// Forward the event immediately, do not block\n", New: "\t\tif s.buffered != nil {\n\t\t\t_ = s.buffered.Flush()\n\t\t}\n", Expect: "R5"},
			{Name: "panic-on-rename-error", File: "serf/snapshot.go", Func: "func (s *Snapshotter) compact(", Old: "\trenameErr := os.Rename(newPath, s.path)\n", New: "\trenameErr := os.Rename(newPath, s.path)\n\tif renameErr != nil && offset < 0 {\n\t\tpanic(renameErr)\n\t}\n", Expect: "R3"},
		},
	})
}

func snapFuncs(c *an.Ctx) []*ssa.Function {
	var out []*ssa.Function
	for _, f := range c.P.FuncsIn(serf) {
		top := f
		for top.Parent() != nil {
			top = top.Parent()
		}
		n := an.FuncName(top)
		if strings.HasPrefix(n, "(*Snapshotter).") || n == "NewSnapshotter" {
			out = append(out, f)
		}
	}
	return out
}

func isLivePath(p string) bool {
	return p == "$0.path" || p == "$0" // s.path, or NewSnapshotter's path parameter
}

func runC11(c *an.Ctx) {
	c.Rule("R1 the live path is never passed to os.Remove/os.Truncate/os.Create/os.WriteFile, never opened with O_TRUNC, always opened with O_APPEND")
	c.Rule("R2 os.Rename(temp, live) is the only replacement; it is edge-dominated by temp Flush()==nil and temp Sync()==nil, flush before sync, no temp write after the flush, temp opened O_TRUNC|O_CREATE")
	c.Rule("R3 replay processes a line only when ReadString returned no error")
	c.Rule("R4 leave and shutdown paths flush the writer and then sync the file")
	// R5: a compaction can run inside any append and replaces the file by an image of the in-memory
	// state; what was appended before survives it only if that state already contains it (and the
	// compacted image serialises every replayed field): shared with C10.R2/R3.
	c.Rule("R5 (shared with C10) compaction serialises every field replay restores, and each recorder updates its in-memory field before it appends the line (so a compaction triggered by that very append does not lose it)")
	sub := an.NewCtx(c.P, "C10", c.Tier)
	runC10(sub)
	n5 := 0
	for _, o := range sub.Obs {
		if o.Rule == "R3" || (o.Rule == "R2" && strings.Contains(o.Key, "compact:covers:")) {
			o.Key = "R5|C10:" + o.Key
			o.Rule = "R5"
			c.Obs = append(c.Obs, o)
			n5++
		}
	}
	c.Floor("R5", "state-before-append and compaction-coverage obligations", n5, 6)
	fns := snapFuncs(c)
	c.Floor("R1", "snapshotter functions", len(fns), 15)
	nOpen, nRename := 0, 0
	for _, fn := range fns {
		fname := an.FuncName(fn)
		for _, call := range an.CallsTo(fn, "os.Remove", "os.RemoveAll", "os.Truncate", "os.Create", "os.WriteFile") {
			a := an.Path(an.CallOf(call).Args[0])
			live := isLivePath(a) && (a != "$0" || fname == "NewSnapshotter")
			c.Add(!live, "R1", fname+":no-destructive-call:"+kindOf(call), call, kindOf(call)+" must not target the live snapshot path (argument "+a+")", "argument path")
		}
		nOpen += snapshotOpenFlags(c, fn, "R1", "R2")
		for _, call := range an.CallsTo(fn, "os.Rename") {
			nRename++
			args := an.CallOf(call).Args
			src, dst := an.Path(args[0]), an.Path(args[1])
			c.Add(dst == "$0.path" && src == `($0.path+c:".compact")`, "R2", fname+":rename-operands", call, "the live file is replaced by renaming the temp over it (rename "+src+" -> "+dst+")", "argument paths")
			// find the temp file/ writer values
			var tmpFile, tmpW string
			for _, o := range an.CallsTo(fn, "os.OpenFile") {
				if an.Path(an.CallOf(o).Args[0]) == src {
					tmpFile = an.Path(o.(ssa.Value)) + "#0"
				}
			}
			tmpW = "bufio.NewWriter(" + tmpFile + ")"
			flushOK := an.Cmp{L: "bufio.(*Writer).Flush(" + tmpW + ")", Op: "==", R: "c:nil"}
			syncOK := an.Cmp{L: "os.(*File).Sync(" + tmpFile + ")", Op: "==", R: "c:nil"}
			c.Add(tmpFile != "" && an.GuardedBy(fn, call, flushOK), "R2", fname+":rename-after-flush-ok", call, "the rename is reached only if the temp writer was flushed without error", "edge dominance on the flush result")
			c.Add(tmpFile != "" && an.GuardedBy(fn, call, syncOK), "R2", fname+":rename-after-sync-ok", call, "the rename is reached only if the temp file was synced without error", "edge dominance on the sync result")
			var fl, sy ssa.Instruction
			for _, k := range an.CallsTo(fn, "bufio.(*Writer).Flush") {
				if an.Path(an.CallOf(k).Args[0]) == tmpW {
					fl = k
				}
			}
			for _, k := range an.CallsTo(fn, "os.(*File).Sync") {
				if an.Path(an.CallOf(k).Args[0]) == tmpFile {
					sy = k
				}
			}
			c.Add(fl != nil && sy != nil && an.Dominates(fl, sy), "R2", fname+":flush-before-sync", call, "the temp writer is flushed before the temp file is synced", "dominance")
			if fl != nil {
				late := false
				for _, w := range an.CallsTo(fn, "bufio.(*Writer).WriteString", "bufio.(*Writer).Write", "bufio.(*Writer).WriteByte") {
					if an.Path(an.CallOf(w).Args[0]) == tmpW && an.Reaches(fn, fl, w) {
						late = true
					}
				}
				c.Add(!late, "R2", fname+":no-write-after-flush", fl, "nothing is written to the temp writer after its flush", "reachability")
			}
		}
	}
	c.Floor("R1", "os.OpenFile sites in the snapshotter", nOpen, 3)
	c.Floor("R2", "os.Rename sites in the snapshotter", nRename, 1)

	// R3
	if rp := sm(c, "R3", "Snapshotter", "replay"); rp != nil {
		okRead := an.EdgesWhere(rp, func(f an.Cmp) bool {
			return strings.HasPrefix(f.L, "bufio.(*Reader).ReadString(") && strings.HasSuffix(f.L, "#1") && f.Op == "==" && f.R == "c:nil"
		})
		c.Floor("R3", "ReadString success edges", len(okRead), 1)
		n := 0
		an.Instrs(rp, func(in ssa.Instruction) {
			isState := false
			switch x := in.(type) {
			case *ssa.MapUpdate:
				isState = an.Path(x.Map) == "$0.aliveNodes"
			case *ssa.Store:
				p := an.Path(x.Addr)
				isState = strings.HasPrefix(p, "&$0.") && !strings.Contains(p[4:], ".")
			case *ssa.Call:
				if b, ok := x.Call.Value.(*ssa.Builtin); ok && b.Name() == "delete" {
					isState = true
				}
			}
			if !isState {
				return
			}
			n++
			c.Add(an.Guarded(rp, in, okRead), "R3", "replay:complete-lines-only:"+kindOf(in), in, "replayed state changes only for lines that were read completely (a torn last line is ignored)", "edge dominance on ReadString's error")
		})
		c.Floor("R3", "state updates in replay", n, 8)
		replayEveryLine(c, "R3")
		// the line handed to the parsers is the read line minus its terminator
	}
	// R4 shutdown path (the leave path is C13.R2)
	if st := sm(c, "R4", "Snapshotter", "stream"); st != nil {
		self := "$0"
		for _, in := range an.CallsTo(st, "(*Snapshotter).tryAppend") {
			self = an.Path(an.CallOf(in).Args[0])
		}
		closes := an.FindInstrs(st, func(in ssa.Instruction) bool {
			call, ok := in.(*ssa.Call)
			if !ok {
				return false
			}
			b, ok := call.Call.Value.(*ssa.Builtin)
			return ok && b.Name() == "close" && an.Path(call.Call.Args[0]) == self+".waitCh"
		})
		c.Floor("R4", "shutdown completion sites", len(closes), 1)
		for _, k := range closes {
			var fl, sy ssa.Instruction
			for _, f := range an.CallsTo(st, "bufio.(*Writer).Flush") {
				if an.Dominates(f, k) && an.Path(an.CallOf(f).Args[0]) == self+".buffered" {
					fl = f
				}
			}
			for _, s := range an.CallsTo(st, "os.(*File).Sync") {
				if an.Dominates(s, k) && an.Path(an.CallOf(s).Args[0]) == self+".fh" {
					sy = s
				}
			}
			c.Add(fl != nil && sy != nil && an.Dominates(fl, sy), "R4", "stream:shutdown-flush-then-sync", k, "shutdown is signalled only after the writer was flushed and then the file synced", "dominance")
		}
	}
}

func hex(n int64) string {
	const d = "0123456789abcdef"
	if n == 0 {
		return "0x0"
	}
	s := ""
	for n > 0 {
		s = string(d[n&15]) + s
		n >>= 4
	}
	return "0x" + s
}

// snapshotOpenFlags: the live snapshot is only ever opened append-only, the compaction's temporary file
// only ever truncated (a stale temp left by a crashed or failed compaction must not leak into the next
// one). Shared by C10, C11 and C12.
func snapshotOpenFlags(c *an.Ctx, fn *ssa.Function, ruleLive, ruleTemp string) int {
	n := 0
	fname := an.FuncName(fn)
	for _, call := range an.CallsTo(fn, "os.OpenFile") {
		args := an.CallOf(call).Args
		a := an.Path(args[0])
		flags, okF := an.ConstInt(args[1])
		if !okF {
			c.Undecided(ruleLive, fname+":open-flags", call, "os.OpenFile with non-constant flags")
			continue
		}
		n++
		live := isLivePath(a) && (a != "$0" || fname == "NewSnapshotter")
		if live {
			c.Add(flags&oAPPEND != 0 && flags&oTRUNC == 0, ruleLive, fname+":live-open-append-only", call, "the live snapshot is opened O_APPEND and never O_TRUNC (flags "+hex(flags)+")", "constant flags")
		} else {
			c.Add(strings.HasSuffix(a, `+c:".compact")`) && flags&oTRUNC != 0 && flags&oCREATE != 0 && flags&oAPPEND == 0, ruleTemp, fname+":temp-open-trunc", call, "the temporary file ("+a+") is opened O_TRUNC|O_CREATE so a stale temp from a crashed compaction is harmless", "constant flags")
		}
	}
	return n
}

// replayEveryLine: replay leaves its loop only when the read fails (end of file): after a line that was
// read completely, every path leads back to the next read, whatever the line said. Records behind a
// "leave" marker, an unknown line or an unparsable one still count. Shared by C10, C11, C13 and C14.
func replayEveryLine(c *an.Ctx, rule string) {
	rp := sm(c, rule, "Snapshotter", "replay")
	if rp == nil {
		return
	}
	okRead := an.EdgesWhere(rp, func(f an.Cmp) bool {
		return strings.HasPrefix(f.L, "bufio.(*Reader).ReadString(") && strings.HasSuffix(f.L, "#1") && f.Op == "==" && f.R == "c:nil"
	})
	c.Floor(rule, "ReadString success edges", len(okRead), 1)
	isRead := func(in ssa.Instruction) bool { return an.IsCallTo(in, "bufio.(*Reader).ReadString") }
	for _, e := range okRead {
		out := an.ReachFromBlock(rp, e.To(), &an.Cut{Instrs: isRead}, func(in ssa.Instruction) bool {
			return an.IsExit(in) || an.IsCallTo(in, "os.(*File).Seek")
		})
		c.Add(out == nil, rule, "replay:every-line-read", rp, "after a complete line replay always goes on to the next line: the loop ends only when the read fails (records after a leave marker or an unknown line still count)", "reach/cut: no exit reachable from a successful read without reading again")
		if out != nil {
			c.Obs[len(c.Obs)-1].Desc += " — leaves the loop towards " + c.P.InstrPos(out)
		}
	}
}

func runC12(c *an.Ctx) {
	c.Rule("R1 handle typestate: every store of nil to Snapshotter.fh/buffered is overwritten by a non-nil store before every return of that function")
	c.Rule("R3 error discipline: WriteString/Flush errors on the append path are returned; appendLine's error reaches tryAppend's recovery branch; no error value flows into panic")
	c.Rule("R4 recovery: on an append error compact() is reached behind the retry-interval test only, and compact rewrites from in-memory state")
	c.Rule("R5 the tee goroutine touches no file/handle/alive-set state")
	fns := snapFuncs(c)
	c.Rule("R7 (shared with C10) recovery rewrites the file from the in-memory state, so each recorder updates that state before it appends its line (a recovery triggered by that very append must already contain the change)")
	{
		sub10 := an.NewCtx(c.P, "C10", c.Tier)
		runC10(sub10)
		n7 := 0
		for _, o := range sub10.Obs {
			if o.Rule == "R3" {
				o.Key = "R7|C10:" + o.Key
				o.Rule = "R7"
				c.Obs = append(c.Obs, o)
				n7++
			}
		}
		c.Floor("R7", "state-before-append obligations", n7, 4)
	}
	c.Rule("R6 (shared with C11) the compaction's temporary file is opened truncated and the live file append-only: what a failed compaction left behind does not leak into the file the next compaction installs")
	nO := 0
	for _, fn := range fns {
		nO += snapshotOpenFlags(c, fn, "R6", "R6")
	}
	c.Floor("R6", "os.OpenFile calls of the snapshotter", nO, 3)
	// R1
	nH := 0
	for _, field := range []string{"fh", "buffered"} {
		for _, a := range an.FieldAccesses(fns, "Snapshotter", field) {
			if a.Kind != "store" {
				continue
			}
			nH++
			if !an.IsNilConst(a.Val) {
				continue
			}
			ok, ex := an.MustPass(a.Fn, a.Instr, func(in ssa.Instruction) bool {
				s, isS := in.(*ssa.Store)
				if !isS {
					return false
				}
				t, f, okF := an.FieldOf(s.Addr)
				return okF && t == "Snapshotter" && f == field && !an.IsNilConst(s.Val)
			})
			c.Add(ok, "R1", an.FuncName(a.Fn)+":nil-handle-survives:"+field, a.Instr, "Snapshotter."+field+" is set to nil and a return is reachable without restoring it (a later append/flush dereferences it)", "must-pass a non-nil store before every return")
			if !ok && ex != nil {
				c.Obs[len(c.Obs)-1].Desc += " — offending exit at " + c.P.InstrPos(ex)
			}
		}
	}
	c.Floor("R1", "stores to the snapshot handles", nH, 4)
	// every use of the writer is on a non-nil handle: with no surviving nil store this
	// reduces to the constructor initialising both
	if ns := sf(c, "R1", "NewSnapshotter"); ns != nil {
		okF, okB := false, false
		for _, a := range an.FieldAccesses([]*ssa.Function{ns}, "Snapshotter", "fh") {
			okF = okF || (a.Init && strings.HasPrefix(an.Path(a.Val), "os.OpenFile("))
		}
		for _, a := range an.FieldAccesses([]*ssa.Function{ns}, "Snapshotter", "buffered") {
			okB = okB || (a.Init && strings.HasPrefix(an.Path(a.Val), "bufio.NewWriter("))
		}
		c.Add(okF && okB, "R1", "NewSnapshotter:handles-initialised", ns, "the constructor initialises both handles from a successful open", "init stores")
	}

	// R3
	if al := sm(c, "R3", "Snapshotter", "appendLine"); al != nil {
		for _, call := range an.CallsTo(al, "bufio.(*Writer).WriteString", "bufio.(*Writer).Flush") {
			v := call.(ssa.Value)
			errPath := an.Path(v)
			if strings.Contains(kindOf(call), "WriteString") {
				errPath += "#1"
			}
			// on the error edge every return carries that error
			bad := an.EdgesImplying(al, an.Cmp{L: errPath, Op: "!=", R: "c:nil"})
			ok := len(bad) > 0
			for _, e := range bad {
				r := an.ReachFromBlock(al, e.To(), nil, func(in ssa.Instruction) bool {
					ret, isR := in.(*ssa.Return)
					if !isR || ret.Block().Comment == "recover" {
						return false
					}
					vals := an.ResultValues(ret)
					return len(vals) != 1 || an.Path(vals[0]) != errPath
				})
				if r != nil {
					ok = false
				}
			}
			c.Add(ok, "R3", "appendLine:error-returned:"+kindOf(call), call, "an error of "+kindOf(call)+" is tested and returned to the caller", "edge + reachability: every return after the error edge carries the error")
		}
		c.Floor("R3", "write/flush sites in appendLine", len(an.CallsTo(al, "bufio.(*Writer).WriteString", "bufio.(*Writer).Flush")), 2)
		// compaction result is returned too
		for _, call := range an.CallsTo(al, "(*Snapshotter).compact") {
			used := false
			for _, r := range an.Returns(al) {
				if v := an.ResultValues(r); len(v) == 1 && an.Path(v[0]) == an.Path(call.(ssa.Value)) {
					used = true
				}
			}
			c.Add(used, "R3", "appendLine:compact-error-returned", call, "the result of a size-triggered compaction is returned", "result path")
		}
	}
	// the retry throttle is armed only by a recovery attempt (a routine, size-triggered compaction must not
	// postpone the recovery from a later write error)
	nThr := 0
	for _, a := range an.FieldAccesses(fns, "Snapshotter", "lastAttemptedCompaction") {
		if a.Init || a.Kind != "store" {
			continue
		}
		nThr++
		c.Add(an.FuncName(a.Fn) == "(*Snapshotter).tryAppend" && an.GuardedBy(a.Fn, a.Instr, an.Cmp{L: "(*Snapshotter).appendLine($0,$1)", Op: "!=", R: "c:nil"}), "R4", "throttle-writer:"+an.FuncName(a.Fn), a.Instr, "lastAttemptedCompaction is set only by tryAppend's recovery branch (after a failed append)", "who-may-write + edge dominance")
	}
	c.Floor("R4", "writers of the recovery throttle", nThr, 1)
	appendOrderRule(c, "R3")
	if ta := sm(c, "R4", "Snapshotter", "tryAppend"); ta != nil {
		errEdge := an.Cmp{L: "(*Snapshotter).appendLine($0,$1)", Op: "!=", R: "c:nil"}
		comp := an.CallsTo(ta, "(*Snapshotter).compact")
		c.Floor("R4", "recovery compactions in tryAppend", len(comp), 1)
		for _, k := range comp {
			c.Add(an.GuardedBy(ta, k, errEdge), "R4", "tryAppend:recovery-on-error", k, "compaction is attempted when the append failed", "edge dominance")
			facts := necessaryFacts(ta, k)
			for _, f := range facts {
				ok := f.Implies(errEdge) || (strings.HasPrefix(f.L, "time.(Time).Sub(") && strings.Contains(f.L, ".lastAttemptedCompaction)") && f.Op == ">")
				c.Add(ok, "R4", "tryAppend:recovery-condition:"+f.String(), k, "recovery depends only on the append error and the retry interval (condition "+f.String()+")", "necessary-edge enumeration")
			}
		}
		// the failed-append edge reaches the recovery (nothing returns before the interval test)
		for _, e := range an.EdgesImplying(ta, errEdge) {
			r := an.ReachFromBlock(ta, e.To(), &an.Cut{Edges: an.EdgesWhere(ta, func(f an.Cmp) bool {
				return strings.HasPrefix(f.L, "time.(Time).Sub(") && f.Op == "<="
			})}, an.IsExit)
			_ = r
		}
	}
	// no error flows into a panic; no explicit panic in snapshotter code
	for _, fn := range fns {
		an.Instrs(fn, func(in ssa.Instruction) {
			p, ok := in.(*ssa.Panic)
			if !ok || !p.Pos().IsValid() {
				return
			}
			c.Add(false, "R3", an.FuncName(fn)+":explicit-panic", in, "the snapshotter panics explicitly with "+an.Path(p.X), "")
		})
	}
	// errors of open/sync/rename/seek/stat are branched on (their result is used by an If or returned)
	for _, fn := range fns {
		for _, call := range an.CallsTo(fn, "os.OpenFile", "os.Rename", "os.(*File).Sync", "os.(*File).Seek", "os.(*File).Stat", "bufio.(*Writer).Flush") {
			v := call.(ssa.Value)
			used := false
			var walk func(v ssa.Value, d int)
			walk = func(v ssa.Value, d int) {
				if d > 4 || v.Referrers() == nil {
					return
				}
				for _, r := range *v.Referrers() {
					switch x := r.(type) {
					case *ssa.If, *ssa.Return, *ssa.Store, *ssa.MakeInterface:
						used = true
						_ = x
					case *ssa.Extract:
						if strings.HasSuffix(x.Type().String(), "error") {
							walk(x, d+1)
						}
					case *ssa.BinOp:
						walk(x, d+1)
					case *ssa.Phi:
						walk(x, d+1)
					case *ssa.Call:
						used = true // passed on (e.g. to fmt.Errorf)
					}
				}
			}
			if _, isTuple := v.Type().Underlying().(interface{ Len() int }); isTuple {
				walk(v, 0)
			} else {
				walk(v, 0)
			}
			if !used {
				// the one tolerated discarded result: flushing the file that is about to be replaced
				if an.FuncName(fn) == "(*Snapshotter).compact" && kindOf(call) == "call:bufio.(*Writer).Flush" && an.Path(an.CallOf(call).Args[0]) == "$0.buffered" {
					c.Exemption("(*Snapshotter).compact: _ = s.buffered.Flush()", "flush of the file that is being replaced; its content is rewritten from memory")
					continue
				}
			}
			c.Add(used, "R3", an.FuncName(fn)+":error-branched:"+kindOf(call), call, "the error result of "+kindOf(call)+" is examined", "referrer enumeration")
		}
	}
	// R4b compact rewrites from in-memory state
	if cp := sm(c, "R4", "Snapshotter", "compact"); cp != nil {
		// R4c recovery must not depend on the state of the handles it replaces: a broken (e.g. already closed)
		// old handle keeps failing forever, so no outcome of an operation on s.fh / s.buffered may decide
		// whether compaction goes on
		n := 0
		an.Instrs(cp, func(in ssa.Instruction) {
			call, ok := in.(*ssa.Call)
			if !ok || len(call.Call.Args) == 0 {
				return
			}
			recv := an.Path(call.Call.Args[0])
			if recv != "$0.fh" && recv != "$0.buffered" {
				return
			}
			n++
			used := false
			if refs := call.Referrers(); refs != nil {
				for _, r := range *refs {
					if _, dbg := r.(*ssa.DebugRef); !dbg {
						used = true
					}
				}
			}
			c.Add(!used, "R4", "compact:old-handle-result-ignored:"+kindOf(in), in, "the outcome of "+kindOf(in)+" on the handle being replaced does not influence the compaction (otherwise a handle broken by an earlier fault blocks every later recovery)", "referrer enumeration: result unused")
		})
		c.Floor("R4", "operations on the replaced handles in compact", n, 2)
		reads := map[string]bool{}
		an.Instrs(cp, func(in ssa.Instruction) {
			if u, ok := in.(*ssa.UnOp); ok {
				if t, f, ok := an.LoadedField(u); ok && t == "Snapshotter" {
					reads[f] = true
				}
			}
		})
		ok := reads["aliveNodes"] && reads["lastClock"] && reads["lastEventClock"] && reads["lastQueryClock"]
		c.Add(ok, "R4", "compact:from-memory", cp, "compaction rewrites the file from aliveNodes and the three recorded clocks", "field-read enumeration")
	}
	// R5 tee goroutine shares no handle state
	if ts := sm(c, "R5", "Snapshotter", "teeStream"); ts != nil {
		forbidden := map[string]bool{"fh": true, "buffered": true, "aliveNodes": true, "offset": true, "lastClock": true, "lastEventClock": true, "lastQueryClock": true, "leaving": true, "lastFlush": true}
		for _, f := range append([]*ssa.Function{ts}, ts.AnonFuncs...) {
			an.Instrs(f, func(in ssa.Instruction) {
				fa, ok := in.(*ssa.FieldAddr)
				if !ok {
					return
				}
				if t, fld, ok := an.FieldOf(fa); ok && t == "Snapshotter" && forbidden[fld] {
					c.Add(false, "R5", "teeStream:touches:"+fld, in, "the delivery (tee) goroutine accesses Snapshotter."+fld+", which belongs to the writer goroutine", "")
				}
			})
			for _, call := range an.FindInstrs(f, func(in ssa.Instruction) bool { return an.CallOf(in) != nil }) {
				callee := an.StaticCallee(an.CallOf(call))
				if callee != nil && strings.HasPrefix(an.CalleeName(callee), "(*Snapshotter).") && callee.Parent() == nil && !an.Transparent(callee) {
					c.Add(false, "R5", "teeStream:calls:"+an.CalleeName(callee), call, "the tee goroutine calls into the writer's methods", "")
				}
			}
		}
		c.Add(true, "R5", "teeStream:isolated", ts, "the tee goroutine was scanned for accesses to writer-owned state", "field-access enumeration over teeStream and its closures")
		// the non-blocking hand-off: both forwards are select-with-default
		nb := 0
		for _, f := range append([]*ssa.Function{ts}, ts.AnonFuncs...) {
			an.Instrs(f, func(in ssa.Instruction) {
				if s, ok := in.(*ssa.Select); ok && !s.Blocking {
					for _, st := range s.States {
						if st.Dir == 1 {
							nb++
						}
					}
				}
			})
		}
		c.Add(nb >= 2, "R5", "teeStream:non-blocking", ts, "both hand-offs of the tee are non-blocking, so a stalled writer cannot stop delivery", "select enumeration")
	}
}

// appendOrderRule: appendLine hands the line to the buffered writer before it considers a compaction, and
// nothing but the writer's own error can keep the line from being buffered. (If the compaction came first, a
// failing compaction would drop the line — for the leave marker that means the leave is forgotten.)
func appendOrderRule(c *an.Ctx, rule string) {
	al := sm(c, rule, "Snapshotter", "appendLine")
	if al == nil {
		return
	}
	writes := an.FindInstrs(al, func(in ssa.Instruction) bool {
		return an.IsCallTo(in, "bufio.(*Writer).WriteString") && an.Path(an.CallOf(in).Args[0]) == "$0.buffered" && an.Path(an.CallOf(in).Args[1]) == "$1"
	})
	c.Floor(rule, "buffered writes of the line in appendLine", len(writes), 1)
	for _, w := range writes {
		extra := ""
		for _, f := range necessaryFacts(al, w) {
			extra += f.String() + "; "
		}
		c.Add(extra == "", rule, "appendLine:line-buffered-unconditionally", w, "the line is handed to the buffered writer unconditionally (conditions: "+extra+")", "necessary-edge enumeration")
		for _, k := range an.CallsTo(al, "(*Snapshotter).compact") {
			c.Add(an.Dominates(w, k) && !an.Reaches(al, k, w), rule, "appendLine:buffer-before-compact", k, "a size-triggered compaction is considered only after the line was buffered", "dominance")
		}
	}
}
