package rules

import (
	"go/token"
	"go/types"
	"strings"

	"serfcheck/an"

	"golang.org/x/tools/go/ssa"
)

func init() {
	register(&Rule{
		ID:      "C17",
		Explain: "Decides member-event coalescing structurally, as a sibling rule over every implementation of the coalescer interface: each map field that Coalesce writes (the pending state) is reset on every path of Flush, so a flush reports nothing for members without a new event since the previous flush; pending state is keyed by member name and Flush appends exactly one entry per key; an entry is skipped exactly when the member was reported before with the same kind and the kind is not an update, and the last-reported kind is recorded on every emit path.",
		Run:     runC17,
		Mutants: []Mutant{
			{Name: "member-pending-never-reset", File: "serf/coalesce_member.go", Func: "func (c *memberEventCoalescer) Flush(", Old: "\tc.latestEvents = make(map[string]coalesceEvent)\n", New: "", Expect: "R1"},
			{Name: "user-pending-never-reset", File: "serf/coalesce_user.go", Func: "func (c *userEventCoalescer) Flush(", Old: "\tc.events = make(map[string]*latestUserEvents)\n", New: "", Expect: "R1"},
			{Name: "suppress-updates-too", File: "serf/coalesce_member.go", Func: "func (c *memberEventCoalescer) Flush(", Old: "if ok && previous == cevent.Type && cevent.Type != EventMemberUpdate {", New: "if ok && previous == cevent.Type {", Expect: "R3"},
			{Name: "last-kind-not-recorded", File: "serf/coalesce_member.go", Func: "func (c *memberEventCoalescer) Flush(", Old: "\t\tc.lastEvents[name] = cevent.Type\n", New: "\t\tif cevent.Type != EventMemberUpdate {\n\t\t\tc.lastEvents[name] = cevent.Type\n\t\t}\n", Expect: "R3"},
			{Name: "keyed-by-address", File: "serf/coalesce_member.go", Func: "func (c *memberEventCoalescer) Coalesce(", Old: "c.latestEvents[m.Name] = coalesceEvent{", New: "c.latestEvents[m.Addr.String()] = coalesceEvent{", Expect: "R2"},
			{Name: "suppress-never-seen", File: "serf/coalesce_member.go", Func: "func (c *memberEventCoalescer) Flush(", Old: "if ok && previous == cevent.Type && cevent.Type != EventMemberUpdate {", New: "if previous == cevent.Type && cevent.Type != EventMemberUpdate {", Expect: "R3"},
			{Name: "equiv-reset-with-clear", File: "serf/coalesce_member.go", Func: "func (c *memberEventCoalescer) Flush(", Equivalent: true, Old: "\tc.latestEvents = make(map[string]coalesceEvent)\n", New: "\tclear(c.latestEvents)\n"},
		},
	})
	register(&Rule{
		ID:      "C18",
		Explain: "Decides user-event coalescing structurally: in Coalesce the per-name entry is replaced exactly when absent or strictly older than the new event and the event is appended exactly on equal time (older events write nothing); Flush emits every stored event of every entry in slice order and then resets the map; Handle is true exactly for UserEvent values with Coalesce set; in the coalesce loop an unhandled event is forwarded before the next receive and never passed to Coalesce.",
		Run:     runC18,
		Mutants: []Mutant{
			{Name: "replace-on-equal", File: "serf/coalesce_user.go", Func: "func (c *userEventCoalescer) Coalesce(", Old: "if !ok || latest.LTime < user.LTime {", New: "if !ok || latest.LTime <= user.LTime {", Expect: "R1"},
			{Name: "append-older", File: "serf/coalesce_user.go", Func: "func (c *userEventCoalescer) Coalesce(", Old: "if latest.LTime == user.LTime {", New: "if latest.LTime >= user.LTime {", Expect: "R1"},
			{Name: "handle-all-user-events", File: "serf/coalesce_user.go", Func: "func (c *userEventCoalescer) Handle(", Old: "\treturn user.Coalesce\n", New: "\treturn user.Coalesce || len(user.Payload) == 0\n", Expect: "R3"},
			{Name: "flush-emits-first-only", File: "serf/coalesce_user.go", Func: "func (c *userEventCoalescer) Flush(", Old: "\t\tfor _, e := range latest.Events {\n\t\t\toutChan <- e\n\t\t}\n", New: "\t\tif len(latest.Events) > 0 {\n\t\t\toutChan <- latest.Events[0]\n\t\t}\n", Expect: "R2"},
			{Name: "passthrough-held-back", File: "serf/coalesce.go", Func: "func coalesceLoop(", Old: "\t\t\tif !c.Handle(e) {\n\t\t\t\toutCh <- e\n\t\t\t\tcontinue\n\t\t\t}\n", New: "\t\t\tif !c.Handle(e) && quantum == nil {\n\t\t\t\toutCh <- e\n\t\t\t\tcontinue\n\t\t\t}\n", Expect: "R4"},
			{Name: "flush-emits-reversed", File: "serf/coalesce_user.go", Func: "func (c *userEventCoalescer) Flush(", Old: "\t\tfor _, e := range latest.Events {\n\t\t\toutChan <- e\n\t\t}\n", New: "\t\tfor i := len(latest.Events) - 1; i >= 0; i-- {\n\t\t\toutChan <- latest.Events[i]\n\t\t}\n", Expect: "R2"},
		},
	})
}

// coalescerImpls returns the named struct types of package serf that
// implement the coalescer interface.
func coalescerImpls(c *an.Ctx) []string {
	pk := c.P.ByPkg[serf]
	var out []string
	if pk == nil {
		return nil
	}
	io := pk.Types.Scope().Lookup("coalescer")
	if io == nil {
		c.Anchor("R1", "interface serf.coalescer")
		return nil
	}
	iface, _ := io.Type().Underlying().(*types.Interface)
	if iface == nil {
		return nil
	}
	for _, n := range pk.Types.Scope().Names() {
		tn, ok := pk.Types.Scope().Lookup(n).(*types.TypeName)
		if !ok {
			continue
		}
		if _, isI := tn.Type().Underlying().(*types.Interface); isI {
			continue
		}
		if types.Implements(types.NewPointer(tn.Type()), iface) || types.Implements(tn.Type(), iface) {
			out = append(out, n)
		}
	}
	return out
}

func isResetOf(in ssa.Instruction, field string) bool {
	switch x := in.(type) {
	case *ssa.Store:
		if an.Path(x.Addr) == "&$0."+field {
			_, isMake := x.Val.(*ssa.MakeMap)
			return isMake
		}
	case *ssa.Call:
		if b, ok := x.Call.Value.(*ssa.Builtin); ok && b.Name() == "clear" && len(x.Call.Args) == 1 {
			return an.Path(x.Call.Args[0]) == "$0."+field
		}
	}
	return false
}

func runC17(c *an.Ctx) {
	c.Rule("R1 sibling rule over all coalescer implementations: every map field written by Coalesce is reset (fresh map or clear) on every path of Flush")
	c.Rule("R2 pending member state is keyed by member name; Flush appends one entry per pending key")
	c.Rule("R3 skip ⇔ seen ∧ last == pending ∧ pending != Update; lastEvents[name] is recorded on every emit path")
	impls := coalescerImpls(c)
	c.Floor("R1", "coalescer implementations", len(impls), 2)
	for _, t := range impls {
		co := c.P.Method(serf, t, "Coalesce")
		fl := c.P.Method(serf, t, "Flush")
		if !c.NeedFunc("R1", co, t+".Coalesce") || !c.NeedFunc("R1", fl, t+".Flush") {
			continue
		}
		pending := map[string]bool{}
		an.Instrs(co, func(in ssa.Instruction) {
			if mu, ok := in.(*ssa.MapUpdate); ok {
				p := an.Path(mu.Map)
				if strings.HasPrefix(p, "$0.") && !strings.Contains(p[3:], ".") {
					pending[p[3:]] = true
				}
			}
		})
		c.Floor("R1", "pending map fields of "+t, len(pending), 1)
		for f := range pending {
			ok, _ := an.MustPass(fl, nil, func(in ssa.Instruction) bool { return isResetOf(in, f) })
			c.Add(ok, "R1", t+".Flush:resets:"+f, fl, "Flush resets the pending map "+t+"."+f+" (written by Coalesce) on every path", "must-pass over all exits of Flush")
		}
	}
	// R2 / R3 on the member coalescer
	co := sm(c, "R2", "memberEventCoalescer", "Coalesce")
	fl := sm(c, "R3", "memberEventCoalescer", "Flush")
	if co != nil {
		n := 0
		an.Instrs(co, func(in ssa.Instruction) {
			mu, ok := in.(*ssa.MapUpdate)
			if !ok || an.Path(mu.Map) != "$0.latestEvents" {
				return
			}
			n++
			k := an.Path(mu.Key)
			okKey := strings.HasSuffix(k, ".Name") && strings.Contains(k, ".Members[")
			if !okKey && strings.HasPrefix(k, "local:") && strings.HasSuffix(k, ".Name") {
				// the range variable has its address taken (Member: &m): resolve its single definition
				loc := "&" + strings.TrimSuffix(k, ".Name")
				for _, st := range an.FindInstrs(co, func(in ssa.Instruction) bool { s, ok := in.(*ssa.Store); return ok && an.Path(s.Addr) == loc }) {
					okKey = strings.Contains(an.Path(st.(*ssa.Store).Val), ".(serf.MemberEvent).Members[")
				}
			}
			c.Add(okKey, "R2", "Coalesce:keyed-by-name", in, "pending member events are keyed by the name of a member of the event ("+k+")", "map key path")
			okT := false
			for _, st := range an.StoresTo(co, ".Type") {
				if strings.HasSuffix(an.Path(st.Val), ".(serf.MemberEvent).Type") {
					okT = true
				}
			}
			c.Add(okT, "R2", "Coalesce:records-kind", in, "the pending entry records the event's kind", "field provenance")
		})
		c.Floor("R2", "pending-state updates in Coalesce", n, 1)
		// every member of the event overwrites its pending entry unconditionally
		// (a skipped overwrite would leave an older pending event in place)
		var header, body *ssa.BasicBlock
		for _, b := range co.Blocks {
			if b.Comment == "rangeindex.loop" && header == nil {
				header = b
			}
			if b.Comment == "rangeindex.body" && body == nil {
				body = b
			}
		}
		if header == nil || body == nil {
			// the same loop written with an index: i < len(e.Members)
			for e, facts := range an.EdgeFacts(co) {
				for _, f := range facts {
					if strings.HasPrefix(f.L, "phi@") && f.Op == "<" && strings.HasPrefix(f.R, "len(") && strings.HasSuffix(f.R, ".Members)") {
						header, body = e.From, e.To()
					}
				}
			}
		}
		if header == nil || body == nil {
			c.Anchor("R2", "range loop over the event's members in Coalesce")
		} else {
			isUpd := func(in ssa.Instruction) bool {
				mu, ok := in.(*ssa.MapUpdate)
				return ok && an.Path(mu.Map) == "$0.latestEvents"
			}
			r := an.ReachFromBlock(co, body, &an.Cut{Instrs: isUpd}, func(in ssa.Instruction) bool {
				return in.Block() == header || an.IsExit(in)
			})
			c.Add(r == nil, "R2", "Coalesce:latest-always-overwrites", co, "each member of an incoming event replaces that member's pending entry on every path (the pending entry is always the latest event)", "must-pass within the loop body")
		}
	}
	if fl != nil {
		// what was reported stays as reported: the events a flush sends are built in that flush, from a
		// map made there; nothing sent is rooted in the coalescer's own fields and no member list is
		// truncated for reuse (the application may still hold the previous flush's events)
		c.Rule("R4 every event Flush sends is freshly built in that call (no retained event, no re-sliced member list)")
		nS := 0
		an.Instrs(fl, func(in ssa.Instruction) {
			switch x := in.(type) {
			case *ssa.Send:
				if an.Path(x.Chan) != "$1" {
					return
				}
				nS++
				p := an.Path(x.X)
				c.Add(strings.Contains(p, "make:map@") && !strings.Contains(p, "$0."), "R4", "Flush:sends-fresh-event", in, "the event sent is taken from a map made in this call (sends "+short(p)+")", "value path of the sent event")
			case *ssa.Slice:
				if strings.HasSuffix(an.Path(x.X), ".Members") {
					c.Add(false, "R4", "Flush:members-resliced", in, "a member list is re-sliced in place ("+short(an.Path(x))+"): an event already delivered shares its backing array", "slice enumeration")
				}
			}
		})
		c.Floor("R4", "sends in memberEventCoalescer.Flush", nS, 1)
		rng := "next(range($0.latestEvents))"
		name, typ := rng+"#1", rng+"#2.Type"
		var emit []ssa.Instruction // mapupdate lastEvents[name] = type
		an.Instrs(fl, func(in ssa.Instruction) {
			if mu, ok := in.(*ssa.MapUpdate); ok && an.Path(mu.Map) == "$0.lastEvents" {
				emit = append(emit, in)
				c.Add(an.Path(mu.Key) == name && an.Path(mu.Value) == typ, "R3", "Flush:last-kind-value", in, "the last reported kind of the member is set to the pending kind", "map update path")
			}
		})
		c.Floor("R3", "last-kind updates in Flush", len(emit), 1)
		var appends []ssa.Instruction
		for _, st := range an.StoresTo(fl, ".Members") {
			if call, ok := st.Val.(*ssa.Call); ok {
				if b, ok := call.Call.Value.(*ssa.Builtin); ok && b.Name() == "append" {
					appends = append(appends, st)
				}
			}
		}
		c.Add(len(appends) == 1, "R2", "Flush:one-append-site", fl, "Flush has a single append of a member per pending entry", "store enumeration")
		update := cv(c, serf, "EventMemberUpdate")
		seen := an.Cmp{L: "$0.lastEvents[" + name + "]#1", Op: "==", R: "c:true"}
		same := an.Cmp{L: "$0.lastEvents[" + name + "]#0", Op: "==", R: typ}
		notUpd := an.Cmp{L: typ, Op: "!=", R: update}
		var neg []an.Edge
		neg = append(neg, an.EdgesImplying(fl, an.Cmp{L: seen.L, Op: "==", R: "c:false"})...)
		neg = append(neg, an.EdgesImplying(fl, an.Cmp{L: same.L, Op: "!=", R: typ})...)
		neg = append(neg, an.EdgesImplying(fl, an.Cmp{L: typ, Op: "==", R: update})...)
		for _, a := range appends {
			// emit ⇒ ¬(seen ∧ same ∧ ¬update)
			okNew := an.Guarded(fl, a, neg) || an.GuardedAny(fl, a, an.Cmp{L: seen.L, Op: "==", R: "c:false"}, an.Cmp{L: same.L, Op: "!=", R: typ}, an.Cmp{L: typ, Op: "==", R: update})
			c.Add(okNew, "R3", "Flush:emit-only-when-new", a, "a member is reported only if it was never reported, or its kind changed, or the kind is an update", "edge dominance over the three negated atoms")
			// every emit records the kind first
			dom := false
			for _, e := range emit {
				if an.Dominates(e, a) {
					dom = true
				}
			}
			c.Add(dom, "R3", "Flush:emit-records-kind", a, "every reported member has its last-reported kind recorded", "dominance")
			// one append per loop iteration: from the append the next append is reachable only through the range Next
			again := an.ReachFrom(fl, a, &an.Cut{Instrs: func(in ssa.Instruction) bool { _, ok := in.(*ssa.Next); return ok }}, func(in ssa.Instruction) bool { return in == a })
			c.Add(again == nil, "R2", "Flush:once-per-member", a, "each pending entry is appended at most once per flush", "reach/cut through the range step")
		}
		// skip ⇒ seen ∧ same ∧ ¬update: with each positive atom's edges cut, the loop cannot continue without emitting
		var body *ssa.BasicBlock
		var header *ssa.BasicBlock
		for _, b := range fl.Blocks {
			if b.Comment == "rangeiter.body" && body == nil {
				body = b
			}
			if b.Comment == "rangeiter.loop" && header == nil {
				header = b
			}
		}
		if body == nil || header == nil {
			c.Anchor("R3", "range loop over pending entries in Flush")
		} else {
			isEmit := func(in ssa.Instruction) bool {
				for _, e := range emit {
					if e == in {
						return true
					}
				}
				return false
			}
			for nm, atom := range map[string]an.Cmp{"seen": seen, "same-kind": same, "not-update": notUpd} {
				r := an.ReachFrom(fl, body.Instrs[0], &an.Cut{Edges: an.EdgesImplying(fl, atom), Instrs: isEmit}, func(in ssa.Instruction) bool { return in.Block() == header })
				c.Add(r == nil, "R3", "Flush:skip-requires:"+nm, fl, "an entry is skipped only when '"+nm+"' holds ("+atom.String()+")", "reach/cut: without that edge every path to the next iteration emits")
			}
		}
		// the emitted events are sent
		sends := an.FindInstrs(fl, func(in ssa.Instruction) bool { s, ok := in.(*ssa.Send); return ok && an.Path(s.Chan) == "$1" })
		c.Add(len(sends) >= 1, "R2", "Flush:sends", fl, "Flush sends the assembled events to the output channel", "send enumeration")
	}
}

func runC18(c *an.Ctx) {
	c.Rule("R1 Coalesce: entry replaced iff absent ∨ stored.LTime < new.LTime; appended iff equal; otherwise no write")
	c.Rule("R2 Flush: every stored event of every entry is sent in slice order, then the map is reset")
	c.Rule("R3 Handle is true exactly for UserEvent with Coalesce set")
	c.Rule("R4 coalesce loop: an unhandled event is forwarded before the next receive and never coalesced")
	ev := "$1.(serf.UserEvent)"
	ent := "$0.events[" + ev + ".Name]"
	if co := sm(c, "R1", "userEventCoalescer", "Coalesce"); co != nil {
		absent := an.EdgesImplying(co, an.Cmp{L: ent + "#1", Op: "==", R: "c:false"})
		older := an.EdgesImplying(co, an.Cmp{L: ent + "#0.LTime", Op: "<", R: ev + ".LTime"})
		equal := an.EdgesImplying(co, an.Cmp{L: ent + "#0.LTime", Op: "==", R: ev + ".LTime"})
		nRep, nApp := 0, 0
		an.Instrs(co, func(in ssa.Instruction) {
			switch x := in.(type) {
			case *ssa.MapUpdate:
				if an.Path(x.Map) != "$0.events" {
					return
				}
				nRep++
				c.Add(an.Path(x.Key) == ev+".Name", "R1", "Coalesce:keyed-by-event-name", in, "entries are keyed by the event name", "map key path")
				c.Add(an.Guarded(co, in, append(append([]an.Edge{}, absent...), older...)), "R1", "Coalesce:replace-iff-newer", in, "the entry is replaced only when absent or strictly older than the new event", "edge dominance over {absent, stored < new}")
				okL := false
				for _, st := range an.StoresTo(co, ".LTime") {
					if an.Path(st.Val) == ev+".LTime" {
						okL = true
					}
				}
				c.Add(okL, "R1", "Coalesce:fresh-entry-time", in, "a fresh entry carries the new event's Lamport time", "field provenance")
			case *ssa.Store:
				if !strings.HasSuffix(an.Path(x.Addr), ".Events") {
					return
				}
				if call, ok := x.Val.(*ssa.Call); ok {
					if b, ok := call.Call.Value.(*ssa.Builtin); ok && b.Name() == "append" {
						nApp++
						c.Add(an.Guarded(co, in, equal), "R1", "Coalesce:append-iff-equal", in, "an event is appended only when its time equals the entry's time", "edge dominance")
						c.Add(an.Path(x.Addr) == "&"+ent+"#0.Events", "R1", "Coalesce:append-target", in, "the append targets the entry of that name", "access path")
					}
				}
			}
		})
		c.Add(nRep == 1 && nApp == 1, "R1", "Coalesce:write-sites", co, "Coalesce has exactly one replace site and one append site", "write enumeration")
		// completeness: absent∨older ⇒ replace ; equal ⇒ append
		for nm, es := range map[string][]an.Edge{"absent": absent, "older": older} {
			for _, e := range es {
				to := e.To()
				ok := len(to.Instrs) > 0
				if ok {
					r := an.ReachFromBlock(co, to, &an.Cut{Instrs: func(in ssa.Instruction) bool {
						mu, ok := in.(*ssa.MapUpdate)
						return ok && an.Path(mu.Map) == "$0.events"
					}}, an.IsExit)
					ok = r == nil
				}
				c.Add(ok, "R1", "Coalesce:replaces-when:"+nm, co, "when the entry is "+nm+" it is replaced on every path", "must-pass from the edge")
			}
		}
	}
	if fl := sm(c, "R2", "userEventCoalescer", "Flush"); fl != nil {
		sends := an.FindInstrs(fl, func(in ssa.Instruction) bool { s, ok := in.(*ssa.Send); return ok && an.Path(s.Chan) == "$1" })
		c.Floor("R2", "emit sites in userEventCoalescer.Flush", len(sends), 1)
		for _, s := range sends {
			v := an.Path(s.(*ssa.Send).X)
			ok := strings.HasPrefix(v, "next(range($0.events))#2.Events[(phi:rangeindex@") && strings.HasSuffix(v, "+c:1)]")
			if !ok && strings.HasPrefix(v, "next(range($0.events))#2.Events[") {
				// the same walk with an explicit index: from 0, step 1, while below the slice's length
				if ld, isLd := an.Strip(s.(*ssa.Send).X).(*ssa.UnOp); isLd {
					if ia, isIA := ld.X.(*ssa.IndexAddr); isIA {
						if ph, isPhi := ia.Index.(*ssa.Phi); isPhi && unitStepFromZero(ph) {
							ok = an.GuardedBy(fl, s, an.Cmp{L: an.Path(ph), Op: "<", R: "len(" + an.Path(ia.X) + ")"})
						}
					}
				}
			}
			c.Add(ok, "R2", "Flush:emits-each-in-order", s, "each stored event of each entry is sent in slice order (range over entry.Events): "+v, "value path of the sent element = range element of the entry's slice")
		}
		ok, _ := an.MustPass(fl, nil, func(in ssa.Instruction) bool { return isResetOf(in, "events") })
		c.Add(ok, "R2", "Flush:resets", fl, "the map is reset after the flush", "must-pass")
		// reset comes after the emission loop
		for _, in := range an.FindInstrs(fl, func(in ssa.Instruction) bool { return isResetOf(in, "events") }) {
			back := false
			for _, s := range sends {
				if an.Reaches(fl, in, s) {
					back = true
				}
			}
			c.Add(!back, "R2", "Flush:reset-after-emit", in, "nothing is emitted after the reset", "reachability")
		}
	}
	if h := sm(c, "R3", "userEventCoalescer", "Handle"); h != nil {
		user := cv(c, serf, "EventUser")
		for _, w := range boolWays(h) {
			r, v := w.ret, w.v
			has := func(want an.Cmp) bool {
				for _, f := range w.facts {
					if f.Implies(want) {
						return true
					}
				}
				return an.GuardedBy(h, r, want)
			}
			switch {
			case an.IsConstBool(v, false):
				c.Add(has(an.Cmp{L: "invoke:EventType($1)", Op: "!=", R: user}), "R3", "Handle:false-only-for-other-kinds", r, "Handle returns constant false only for events that are not user events", "edge dominance")
			default:
				p := an.Path(v)
				c.Add(p == ev+".Coalesce" && has(an.Cmp{L: "invoke:EventType($1)", Op: "==", R: user}), "R3", "Handle:coalesce-flag", r, "for user events Handle returns the event's Coalesce flag (got "+p+")", "result path + edge dominance")
			}
		}
	}
	if lp := sf(c, "R4", "coalesceLoop"); lp != nil {
		handled := "invoke:Handle($5,"
		notH := an.EdgesWhere(lp, func(f an.Cmp) bool { return strings.HasPrefix(f.L, handled) && f.Op == "==" && f.R == "c:false" })
		isH := an.EdgesWhere(lp, func(f an.Cmp) bool { return strings.HasPrefix(f.L, handled) && f.Op == "==" && f.R == "c:true" })
		c.Floor("R4", "Handle edges in coalesceLoop", len(notH)+len(isH), 2)
		coal := an.FindInstrs(lp, func(in ssa.Instruction) bool {
			call, ok := in.(*ssa.Call)
			return ok && call.Call.IsInvoke() && call.Call.Method.Name() == "Coalesce"
		})
		for _, k := range coal {
			c.Add(an.Guarded(lp, k, isH), "R4", "coalesceLoop:coalesce-only-handled", k, "only handled events are coalesced", "edge dominance")
			c.Add(strings.HasPrefix(an.Path(an.CallOf(k).Args[0]), "select@"), "R4", "coalesceLoop:coalesce-received", k, "the coalesced event is the one just received", "argument path")
		}
		for _, e := range notH {
			to := e.To()
			if len(to.Instrs) == 0 {
				continue
			}
			isFwd := func(in ssa.Instruction) bool {
				s, ok := in.(*ssa.Send)
				return ok && an.Path(s.Chan) == "$1" && strings.HasPrefix(an.Path(s.X), "select@")
			}
			isSel := func(in ssa.Instruction) bool { _, ok := in.(*ssa.Select); return ok }
			ok := isFwd(to.Instrs[0])
			if !ok {
				r := an.ReachFromBlock(lp, to, &an.Cut{Instrs: isFwd}, func(in ssa.Instruction) bool {
					return isSel(in) || an.IsExit(in)
				})
				ok = r == nil
			}
			c.Add(ok, "R4", "coalesceLoop:passthrough-immediate", to.Instrs[0], "an unhandled event is forwarded to the output before the loop receives again", "must-pass from the not-handled edge to the next select")
		}
		// the not-handled decision depends on nothing else
		for _, s := range an.FindInstrs(lp, func(in ssa.Instruction) bool {
			s, ok := in.(*ssa.Send)
			return ok && an.Path(s.Chan) == "$1"
		}) {
			facts := necessaryFacts(lp, s)
			for _, f := range facts {
				ok := strings.HasPrefix(f.L, handled) || strings.HasPrefix(f.L, "select@")
				c.Add(ok, "R4", "coalesceLoop:passthrough-condition:"+f.String(), s, "pass-through depends only on Handle(e) being false (condition "+f.String()+")", "necessary-edge enumeration")
			}
		}
	}
}

// unitStepFromZero: phi is a loop counter that starts at 0 and is only ever advanced by exactly 1.
func unitStepFromZero(phi *ssa.Phi) bool {
	zero, step := false, false
	for _, e := range phi.Edges {
		if n, isC := an.ConstInt(e); isC {
			if n != 0 {
				return false
			}
			zero = true
			continue
		}
		b, isB := e.(*ssa.BinOp)
		if !isB || b.Op != token.ADD || b.X != ssa.Value(phi) {
			return false
		}
		if n, isC := an.ConstInt(b.Y); !isC || n != 1 {
			return false
		}
		step = true
	}
	return zero && step
}
