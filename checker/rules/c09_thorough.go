package rules

import (
	"bufio"
	"bytes"
	"fmt"
	"os"
	"os/exec"
	"regexp"
	"sort"
	"strconv"
	"strings"

	"serfcheck/an"

	"golang.org/x/tools/go/ssa"
)

const pkgCodec = "github.com/hashicorp/go-msgpack/v2/codec"

// c09Thorough adds the two audits of the thorough tier:
//
//	DA  the part of the trusted base that lives in a dependency's source and can be read: go-msgpack's
//	    (*Decoder).Decode recovers panics raised below it, and the module decodes only through Decode;
//	BCE completeness of the P1 enumeration against the compiler: every bounds check the Go compiler could
//	    not eliminate inside a reachable function is one of the enumerated P1 obligations (same file:line).
func c09Thorough(c *an.Ctx, fns []*ssa.Function, obs []pob) {
	c.Rule("DA (thorough) go-msgpack (*Decoder).Decode installs a deferred recover before it decodes; no module function calls MustDecode or a decoder entry other than Decode")
	c.Rule("BCE (thorough) every IsInBounds/IsSliceInBounds the compiler keeps in a reachable function (go build -gcflags='-d=ssa/check_bce/debug=1 -l', inlining off so that positions are the function's own) is an enumerated P1 obligation at that line")
	// ---- DA
	dec := c.P.Method(pkgCodec, "Decoder", "Decode")
	if c.NeedFunc("DA", dec, "codec.(*Decoder).Decode") {
		var rec ssa.Instruction
		an.Instrs(dec, func(in ssa.Instruction) {
			d, ok := in.(*ssa.Defer)
			if !ok {
				return
			}
			var fn *ssa.Function
			switch v := d.Call.Value.(type) {
			case *ssa.MakeClosure:
				fn, _ = v.Fn.(*ssa.Function)
			case *ssa.Function:
				fn = v
			}
			if fn == nil {
				return
			}
			an.Instrs(fn, func(x ssa.Instruction) {
				if call, ok := x.(*ssa.Call); ok {
					if b, ok := call.Call.Value.(*ssa.Builtin); ok && b.Name() == "recover" {
						rec = in
					}
				}
			})
		})
		work := an.CallsTo(dec, "codec.(*Decoder).mustDecode")
		// edges a constant condition can never take (recoverPanicToErr is a package constant)
		var dead []an.Edge
		for _, b := range dec.Blocks {
			if ifi, isIf := b.Instrs[len(b.Instrs)-1].(*ssa.If); isIf {
				if an.IsConstBool(ifi.Cond, true) {
					dead = append(dead, an.Edge{From: b, Succ: 1})
				} else if an.IsConstBool(ifi.Cond, false) {
					dead = append(dead, an.Edge{From: b, Succ: 0})
				}
			}
		}
		ok := rec != nil && len(work) > 0
		if ok {
			isWork := func(in ssa.Instruction) bool { return an.IsCallTo(in, "codec.(*Decoder).mustDecode") }
			ok = an.ReachFrom(dec, nil, &an.Cut{Edges: dead, Instrs: func(in ssa.Instruction) bool { return in == rec }}, isWork) == nil
		}
		c.Add(ok, "DA", "codec.Decode:recovers", dec, "go-msgpack's Decode defers a recover() before every call of its decoding worker (a malformed body becomes an error, not a panic)", "defer/recover enumeration + dominance in the dependency's SSA")
	}
	nDec := 0
	for _, f := range c.P.FuncsIn(serf, an.PkgCoord, agent, clientPkg) {
		an.Instrs(f, func(in ssa.Instruction) {
			cc := an.CallOf(in)
			if cc == nil {
				return
			}
			callee := an.StaticCallee(cc)
			if callee == nil || an.PkgPathOf(callee) != pkgCodec || callee.Signature.Recv() == nil {
				return
			}
			if !strings.Contains(callee.Signature.Recv().Type().String(), "Decoder") {
				return
			}
			nDec++
			c.Add(callee.Name() == "Decode", "DA", "decoder-entry:"+an.FuncName(f)+":"+callee.Name(), in, "the module decodes only through (*Decoder).Decode (the recovering entry)", "who-may-call")
		})
	}
	c.Floor("DA", "decoder calls in the module", nDec, 3)

	// ---- BCE
	type rng struct {
		file   string
		lo, hi int
		fn     *ssa.Function
	}
	var ranges []rng
	for _, f := range fns {
		syn := f.Syntax()
		if syn == nil {
			continue
		}
		a, b := c.P.Fset.Position(syn.Pos()), c.P.Fset.Position(syn.End())
		ranges = append(ranges, rng{a.Filename, a.Line, b.Line, f})
	}
	have := map[string]bool{}
	for _, o := range obs {
		if o.kind != "P1" {
			continue
		}
		pos := o.in.Pos()
		if !pos.IsValid() {
			continue
		}
		p := c.P.Fset.Position(pos)
		have[p.Filename+":"+strconv.Itoa(p.Line)] = true
	}
	cmd := exec.Command("go", "build", "-gcflags=-d=ssa/check_bce/debug=1 -l", "./serf/", "./coordinate/")
	cmd.Dir = c.P.Dir
	cmd.Env = append(os.Environ(), "GOFLAGS=-mod=mod", "GOPROXY=off", "GOSUMDB=off", "GOTOOLCHAIN=local", "GOWORK=off")
	var out bytes.Buffer
	cmd.Stdout, cmd.Stderr = &out, &out
	err := cmd.Run()
	re := regexp.MustCompile(`^(\S+\.go):(\d+):(\d+): Found (IsInBounds|IsSliceInBounds)`)
	nLines, nIn := 0, 0
	missing := map[string]string{}
	sc := bufio.NewScanner(&out)
	for sc.Scan() {
		m := re.FindStringSubmatch(sc.Text())
		if m == nil {
			continue
		}
		nLines++
		line, _ := strconv.Atoi(m[2])
		for _, r := range ranges {
			if strings.HasSuffix(r.file, "/"+m[1]) && r.lo <= line && line <= r.hi {
				nIn++
				if !have[r.file+":"+m[2]] {
					missing[m[1]+":"+m[2]] = an.FuncName(r.fn) + " " + m[4]
				}
				break
			}
		}
	}
	if err != nil && nLines == 0 {
		c.Undecided("BCE", "compiler-run", nil, "go build for the bounds-check listing failed: "+err.Error()+" "+firstLine(out.String()))
		return
	}
	c.Floor("BCE", "bounds checks the compiler keeps in serf+coordinate", nLines, 60)
	c.Floor("BCE", "of those, inside functions reachable from the network", nIn, 10)
	var keys []string
	for k := range missing {
		keys = append(keys, k)
	}
	sort.Strings(keys)
	for _, k := range keys {
		c.Undecided("BCE", "unenumerated:"+missing[k], nil, "the compiler keeps a bounds check at "+k+" ("+missing[k]+") that the P1 enumeration did not produce")
	}
	c.Add(len(keys) == 0, "BCE", "enumeration-complete", nil, fmt.Sprintf("all %d bounds checks the compiler keeps inside the %d reachable functions are enumerated P1 obligations (%d kept in the two packages)", nIn, len(ranges), nLines), "cross-check against the compiler's bounds-check-elimination report")
}

func firstLine(s string) string {
	if i := strings.IndexByte(s, '\n'); i >= 0 {
		return s[:i]
	}
	return s
}
