package rules

import (
	"strings"

	"serfcheck/an"

	"golang.org/x/tools/go/ssa"
)

func init() {
	register(&Rule{
		ID:      "C19",
		Explain: "Decides the Lamport clock's monotonicity for every interleaving by a linearisation argument over shape facts: the counter is written only through atomic Add(+c, c>=1) and CompareAndSwap (no Store/Swap anywhere in the module); the CAS's expected value is the value loaded in the same iteration, its new value is other+c (c>=1) on a path where other >= loaded, so each successful step strictly increases the counter; a failed CAS re-executes the load; Increment returns the result of its single Add (distinct per call by atomicity). The remaining clause 'strictly greater for every representable value' needs other != MaxUint64 before other+1: absent today (one gossip message with time 2^64-1 wraps the clock to 0) — recorded as a known finding because no uint64 clock can satisfy the clause at that value.",
		Run:     runC19,
		Mutants: []Mutant{
			{Name: "witness-plain-store", File: "serf/lamport.go", Func: "func (l *LamportClock) Witness(", Old: "\tif !l.counter.CompareAndSwap(cur, other+1) {\n", New: "\tl.counter.Store(other + 1)\n\tif false {\n", Expect: "R1"},
			{Name: "witness-allows-equal-noop", File: "serf/lamport.go", Func: "func (l *LamportClock) Witness(", Old: "if other < cur {", New: "if other <= cur {", Expect: "R2"},
			{Name: "witness-no-plus-one", File: "serf/lamport.go", Func: "func (l *LamportClock) Witness(", Old: "CompareAndSwap(cur, other+1)", New: "CompareAndSwap(cur, other)", Expect: "R2"},
			{Name: "witness-stale-expected", File: "serf/lamport.go", Func: "func (l *LamportClock) Witness(", Old: "WITNESS:\n\t// If the other value is old, we do not need to do anything\n\tcur := l.counter.Load()\n", New: "\tcur := l.counter.Load()\nWITNESS:\n", Expect: "R2"},
			{Name: "increment-returns-load", File: "serf/lamport.go", Func: "func (l *LamportClock) Increment(", Old: "return LamportTime(l.counter.Add(1))", New: "l.counter.Add(1)\n\treturn LamportTime(l.counter.Load())", Expect: "R4"},
			{Name: "increment-by-zero", File: "serf/lamport.go", Func: "func (l *LamportClock) Increment(", Old: "l.counter.Add(1)", New: "l.counter.Add(0)", Expect: "R1"},
			{Name: "reset-elsewhere", File: "serf/snapshot.go", Func: "func (s *Snapshotter) updateClock(", Old: "\tlastSeen := s.clock.Time() - 1\n", New: "\tlastSeen := s.clock.Time() - 1\n\tif lastSeen > 1<<62 {\n\t\ts.clock.counter.Store(0)\n\t}\n", Expect: "R1"},
		},
	})
	register(&Rule{
		ID:      "C06",
		Explain: "Decides uniqueness and causal lateness of locally originated Lamport times structurally: in Serf.UserEvent and Serf.Query the LTime stored into the originated message is (up to a constant offset >= -1) the result of ONE LamportClock.Increment() on the matching clock — a single atomic fetch-add, hence distinct for concurrent callers and not below the clock value at call entry — never a Time() read that is advanced by a separate later step; the receive handlers witness every processed time first (C05/C14), so it exceeds every time already processed; the query-response table is keyed by that same value.",
		Run:     runC06,
		Mutants: []Mutant{
			{Name: "own-queries-not-witnessed", File: "serf/serf.go", Func: "func (s *Serf) handleQuery(", Old: "\ts.queryClock.Witness(query.LTime)\n", New: "\tif query.SourceNode != s.config.NodeName {\n\t\ts.queryClock.Witness(query.LTime)\n\t}\n", Expect: "R4"},
			{Name: "userevent-read-then-increment", File: "serf/serf.go", Func: "func (s *Serf) UserEvent(", Old: "LTime:   s.eventClock.Increment() - 1,", New: "LTime:   s.eventClock.Time(),", Expect: "R1"},
			{Name: "query-read-time", File: "serf/serf.go", Func: "func (s *Serf) Query(", Old: "LTime:       s.queryClock.Increment() - 1,", New: "LTime:       s.queryClock.Time(),", Expect: "R1"},
			{Name: "query-wrong-clock", File: "serf/serf.go", Func: "func (s *Serf) Query(", Old: "s.queryClock.Increment() - 1,", New: "s.eventClock.Increment() - 1,", Expect: "R1"},
			{Name: "userevent-offset-two", File: "serf/serf.go", Func: "func (s *Serf) UserEvent(", Old: "s.eventClock.Increment() - 1,", New: "s.eventClock.Increment() - 2,", Expect: "R2"},
			{Name: "witness-exits-on-equal", File: "serf/lamport.go", Func: "func (l *LamportClock) Witness(", Old: "if other < cur {", New: "if other <= cur && cur > 1 {", Expect: "R2"},
			{Name: "response-keyed-by-id", File: "serf/query.go", Func: "func newQueryResponse(", Old: "lTime:     q.LTime,", New: "lTime:     LamportTime(q.ID),", Expect: "R3"},
		},
	})
}

const maxU64 = "c:18446744073709551615"

func runC19(c *an.Ctx) {
	c.Rule("R1 who-may-write LamportClock.counter: atomic Add with a constant >= 1 and CompareAndSwap only (no Store/Swap/And/Or), module-wide")
	c.Rule("R2 CAS: expected = value loaded in the same iteration; new = other + c, c >= 1, on a path with other >= loaded; failed CAS re-executes the load")
	c.Rule("R3 no wrap: the CAS is dominated by other != MaxUint64 (or the new value saturates)")
	c.Rule("R4 Increment returns the result of its single Add; Time returns a plain Load")
	counterWriters(c, "R1")

	witnessRules(c, true)
	// R4
	if inc := sm(c, "R4", "LamportClock", "Increment"); inc != nil {
		adds := an.CallsTo(inc, "atomic.(*Uint64).Add")
		ok := len(adds) == 1
		for _, r := range an.Returns(inc) {
			if an.Path(an.ResultValues(r)[0]) != "atomic.(*Uint64).Add(&$0.counter,c:1)" {
				ok = false
			}
		}
		c.Add(ok, "R4", "Increment:returns-add", inc, "Increment returns the value produced by its single atomic Add(1)", "result path")
	}
	if tm := sm(c, "R4", "LamportClock", "Time"); tm != nil {
		ok := true
		for _, r := range an.Returns(tm) {
			if an.Path(an.ResultValues(r)[0]) != "atomic.(*Uint64).Load(&$0.counter)" {
				ok = false
			}
		}
		c.Add(ok, "R4", "Time:plain-load", tm, "Time is an atomic load of the counter", "result path")
	}
}

// witnessRules checks the shape of LamportClock.Witness (C19.R2/R3). C06 and
// C03 rely on its post-condition (after Witness(v) the clock exceeds v), so
// C06 re-checks it with wrap=false (the MaxUint64 obligation stays C19's).
func witnessRules(c *an.Ctx, wrap bool) {
	if w := sm(c, "R2", "LamportClock", "Witness"); w != nil {
		load := "atomic.(*Uint64).Load(&$0.counter)"
		cas := an.CallsTo(w, "atomic.(*Uint64).CompareAndSwap")
		c.Floor("R2", "CAS sites in Witness", len(cas), 1)
		for _, k := range cas {
			a := an.CallOf(k).Args
			c.Add(an.Path(a[1]) == load, "R2", "Witness:cas-expected", k, "the CAS expects the value loaded from the counter ("+an.Path(a[1])+")", "access path")
			// the load feeding the CAS is in the retry loop: the failed edge re-executes it
			var ldInstr ssa.Instruction
			if cl, ok := an.Strip(an.CallerValue(an.Strip(a[1]))).(*ssa.Call); ok {
				ldInstr = cl
			}
			nv, okNew := an.Strip(a[2]).(*ssa.BinOp)
			okShape := false
			if okNew && nv.Op.String() == "+" {
				if n, isC := an.ConstInt(nv.Y); isC && n >= 1 && an.Path(nv.X) == "$1" {
					okShape = true
				}
			}
			c.Add(okShape, "R2", "Witness:cas-new", k, "the CAS installs other + c with c >= 1 ("+an.Path(a[2])+")", "value shape")
			c.Add(an.GuardedBy(w, k, an.Cmp{L: "$1", Op: ">=", R: load}), "R2", "Witness:cas-guard", k, "the CAS runs only when other >= loaded value (the early return is strict '<', so witnessing the current value still advances)", "edge dominance")
			failed := an.EdgesImplying(w, an.Cmp{L: an.Path(k.(ssa.Value)), Op: "==", R: "c:false"})
			okRetry := len(failed) > 0 && ldInstr != nil
			for _, e := range failed {
				to := e.To()
				if len(to.Instrs) == 0 {
					okRetry = false
					continue
				}
				start := to.Instrs[0]
				reach := start == k
				if !reach && start != ldInstr {
					reach = an.ReachFrom(w, start, &an.Cut{Instrs: func(in ssa.Instruction) bool { return in == ldInstr }}, func(in ssa.Instruction) bool { return in == k }) != nil
				}
				if reach {
					okRetry = false
				}
			}
			c.Add(okRetry, "R2", "Witness:retry-reloads", k, "a failed CAS leads back to a fresh load before the next CAS", "reach/cut from the failed edge")
			if wrap {
				noWrap := anyGuard(w, k, an.Cmp{L: "$1", Op: "!=", R: maxU64}, an.Cmp{L: "$1", Op: "<", R: maxU64})
				c.Add(noWrap, "R3", "Witness:no-wrap", k, "other+1 cannot wrap: the CAS is dominated by other != MaxUint64", "edge dominance")
			}
		}
		// every return is behind other < loaded or a successful CAS
		for _, r := range an.Returns(w) {
			ok := false
			if an.GuardedBy(w, r, an.Cmp{L: "$1", Op: "<", R: load}) {
				ok = true
			}
			for _, k := range cas {
				if an.GuardedBy(w, r, an.Cmp{L: an.Path(k.(ssa.Value)), Op: "==", R: "c:true"}) {
					ok = true
				}
			}
			c.Add(ok, "R2", "Witness:post-condition", r, "Witness returns only when the counter already exceeds the value or its CAS to value+1 succeeded", "edge dominance per return")
		}
	}
}

func runC06(c *an.Ctx) {
	c.Rule("R1 the LTime of an originated messageUserEvent / messageQuery is (Increment() on the matching clock) ± constant: one atomic read-modify-write")
	c.Rule("R2 the offset is >= -1 (value >= clock at call entry)")
	c.Rule("R3 the query-response table is keyed by that same LTime")
	c.Rule("R2' (shared with C19) Witness(v) returns only with the clock above v, so an originated time exceeds every time witnessed before the call")
	witnessRules(c, false)
	c.Rule("R3 (shared with C19) the clocks only move forward: the counter is modified by Add(+c) and by Witness's CompareAndSwap only — no roll-back of an allocated time")
	counterWriters(c, "R3")
	// "everything the node has already processed": each handler witnesses the message's time on its clock
	// on every path, whatever the message says (its source, its age, whether it is a duplicate)
	c.Rule("R4 every message handler witnesses the message's Lamport time on the matching clock unconditionally")
	for _, k := range []struct{ method, clock string }{{"handleUserEvent", "eventClock"}, {"handleQuery", "queryClock"}, {"handleNodeJoinIntent", "clock"}, {"handleNodeLeaveIntent", "clock"}} {
		fn := sm(c, "R4", "Serf", k.method)
		if fn == nil {
			continue
		}
		isW := func(in ssa.Instruction) bool {
			if !an.IsCallTo(in, "(*LamportClock).Witness") {
				return false
			}
			a := an.CallOf(in).Args
			return an.Path(a[0]) == "&$0."+k.clock && an.Path(a[1]) == "$1.LTime"
		}
		ok, ex := an.MustPass(fn, nil, isW)
		c.Add(ok, "R4", k.method+":witness-always", fn, k.method+" witnesses the message's time on "+k.clock+" on every path to its return", "must-pass")
		if !ok && ex != nil {
			c.Obs[len(c.Obs)-1].Desc += " — exit without it at " + c.P.InstrPos(ex)
		}
	}
	for _, k := range []struct{ method, msg, clock string }{{"UserEvent", "messageUserEvent", "eventClock"}, {"Query", "messageQuery", "queryClock"}} {
		fn := sm(c, "R1", "Serf", k.method)
		if fn == nil {
			continue
		}
		n := 0
		for _, st := range an.StoresTo(fn, ".LTime") {
			if t, _, _ := an.FieldOf(st.Addr); t != k.msg {
				continue
			}
			n++
			p := an.Path(st.Val)
			inc := "(*LamportClock).Increment(&$0." + k.clock + ")"
			okAtomic := p == inc || strings.HasPrefix(p, "("+inc+"-c:") || strings.HasPrefix(p, "("+inc+"+c:")
			c.Add(okAtomic, "R1", k.method+":ltime-atomic", st, "the originated "+k.msg+" takes its Lamport time from a single atomic Increment() of "+k.clock+" (got "+p+")", "value path")
			okOff := p == inc || strings.HasPrefix(p, "("+inc+"+c:") || p == "("+inc+"-c:1)"
			if okAtomic {
				c.Add(okOff, "R2", k.method+":ltime-offset", st, "the time is not below the clock value at call entry (offset >= -1)", "value path")
			}
		}
		c.Floor("R1", "LTime stores of "+k.msg+" in "+k.method, n, 1)
		// no second, separate advance of the same clock that the time depends on: exactly one Increment call
		incs := an.FindInstrs(fn, func(in ssa.Instruction) bool {
			// a call that advances this clock, directly or through a transparent one-line helper
			call, ok := in.(*ssa.Call)
			return ok && strings.Contains(an.Path(call), "(*LamportClock).Increment(&$0."+k.clock+")")
		})
		c.Add(len(incs) == 1, "R1", k.method+":single-advance", fn, "exactly one advance of "+k.clock+" per originated message", "call enumeration")
	}
	// R3
	if nq := sf(c, "R3", "newQueryResponse"); nq != nil {
		ok := false
		for _, st := range an.StoresTo(nq, ".lTime") {
			ok = an.Path(st.Val) == "$1.LTime"
		}
		c.Add(ok, "R3", "newQueryResponse:ltime", nq, "the response tracker records the query's Lamport time", "field provenance")
	}
	if rq := sm(c, "R3", "Serf", "registerQueryResponse"); rq != nil {
		ok := false
		an.Instrs(rq, func(in ssa.Instruction) {
			if mu, isMU := in.(*ssa.MapUpdate); isMU && an.Path(mu.Map) == "$0.queryResponse" {
				ok = an.Path(mu.Key) == "$2.lTime" && an.Path(mu.Value) == "$2"
			}
		})
		c.Add(ok, "R3", "registerQueryResponse:key", rq, "the tracker is registered under its own Lamport time", "map update path")
	}
	if q := c.P.Method(serf, "Serf", "Query"); q != nil {
		enc := an.CallsTo(q, "encodeMessage")
		nr := an.CallsTo(q, "newQueryResponse")
		ok := len(enc) == 1 && len(nr) == 1 && an.Path(an.CallOf(enc[0]).Args[1]) == an.Path(an.CallOf(nr[0]).Args[1])
		c.Add(ok, "R3", "Query:same-message", q, "the tracker is built from the very message that is encoded and broadcast", "access path")
	}
}

// counterWriters decides who may modify LamportClock.counter and how (shared by C19.R1 and C06.R3: a
// clock that can be set back hands out a time the node has already processed).
func counterWriters(c *an.Ctx, rule string) {
	nW := 0
	for _, fn := range c.P.Funcs {
		an.Instrs(fn, func(in ssa.Instruction) {
			call := an.CallOf(in)
			if call == nil || len(call.Args) == 0 {
				return
			}
			t, f, ok := an.FieldOf(call.Args[0])
			if !ok || t != "LamportClock" || f != "counter" {
				// the address may also escape: any other use of &x.counter is flagged below
				return
			}
			callee := an.StaticCallee(call)
			name := ""
			if callee != nil {
				name = an.CalleeName(callee)
			}
			switch name {
			case "atomic.(*Uint64).Load":
				return
			case "atomic.(*Uint64).Add":
				nW++
				n, isC := an.ConstInt(call.Args[1])
				c.Add(isC && n >= 1, rule, "counter-writer:"+an.FuncName(fn)+":Add", in, "Add on the counter uses a constant increment >= 1", "constant argument")
			case "atomic.(*Uint64).CompareAndSwap":
				nW++
				c.Add(an.FuncName(fn) == "(*LamportClock).Witness", rule, "counter-writer:"+an.FuncName(fn)+":CAS", in, "CompareAndSwap on the counter only in Witness", "who-may-write")
			default:
				nW++
				c.Add(false, rule, "counter-writer:"+an.FuncName(fn)+":"+name, in, "the counter is modified through "+name+" (only Add(+c) and CompareAndSwap preserve monotonicity)", "")
			}
		})
		// the counter's address must not be taken for anything but a direct atomic call
		an.Instrs(fn, func(in ssa.Instruction) {
			fa, ok := in.(*ssa.FieldAddr)
			if !ok {
				return
			}
			if t, f, ok := an.FieldOf(fa); !ok || t != "LamportClock" || f != "counter" {
				return
			}
			for _, r := range *fa.Referrers() {
				if cc := an.CallOf(r); cc != nil && len(cc.Args) > 0 && cc.Args[0] == ssa.Value(fa) {
					continue
				}
				if _, dbg := r.(*ssa.DebugRef); dbg {
					continue
				}
				c.Add(false, rule, "counter-address-escapes:"+an.FuncName(fn), r, "the counter's address is used other than as the receiver of an atomic call", "")
			}
		})
	}
	c.Floor(rule, "modifying operations on LamportClock.counter", nW, 2)
}
