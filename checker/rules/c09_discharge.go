package rules

import (
	"go/token"
	"go/types"
	"strconv"
	"strings"

	"serfcheck/an"

	"golang.org/x/tools/go/ssa"
)

type discharger struct {
	c     *an.Ctx
	cg    *an.CG
	locks *an.Locks
	reach map[*ssa.Function]bool
	memo  map[string]bool
}

func (d *discharger) lk() *an.Locks {
	if d.locks == nil {
		d.locks = an.NewLocks(d.c.P)
	}
	return d.locks
}

// lenAtLeast reports whether target is edge-dominated by facts establishing
// len(xpath) >= need.
func lenAtLeast(fn *ssa.Function, target ssa.Instruction, xpath string, need int64) bool {
	if need <= 0 {
		return true
	}
	l := "len(" + xpath + ")"
	edges := an.EdgesWhere(fn, func(f an.Cmp) bool {
		if f.L != l || !strings.HasPrefix(f.R, "c:") {
			return false
		}
		n, err := strconv.ParseInt(strings.TrimPrefix(f.R, "c:"), 10, 64)
		if err != nil {
			return false
		}
		switch f.Op {
		case ">":
			return n+1 >= need
		case ">=":
			return n >= need
		case "==":
			return n >= need
		case "!=":
			return n == 0 && need <= 1
		}
		return false
	})
	if an.Guarded(fn, target, edges) {
		return true
	}
	// asked inside a transparent helper about one of its parameters: every call site may carry the guard
	if sites := an.HelperSites(fn); len(sites) > 0 && target.Parent() == fn && strings.HasPrefix(xpath, "$") {
		k, rest := 0, ""
		for i := 1; i < len(xpath) && xpath[i] >= '0' && xpath[i] <= '9'; i++ {
			k = k*10 + int(xpath[i]-'0')
			rest = xpath[i+1:]
		}
		for _, cs := range sites {
			if k >= len(cs.Call.Args) || !lenAtLeast(cs.Parent(), cs, an.Path(cs.Call.Args[k])+rest, need) {
				return false
			}
		}
		return true
	}
	return false
}

// foundIndexOf returns the path of a slices.Index/IndexFunc call over xp whose result is known to be
// non-negative on every path to target ("" when there is none).
func foundIndexOf(fn *ssa.Function, target ssa.Instruction, xp string) string {
	for _, f := range necessaryFacts(fn, target) {
		if !strings.HasPrefix(f.L, "slices.Index") || !strings.Contains(f.L, "]("+xp+",") {
			continue
		}
		if (f.Op == ">=" && f.R == "c:0") || (f.Op == ">" && f.R == "c:-1") || (f.Op == "!=" && f.R == "c:-1") {
			return f.L
		}
	}
	return ""
}

func nonNegIndex(v ssa.Value) bool {
	p := an.Path(v)
	if strings.HasPrefix(p, "(phi:rangeindex@") && strings.HasSuffix(p, "+c:1)") {
		return true
	}
	if phi, ok := v.(*ssa.Phi); ok {
		// i := 0; ...; i++  — edges are 0 or self+positive constant
		for _, e := range phi.Edges {
			if n, isC := an.ConstInt(e); isC && n >= 0 {
				continue
			}
			if b, isB := e.(*ssa.BinOp); isB && b.Op == token.ADD && b.X == ssa.Value(phi) {
				if n, isC := an.ConstInt(b.Y); isC && n >= 0 {
					continue
				}
			}
			return false
		}
		return true
	}
	if n, ok := an.ConstInt(v); ok && n >= 0 {
		return true
	}
	return false
}

// discharge returns a non-empty explanation when a rule proves the
// obligation cannot panic.
func (d *discharger) discharge(o pob) string {
	switch o.kind {
	case "P1":
		return d.p1(o)
	case "P2":
		return d.p2(o)
	case "P3":
		return d.p3(o)
	case "P4":
		return d.p4(o)
	case "P5":
		return d.p5(o)
	case "P6":
		return d.p6(o)
	case "P7":
		return d.p7(o)
	}
	return ""
}

// ---------------------------------------------------------------------------
// P1 index / slice

func (d *discharger) p1(o pob) string {
	fn := o.fn
	var x, idx, lo, hi ssa.Value
	isSlice := false
	switch in := o.in.(type) {
	case *ssa.IndexAddr:
		x, idx = in.X, in.Index
	case *ssa.Index:
		x, idx = in.X, in.Index
	case *ssa.Lookup:
		x, idx = in.X, in.Index
	case *ssa.Slice:
		x, lo, hi = in.X, in.Low, in.High
		isSlice = true
		if in.Max != nil {
			return ""
		}
	}
	xp := an.Path(x)
	// D0 constant index into a fixed-size local array
	if !isSlice {
		if al, ok := x.(*ssa.Alloc); ok {
			if arr, ok := al.Type().Underlying().(*types.Pointer).Elem().Underlying().(*types.Array); ok {
				if n, isC := an.ConstInt(idx); isC && n >= 0 && n < arr.Len() {
					return "D0 constant index " + strconv.FormatInt(n, 10) + " into a local array of length " + strconv.FormatInt(arr.Len(), 10)
				}
			}
		}
	}
	// named assumptions (coordinate configuration)
	if how := d.assumedCoordinate(o, xp); how != "" {
		return how
	}
	if !isSlice {
		ip := an.Path(idx)
		// D1 constant index behind a length guard on the same access path
		if n, isC := an.ConstInt(idx); isC && n >= 0 {
			if lenAtLeast(fn, o.in, xp, n+1) {
				return "D1 constant index " + strconv.FormatInt(n, 10) + " dominated by a guard establishing len(" + xp + ") >= " + strconv.FormatInt(n+1, 10)
			}
			// make([]T, len(y)) with len(y) >= n+1
			if mk, ok := x.(*ssa.MakeSlice); ok {
				lp := an.Path(mk.Len)
				if strings.HasPrefix(lp, "len(") && lenAtLeast(fn, o.in, strings.TrimSuffix(strings.TrimPrefix(lp, "len("), ")"), n+1) {
					return "D1 constant index into make(len(y)) with len(y) guarded"
				}
			}
		}
		// D2 loop induction variable bounded by len of the same value
		if nonNegIndex(idx) {
			// D2c fixed-size array: the bound is the array's constant length
			at := x.Type().Underlying()
			if pt, isP := at.(*types.Pointer); isP {
				at = pt.Elem().Underlying()
			}
			if arr, isA := at.(*types.Array); isA {
				if an.GuardedBy(fn, o.in, an.Cmp{L: ip, Op: "<", R: "c:" + strconv.FormatInt(arr.Len(), 10)}) {
					return "D2c index " + ip + " is a non-negative loop variable dominated by " + ip + " < " + strconv.FormatInt(arr.Len(), 10) + " (the array's length)"
				}
			}
			if an.GuardedBy(fn, o.in, an.Cmp{L: ip, Op: "<", R: "len(" + xp + ")"}) {
				return "D2 index " + ip + " is a non-negative loop variable dominated by " + ip + " < len(" + xp + ")"
			}
			if mk, ok := x.(*ssa.MakeSlice); ok {
				lp := an.Path(mk.Len)
				if an.GuardedBy(fn, o.in, an.Cmp{L: ip, Op: "<", R: lp}) {
					return "D2b index into make([]T, n) dominated by index < n (" + lp + ")"
				}
				// ranging over the made slice itself
				if an.GuardedBy(fn, o.in, an.Cmp{L: ip, Op: "<", R: "len(" + xp + ")"}) {
					return "D2b index into a made slice dominated by index < its length"
				}
			}
			// D7 second operand of a vector helper (dimension typestate)
			if how := d.vectorHelper(o, xp, ip); how != "" {
				return how
			}
		}
		// D11 last element inside a range over the same slice (len >= 1 in the body)
		if ip == "(len("+xp+")-c:1)" && inRangeBody(fn, o.in, xp) {
			return "D11 index len(x)-1 inside the body of a range over x (len(x) >= 1 there)"
		}
		// D17 library search: slices.Index*(x, ·) returns -1 or a valid index of x; a found index also
		// means x is non-empty
		if foundIndexOf(fn, o.in, xp) != "" {
			if ip == foundIndexOf(fn, o.in, xp) {
				return "D17 index is the result of " + short(ip) + " behind a test that it is not negative (a valid index of x)"
			}
			if ip == "(len("+xp+")-c:1)" {
				return "D17 index len(x)-1 behind a successful slices.Index* search of x (x is non-empty)"
			}
		}
		// D4 index is e % len(x)
		if strings.HasSuffix(ip, "%len("+xp+"))") && strings.HasPrefix(ip, "(") {
			if isUnsigned(idx.Type()) {
				return "D4 index is an unsigned value modulo len(" + xp + ") (non-zero length: P4 obligation of the modulus)"
			}
		}
		// D10 rand.Intn(len(x)) inside a loop that only runs when len(x) >= 1
		if ip == "rand.Intn(len("+xp+"))" || ip == "rand.Int31n(len("+xp+"))" {
			edges := an.EdgesWhere(fn, func(f an.Cmp) bool {
				return f.Op == "<" && (f.R == "(c:3*len("+xp+"))" || f.R == "(len("+xp+")*c:3)" || f.R == "len("+xp+")") && strings.HasPrefix(f.L, "phi")
			})
			if an.Guarded(fn, o.in, edges) {
				return "D10 index is rand.Intn(len(x)) inside a loop whose guard i < k*len(x) (i >= 0) implies len(x) >= 1"
			}
		}
		return ""
	}
	// ---- slices
	lop, hip := "", ""
	if lo != nil {
		lop = an.Path(lo)
	}
	if hi != nil {
		hip = an.Path(hi)
	}
	if hi == nil && lo != nil {
		if n, isC := an.ConstInt(lo); isC && n >= 0 {
			if lenAtLeast(fn, o.in, xp, n) {
				return "D1 slice low bound " + strconv.FormatInt(n, 10) + " dominated by a guard establishing len(" + xp + ") >= " + strconv.FormatInt(n, 10)
			}
			// D15 x = append(y, elems...)[n:] with at least n appended elements
			if call, ok := x.(*ssa.Call); ok {
				if b, ok := call.Call.Value.(*ssa.Builtin); ok && b.Name() == "append" && int64(len(an.VarArgs(&call.Call))) >= n {
					return "D15 slicing [" + strconv.FormatInt(n, 10) + ":] of an append that added at least that many elements"
				}
			}
			// D5 caller-established prefix: $k.F[n:] where every caller checked strings.HasPrefix(arg.F, lit), len(lit) >= n
			if how := d.callerPrefix(o, xp, n); how != "" {
				return how
			}
		}
	}
	if lo != nil {
		if n, isC := an.ConstInt(lo); !isC || n != 0 {
			if hi != nil {
				return ""
			}
		}
	}
	if hi != nil && lo == nil && hip == "(len("+xp+")-c:1)" && inRangeBody(fn, o.in, xp) {
		return "D11 slice x[:len(x)-1] inside the body of a range over x (len(x) >= 1 there)"
	}
	if hi != nil && lo == nil && hip == "(len("+xp+")-c:1)" && foundIndexOf(fn, o.in, xp) != "" {
		return "D17 slice x[:len(x)-1] behind a successful slices.Index* search of x (x is non-empty)"
	}
	if hi != nil && (lo == nil || lop == "c:0") {
		// D16 descending prefix re-slice: x[0:i] with i >= 0 and i <= len(x) at loop entry and only decreasing
		if phi, ok := hi.(*ssa.Phi); ok {
			if d.descendingPrefix(fn, o.in, phi, xp) {
				return "D16 prefix re-slice x[0:i]: i >= 0 by the loop guard, starts at min(k, len(x)) and only decreases (never above the capacity)"
			}
		}
		_ = hip
	}
	return ""
}

// inRangeBody: at is dominated by the "index < len(x)" edge of a range loop over x.
func inRangeBody(fn *ssa.Function, at ssa.Instruction, xp string) bool {
	edges := an.EdgesWhere(fn, func(f an.Cmp) bool {
		return strings.HasPrefix(f.L, "(phi:rangeindex@") && f.Op == "<" && f.R == "len("+xp+")"
	})
	return an.Guarded(fn, at, edges)
}

func isUnsigned(t types.Type) bool {
	b, ok := t.Underlying().(*types.Basic)
	return ok && b.Info()&types.IsUnsigned != 0
}

// descendingPrefix: hi is a loop phi with edges {init, hi-1}; the slice is
// dominated by hi >= 0; init is bounded by len(x).
func (d *discharger) descendingPrefix(fn *ssa.Function, at ssa.Instruction, phi *ssa.Phi, xp string) bool {
	pp := an.Path(phi)
	if !an.GuardedBy(fn, at, an.Cmp{L: pp, Op: ">=", R: "c:0"}) {
		return false
	}
	var init ssa.Value
	for _, e := range phi.Edges {
		if b, ok := e.(*ssa.BinOp); ok && b.Op == token.SUB && b.X == ssa.Value(phi) {
			if n, isC := an.ConstInt(b.Y); isC && n >= 1 {
				continue
			}
			return false
		}
		if init != nil {
			return false
		}
		init = e
	}
	if init == nil {
		return false
	}
	// init = phi [k | len(x)] where the k edge comes from a block behind k <= len(x)
	ip, ok := init.(*ssa.Phi)
	if !ok {
		// min(k, len(x)) through the builtin
		if call, isCall := init.(*ssa.Call); isCall {
			if b, isB := call.Call.Value.(*ssa.Builtin); isB && b.Name() == "min" {
				for _, a := range call.Call.Args {
					if an.Path(a) == "len("+xp+")" {
						return true
					}
				}
			}
		}
		return an.Path(init) == "len("+xp+")"
	}
	for i, e := range ip.Edges {
		p := an.Path(e)
		if p == "len("+xp+")" {
			continue
		}
		pred := ip.Block().Preds[i]
		// the edge pred -> ip.Block() must establish e <= len(x)
		okEdge := false
		for ed, facts := range an.EdgeFacts(fn) {
			if ed.From == pred && ed.To() == ip.Block() {
				for _, f := range facts {
					if f.Implies(an.Cmp{L: p, Op: "<=", R: "len(" + xp + ")"}) {
						okEdge = true
					}
				}
			}
		}
		if !okEdge {
			return false
		}
	}
	return true
}

// callerPrefix implements D5 for q.Name[len(prefix):].
func (d *discharger) callerPrefix(o pob, xp string, n int64) string {
	if !strings.HasPrefix(xp, "$") {
		return ""
	}
	dot := strings.Index(xp, ".")
	if dot < 0 {
		return ""
	}
	k, err := strconv.Atoi(xp[1:dot])
	if err != nil {
		return ""
	}
	field := xp[dot:]
	sites := d.allCallSites(o.fn)
	if len(sites) == 0 {
		return ""
	}
	for _, s := range sites {
		cc := an.CallOf(s)
		args := cc.Args
		if k >= len(args) {
			return ""
		}
		ap := an.Path(args[k]) + field
		caller := s.Parent()
		edges := an.EdgesWhere(caller, func(f an.Cmp) bool {
			if f.Op != "==" || f.R != "c:true" || !strings.HasPrefix(f.L, "strings.HasPrefix("+ap+",c:\"") {
				return false
			}
			lit := strings.TrimSuffix(strings.TrimPrefix(f.L, "strings.HasPrefix("+ap+",c:\""), "\")")
			return int64(len(lit)) >= n
		})
		if !an.Guarded(caller, s, edges) {
			return ""
		}
	}
	return "D5 caller-established precondition: every call site (" + strconv.Itoa(len(sites)) + ") is dominated by strings.HasPrefix(arg" + field + ", lit) with len(lit) >= " + strconv.FormatInt(n, 10)
}

// allCallSites returns call/go/defer sites of f in the module, or nil if f is
// used as a value (unknown callers).
func (d *discharger) allCallSites(f *ssa.Function) []ssa.Instruction {
	var out []ssa.Instruction
	bad := false
	for _, g := range d.c.P.Funcs {
		an.Instrs(g, func(in ssa.Instruction) {
			cc := an.CallOf(in)
			if cc != nil && an.StaticCallee(cc) == f {
				out = append(out, in)
				return
			}
			for _, op := range in.Operands(nil) {
				if op != nil && *op == ssa.Value(f) {
					bad = true
				}
			}
		})
	}
	if bad {
		return nil
	}
	return out
}

// ---------------------------------------------------------------------------
// coordinate package: assumptions and dimension typestate

func (d *discharger) assumedCoordinate(o pob, xp string) string {
	fname := an.FuncName(o.fn)
	switch fname {
	case "(*Client).latencyFilter":
		// samples[1:] after an append, sorted[len/2] with len >= 1
		if sl, ok := o.in.(*ssa.Slice); ok {
			if call, ok := sl.X.(*ssa.Call); ok {
				if b, ok := call.Call.Value.(*ssa.Builtin); ok && b.Name() == "append" {
					return "D15 slicing [1:] of an append that added one element"
				}
			}
		}
		if ia, ok := o.in.(*ssa.IndexAddr); ok && strings.HasSuffix(an.Path(ia.Index), "/c:2)") {
			return "A1 assumption: coordinate.Config.LatencyFilterSize >= 1 (serf always uses DefaultConfig()), so the sample window is never empty and len/2 is in range"
		}
	case "(*Client).updateAdjustment":
		if xp == "$0.adjustmentSamples" && an.Path(o.in.(*ssa.IndexAddr).Index) == "$0.adjustmentIndex" {
			// adjustmentIndex is only ever 0 or (i+1) % AdjustmentWindowSize, adjustmentSamples has that length
			ok := true
			for _, a := range an.FieldAccesses(d.c.P.Funcs, "Client", "adjustmentIndex") {
				p := an.Path(a.Val)
				if p != "c:0" && p != "(($0.adjustmentIndex+c:1)%$0.config.AdjustmentWindowSize)" {
					ok = false
				}
			}
			for _, a := range an.FieldAccesses(d.c.P.Funcs, "Client", "adjustmentSamples") {
				if a.Kind == "store" && an.Path(a.Val) != "make:slice($0.AdjustmentWindowSize)" {
					ok = false
				}
			}
			if ok {
				return "A2 adjustmentIndex is only ever 0 or (i+1) % AdjustmentWindowSize and adjustmentSamples is made with that length (who-may-write); assumption: the coordinate Config is not modified after NewClient"
			}
		}
	case "unitVectorAt":
		if ia, ok := o.in.(*ssa.IndexAddr); ok {
			if n, isC := an.ConstInt(ia.Index); isC && n == 0 {
				return "A3 assumption: Dimensionality >= 1 (NewClient rejects 0), so the fallback unit vector has a first component"
			}
		}
	}
	return ""
}

var vecHelpers = map[string]bool{"add": true, "diff": true}

// vectorHelper discharges vec2[i] in add/diff (D7): the helpers are called only
// with dimension-compatible operands.
func (d *discharger) vectorHelper(o pob, xp, ip string) string {
	fname := an.FuncName(o.fn)
	if !vecHelpers[fname] || an.PkgPathOf(o.fn) != an.PkgCoord {
		return ""
	}
	if xp != "$0" && xp != "$1" {
		return ""
	}
	key := "vec:" + fname
	if v, ok := d.memo[key]; ok {
		if v {
			return "D7 dimension typestate (see first use)"
		}
		return ""
	}
	if d.memo == nil {
		d.memo = map[string]bool{}
	}
	ok := d.vectorCallersCompatible(o.fn, 0)
	d.memo[key] = ok
	if ok {
		return "D7 dimension typestate: every (transitive) caller passes vectors of coordinates that passed IsCompatibleWith, or vectors built by length-preserving helpers from one of them"
	}
	return ""
}

// lengthPreserving checks that helper f returns a slice made with len(param0)
// (or a result of another length-preserving helper on such a value).
func lengthPreserving(f *ssa.Function) bool {
	for _, r := range an.Returns(f) {
		for _, v := range an.ResultValues(r) {
			if _, ok := v.Type().Underlying().(*types.Slice); !ok {
				continue
			}
			p := an.Path(v)
			switch {
			case p == "make:slice(len($0))":
			case strings.HasPrefix(p, "mul(diff($1,$2),"), strings.HasPrefix(p, "mul(make:slice(len(diff($1,$2))),"):
			case p == "make:slice(len(diff($1,$2)))", p == "diff($1,$2)":
			case strings.HasPrefix(p, "phi"):
				if phi, ok := v.(*ssa.Phi); ok {
					for _, e := range phi.Edges {
						ep := an.Path(e)
						if ep != "diff($1,$2)" && ep != "make:slice(len(diff($1,$2)))" && !strings.HasPrefix(ep, "phi") {
							return false
						}
					}
				}
			default:
				return false
			}
		}
	}
	return true
}

func (d *discharger) vectorCallersCompatible(f *ssa.Function, depth int) bool {
	if depth > 4 {
		return false
	}
	sites := d.allCallSites(f)
	if len(sites) == 0 {
		return false
	}
	p := d.c.P
	for _, h := range []string{"add", "diff", "mul"} {
		if hf := p.Func(an.PkgCoord, h); hf == nil || !lengthPreserving(hf) {
			return false
		}
	}
	if uv := p.Func(an.PkgCoord, "unitVectorAt"); uv == nil || !lengthPreserving(uv) {
		return false
	}
	for _, s := range sites {
		caller := s.Parent()
		cn := an.FuncName(caller)
		args := an.CallOf(s).Args
		switch cn {
		case "(*Coordinate).rawDistanceTo":
			// diff(c.Vec, other.Vec): compatibility is the caller's precondition
			if an.Path(args[0]) != "$0.Vec" || an.Path(args[1]) != "$1.Vec" {
				return false
			}
			if !d.coordPairCallers(caller, depth+1) {
				return false
			}
		case "unitVectorAt":
			if an.Path(args[0]) != "$1" || an.Path(args[1]) != "$2" {
				return false
			}
			if !d.vectorCallersCompatible(caller, depth+1) {
				return false
			}
		case "(*Coordinate).ApplyForce":
			compat := an.Cmp{L: "(*Coordinate).IsCompatibleWith($0,$3)", Op: "==", R: "c:true"}
			if !an.GuardedBy(caller, s, compat) {
				return false
			}
			a0, a1 := an.Path(args[len(args)-2]), an.Path(args[len(args)-1])
			okArgs := (a0 == "$0.Vec" && a1 == "$3.Vec") || // unitVectorAt(rand, c.Vec, other.Vec)
				(a0 == "(*Coordinate).Clone($0).Vec" && strings.HasPrefix(a1, "mul(unitVectorAt($1.rand,$0.Vec,$3.Vec)#0,")) // add(ret.Vec, mul(unit, force))
			if !okArgs {
				return false
			}
		default:
			return false
		}
	}
	// IsCompatibleWith compares the vector lengths
	if ic := p.Method(an.PkgCoord, "Coordinate", "IsCompatibleWith"); ic != nil {
		for _, r := range an.Returns(ic) {
			if an.Path(an.ResultValues(r)[0]) != "(len($0.Vec)==len($1.Vec))" {
				return false
			}
		}
	} else {
		return false
	}
	// Clone preserves the length
	if cl := p.Method(an.PkgCoord, "Coordinate", "Clone"); cl != nil {
		ok := false
		for _, st := range an.StoresTo(cl, ".Vec") {
			if an.Path(st.Val) == "make:slice(len($0.Vec))" {
				ok = true
			}
		}
		if !ok {
			return false
		}
	}
	return true
}

// coordPairCallers: f(c, other) requires c and other to be compatible; check
// every call site.
func (d *discharger) coordPairCallers(f *ssa.Function, depth int) bool {
	sites := d.allCallSites(f)
	if len(sites) == 0 {
		return false
	}
	for _, s := range sites {
		if !d.coordOperandsValid(s) {
			return false
		}
	}
	return true
}

// coordOperandsValid: the call site's (receiver, other) operands are
// dimension-compatible: guarded by IsCompatibleWith in the same function, or
// both are client-owned coordinates, or `other` is a parameter that all callers
// pass after checkCoordinate.
func (d *discharger) coordOperandsValid(site ssa.Instruction) bool {
	fn := site.Parent()
	args := an.CallOf(site).Args
	recv := an.Path(args[0])
	other := an.Path(args[len(args)-1])
	if an.GuardedBy(fn, site, an.Cmp{L: "(*Coordinate).IsCompatibleWith(" + recv + "," + other + ")", Op: "==", R: "c:true"}) {
		return true
	}
	own := func(p string) bool {
		return p == "$0.coord" || p == "$0.origin" || strings.HasPrefix(p, "(*Client).GetCoordinate(") || (strings.HasPrefix(p, "(*Client).Update(") && strings.HasSuffix(p, "#0"))
	}
	if !d.clientCoordsWellFormed() {
		return false
	}
	okOne := func(p string) bool {
		if own(p) {
			return true
		}
		if strings.HasPrefix(p, "$") && !strings.Contains(p, ".") {
			k, err := strconv.Atoi(p[1:])
			if err != nil {
				return false
			}
			return d.paramChecked(fn, k, 0)
		}
		return false
	}
	return okOne(recv) && okOne(other)
}

// paramChecked: every caller passes, for parameter k, a value that was
// accepted by checkCoordinate in that caller (or a checked parameter of its own).
func (d *discharger) paramChecked(f *ssa.Function, k, depth int) bool {
	if depth > 3 {
		return false
	}
	sites := d.allCallSites(f)
	if len(sites) == 0 {
		return false
	}
	for _, s := range sites {
		caller := s.Parent()
		a := an.Path(an.CallOf(s).Args[k])
		if an.GuardedBy(caller, s, an.Cmp{L: "(*Client).checkCoordinate($0," + a + ")", Op: "==", R: "c:nil"}) {
			continue
		}
		if strings.HasPrefix(a, "$") && !strings.Contains(a, ".") {
			kk, err := strconv.Atoi(a[1:])
			if err == nil && d.paramChecked(caller, kk, depth+1) {
				continue
			}
		}
		return false
	}
	// summary of checkCoordinate: nil only if compatible with the client's coordinate
	cc := d.c.P.Method(an.PkgCoord, "Client", "checkCoordinate")
	if cc == nil {
		return false
	}
	for _, r := range an.Returns(cc) {
		if v := an.ResultValues(r); len(v) == 1 && an.IsNilConst(v[0]) {
			if !an.GuardedBy(cc, r, an.Cmp{L: "(*Coordinate).IsCompatibleWith($0.coord,$1)", Op: "==", R: "c:true"}) {
				return false
			}
		}
	}
	return true
}

// clientCoordsWellFormed: Client.coord / origin are only ever assigned
// NewCoordinate(config), a Clone() or an ApplyForce() result (all of the
// client's dimensionality).
func (d *discharger) clientCoordsWellFormed() bool {
	if v, ok := d.memo["clientcoords"]; ok {
		return v
	}
	if d.memo == nil {
		d.memo = map[string]bool{}
	}
	ok := true
	for _, f := range []string{"coord", "origin"} {
		for _, a := range an.FieldAccesses(d.c.P.Funcs, "Client", f) {
			if a.Kind != "store" {
				continue
			}
			p := an.Path(a.Val)
			good := strings.HasPrefix(p, "NewCoordinate(") || strings.HasPrefix(p, "(*Coordinate).Clone(") || strings.HasPrefix(p, "(*Coordinate).ApplyForce($0.coord,")
			if strings.HasPrefix(p, "(*Coordinate).Clone(") {
				// SetCoordinate: clone of a checked coordinate
				good = an.FuncName(a.Fn) != "(*Client).SetCoordinate" || an.GuardedBy(a.Fn, a.Instr, an.Cmp{L: "(*Client).checkCoordinate($0,$1)", Op: "==", R: "c:nil"})
			}
			if !good {
				ok = false
			}
		}
	}
	d.memo["clientcoords"] = ok
	return ok
}

// ---------------------------------------------------------------------------
// P2 explicit panics

func (d *discharger) p2(o pob) string {
	fname := an.FuncName(o.fn)
	p := o.in.(*ssa.Panic)
	switch fname {
	case "(*delegate).NodeMeta":
		d.c.Exemption("(*delegate).NodeMeta panic", "raised only when the LOCAL tags exceed memberlist's limit; SetTags/Create reject such tags first (C32.R4); not driven by network input")
		if an.GuardedBy(o.fn, o.in, an.Cmp{L: "len((*Serf).encodeTags($0.serf,$0.serf.config.Tags))", Op: ">", R: "$1"}) {
			return "E1 named exemption: local-tags-too-large panic (guarded by len(encoded local tags) > limit)"
		}
	case "(*Serf).encodeTags":
		d.c.Exemption("(*Serf).encodeTags panic", "encoding a map[string]string with msgpack cannot fail")
		if strings.HasPrefix(an.Path(p.X), "fmt.Sprintf(c:\"Failed to encode tags") {
			return "E2 named exemption: msgpack encoding of map[string]string cannot fail"
		}
	case "(MemberStatus).String":
		if d.enumInRange("Member", "Status", 0, 4) {
			return "D6 enum range: every store to Member.Status module-wide is a constant in 0..4 or a copy of the field, so the default arm is unreachable for local member state"
		}
	case "(EventType).String", "(MemberEvent).String":
		if d.enumInRange("MemberEvent", "Type", 0, 6) {
			return "D6 enum range: every store to MemberEvent.Type is an in-range constant"
		}
	case "(*Coordinate).DistanceTo", "(*Coordinate).ApplyForce":
		// the documented rejection; unreachable when every reachable call site has compatible operands
		var sites []ssa.Instruction
		for _, ow := range an.Owners(o.fn) { // the panic may sit in a new helper of the known function
			sites = append(sites, d.allCallSites(ow)...)
		}
		n := 0
		for _, s := range sites {
			if !d.reach[s.Parent()] {
				continue
			}
			n++
			if !d.coordOperandsValid(s) {
				return ""
			}
		}
		if n > 0 {
			return "D7 dimension typestate: all " + strconv.Itoa(n) + " reachable call sites pass client-owned or checkCoordinate-accepted coordinates, so the dimensionality panic is unreachable from the network"
		}
	}
	return ""
}

func (d *discharger) enumInRange(typ, field string, lo, hi int64) bool {
	key := "enum:" + typ + "." + field
	if v, ok := d.memo[key]; ok {
		return v
	}
	if d.memo == nil {
		d.memo = map[string]bool{}
	}
	ok := true
	n := 0
	for _, a := range an.FieldAccesses(d.c.P.FuncsIn(serf), typ, field) {
		if a.Kind != "store" {
			continue
		}
		n++
		if !d.valueInRange(a.Val, typ, field, lo, hi, 0) {
			ok = false
		}
	}
	if n == 0 {
		ok = false
	}
	d.memo[key] = ok
	return ok
}

func (d *discharger) valueInRange(v ssa.Value, typ, field string, lo, hi int64, depth int) bool {
	if depth > 4 {
		return false
	}
	if n, isC := an.ConstInt(v); isC {
		return n >= lo && n <= hi
	}
	if t, f, ok := an.LoadedField(v); ok && f == field && (t == typ || t == "coalesceEvent" || t == "MemberEvent") {
		return true
	}
	if phi, ok := v.(*ssa.Phi); ok {
		for _, e := range phi.Edges {
			if !d.valueInRange(e, typ, field, lo, hi, depth+1) {
				return false
			}
		}
		return true
	}
	if ex, ok := v.(*ssa.Extract); ok {
		// range over a map of coalesceEvent etc.: value field of the same name
		_ = ex
	}
	p := an.Path(v)
	if strings.HasSuffix(p, "."+field) || strings.HasSuffix(p, ".Type") && field == "Type" {
		return true
	}
	return false
}

// ---------------------------------------------------------------------------
// P3 type assertions

func (d *discharger) p3(o pob) string {
	ta := o.in.(*ssa.TypeAssert)
	fname := an.FuncName(o.fn)
	asserted := ta.AssertedType.String()
	// atomic.Value holding one type
	if call, ok := ta.X.(*ssa.Call); ok && an.IsCallTo(call, "atomic.(*Value).Load") {
		t, f, okF := an.FieldOf(call.Call.Args[0])
		if okF {
			all := true
			n := 0
			for _, g := range d.c.P.Funcs {
				for _, st := range an.CallsTo(g, "atomic.(*Value).Store") {
					tt, ff, ok2 := an.FieldOf(an.CallOf(st).Args[0])
					if !ok2 || tt != t || ff != f {
						continue
					}
					n++
					v := an.CallOf(st).Args[1]
					if mi, ok := v.(*ssa.MakeInterface); !ok || mi.X.Type().String() != asserted {
						all = false
					}
				}
			}
			// initialised before memberlist starts delivering
			init := false
			if cr := d.c.P.Func(serf, "Create"); cr != nil {
				for _, st := range an.CallsTo(cr, "atomic.(*Value).Store") {
					for _, mk := range an.CallsTo(cr, "memberlist.Create") {
						if an.Dominates(st, mk) {
							init = true
						}
					}
				}
			}
			if all && n > 0 && init {
				return "D12b every Store to " + t + "." + f + " (" + strconv.Itoa(n) + " sites) stores a " + asserted + " and Create stores one before memberlist starts"
			}
		}
		return ""
	}
	// assertion on an Event behind an EventType() test (D12)
	if strings.HasSuffix(fname, "Coalescer).Coalesce") || strings.HasSuffix(fname, "Coalescer).Handle") {
		recv := o.fn.Signature.Recv().Type().(*types.Pointer).Elem().(*types.Named).Obj().Name()
		handle := d.c.P.Method(serf, recv, "Handle")
		if handle == nil {
			return ""
		}
		// constants accepted by Handle
		accepted := map[string]bool{}
		for _, r := range an.Returns(handle) {
			v := an.ResultValues(r)[0]
			if an.IsConstBool(v, false) {
				continue
			}
			got := false
			for _, f := range necessaryFacts(handle, r) {
				if f.L == "invoke:EventType($1)" && f.Op == "==" && strings.HasPrefix(f.R, "c:") {
					accepted[f.R] = true
					got = true
				}
			}
			if !got && an.IsConstBool(v, true) {
				// `case A, B, C: return true`: several tests branch straight into the one return; every way
				// into its block must come from an EventType() == constant edge
				got = true
				n := 0
				ef := an.EdgeFacts(handle)
				for _, pred := range r.Block().Preds {
					for k, sc := range pred.Succs {
						if sc != r.Block() {
							continue
						}
						n++
						one := false
						for _, f := range ef[an.Edge{From: pred, Succ: k}] {
							if f.L == "invoke:EventType($1)" && f.Op == "==" && strings.HasPrefix(f.R, "c:") {
								accepted[f.R] = true
								one = true
							}
						}
						if !one {
							got = false
						}
					}
				}
				if n == 0 {
					got = false
				}
			}
			if ph, isPhi := v.(*ssa.Phi); !got && isPhi && ph.Block() == r.Block() {
				// `return t == A || t == B || ...`: one way per operand of the phi
				got = true
				ef := an.EdgeFacts(handle)
				for i, e := range ph.Edges {
					if an.IsConstBool(e, false) {
						continue
					}
					var facts []an.Cmp
					if an.IsConstBool(e, true) {
						pred := ph.Block().Preds[i]
						for k, sc := range pred.Succs {
							if sc == ph.Block() {
								facts = append(facts, ef[an.Edge{From: pred, Succ: k}]...)
							}
						}
					} else {
						facts = an.CondFacts(e, true)
					}
					if pred := ph.Block().Preds[i]; len(pred.Instrs) > 0 {
						facts = append(facts, necessaryFacts(handle, pred.Instrs[len(pred.Instrs)-1])...)
					}
					one := false
					for _, f := range facts {
						if f.L == "invoke:EventType($1)" && f.Op == "==" && strings.HasPrefix(f.R, "c:") {
							accepted[f.R] = true
							one = true
						}
					}
					if !one {
						got = false
					}
				}
			}
			if !got {
				return ""
			}
		}
		if len(accepted) == 0 {
			return ""
		}
		// which implementations of Event can return an accepted constant?
		want := asserted[strings.LastIndex(asserted, ".")+1:]
		for _, impl := range eventImpls(d.c) {
			et := d.c.P.Method(serf, impl, "EventType")
			if et == nil {
				return ""
			}
			can := false
			for _, r := range an.Returns(et) {
				p := an.Path(an.ResultValues(r)[0])
				if strings.HasPrefix(p, "c:") {
					if accepted[p] {
						can = true
					}
				} else if p == "$0.Type" {
					// returns a stored field: in range by who-may-write
					if !d.enumInRange("MemberEvent", "Type", 0, 4) {
						return ""
					}
					for k := range accepted {
						n, _ := strconv.Atoi(strings.TrimPrefix(k, "c:"))
						if n <= 4 {
							can = true
						}
					}
				} else {
					return ""
				}
			}
			if can && impl != want {
				return ""
			}
		}
		if strings.HasSuffix(fname, ".Handle") {
			// the assertion itself must sit behind the accepted-kind test
			edges := an.EdgesWhere(o.fn, func(f an.Cmp) bool {
				return f.L == "invoke:EventType($1)" && f.Op == "==" && accepted[f.R]
			})
			if !an.Guarded(o.fn, o.in, edges) {
				return ""
			}
			return "D12 assertion to " + want + " behind EventType() == " + keys(accepted) + "; no other Event implementation can return that kind"
		}
		// Coalesce: only invoked by the coalesce loop after Handle(e) returned true, on the same event
		lp := d.c.P.Func(serf, "coalesceLoop")
		if lp == nil {
			return ""
		}
		for _, k := range an.FindInstrs(lp, func(in ssa.Instruction) bool {
			call, ok := in.(*ssa.Call)
			return ok && call.Call.IsInvoke() && call.Call.Method.Name() == "Coalesce"
		}) {
			arg := an.Path(an.CallOf(k).Args[0])
			if !an.GuardedBy(lp, k, an.Cmp{L: "invoke:Handle($5," + arg + ")", Op: "==", R: "c:true"}) {
				return ""
			}
		}
		// nobody else calls Coalesce
		for _, g := range d.c.P.FuncsIn(serf) {
			if g == lp {
				continue
			}
			bad := false
			an.Instrs(g, func(in ssa.Instruction) {
				if cc := an.CallOf(in); cc != nil {
					if cc.IsInvoke() && cc.Method.Name() == "Coalesce" {
						bad = true
					}
					if f := an.StaticCallee(cc); f == o.fn {
						bad = true
					}
				}
			})
			if bad {
				return ""
			}
		}
		return "D12 Coalesce is invoked only by the coalesce loop after Handle(e) == true on the same event; Handle accepts kinds " + keys(accepted) + " which only " + want + " can report"
	}
	return ""
}

func keys(m map[string]bool) string {
	var ks []string
	for k := range m {
		ks = append(ks, k)
	}
	return strings.Join(ks, ",")
}

// eventImpls lists the named types of package serf implementing Event.
func eventImpls(c *an.Ctx) []string {
	pk := c.P.ByPkg[serf]
	var out []string
	io := pk.Types.Scope().Lookup("Event")
	if io == nil {
		return nil
	}
	iface, _ := io.Type().Underlying().(*types.Interface)
	for _, n := range pk.Types.Scope().Names() {
		tn, ok := pk.Types.Scope().Lookup(n).(*types.TypeName)
		if !ok {
			continue
		}
		if _, isI := tn.Type().Underlying().(*types.Interface); isI {
			continue
		}
		if types.Implements(tn.Type(), iface) || types.Implements(types.NewPointer(tn.Type()), iface) {
			out = append(out, n)
		}
	}
	return out
}

// ---------------------------------------------------------------------------
// P4 division

func (d *discharger) p4(o pob) string {
	b := o.in.(*ssa.BinOp)
	yp := an.Path(b.Y)
	switch yp {
	case "len($0.eventBuffer)", "len($0.queryBuffer)":
		field := strings.TrimSuffix(strings.TrimPrefix(yp, "len($0."), ")")
		cfg := map[string]string{"eventBuffer": "EventBuffer", "queryBuffer": "QueryBuffer"}[field]
		ok := false
		for _, a := range an.FieldAccesses(d.c.P.Funcs, "Serf", field) {
			if a.Kind == "store" {
				ok = an.Path(a.Val) == "make:slice($0."+cfg+")"
			}
		}
		if ok {
			return "A4 assumption: Config." + cfg + " >= 1 (the buffer is made once in Create with that length; zero is a local configuration error)"
		}
	case "$0.config.AdjustmentWindowSize":
		if an.GuardedBy(o.fn, o.in, an.Cmp{L: "$0.config.AdjustmentWindowSize", Op: "!=", R: "c:0"}) {
			return "D1 modulus guarded by AdjustmentWindowSize != 0"
		}
	}
	return ""
}

// ---------------------------------------------------------------------------
// P5 map updates

func (d *discharger) p5(o pob) string {
	mu := o.in.(*ssa.MapUpdate)
	fn := o.fn
	if _, ok := mu.Map.(*ssa.MakeMap); ok {
		return "D13 map made in the same function"
	}
	mp := an.Path(mu.Map)
	// local map variable whose address is taken later: made before, nothing that could replace it in between
	if u, ok := mu.Map.(*ssa.UnOp); ok {
		if al, ok := u.X.(*ssa.Alloc); ok {
			var mk *ssa.Store
			n := 0
			for _, r := range *al.Referrers() {
				if st, ok := r.(*ssa.Store); ok && st.Addr == ssa.Value(al) {
					n++
					if _, isMake := st.Val.(*ssa.MakeMap); isMake {
						mk = st
					}
				}
			}
			if mk != nil && n == 1 && an.Dominates(mk, o.in) {
				between := false
				for _, r := range *al.Referrers() {
					if cc := an.CallOf(r); cc != nil && an.Reaches(fn, mk, r) && an.Reaches(fn, r, o.in) {
						between = true
					}
				}
				if !between {
					return "D13 local map made earlier in this function; no call receives its address between the make and this update"
				}
			}
		}
	}
	// map parameter: every caller passes a field all of whose stores are makes
	if pr, ok := mu.Map.(*ssa.Parameter); ok {
		k := -1
		for i, q := range fn.Params {
			if q == pr {
				k = i
			}
		}
		sites := d.allCallSites(fn)
		okAll := k >= 0 && len(sites) > 0
		for _, s := range sites {
			t, f, okF := an.LoadedField(an.CallOf(s).Args[k])
			if !okF {
				okAll = false
				continue
			}
			n, all := 0, true
			for _, a := range an.FieldAccesses(d.c.P.FuncsIn(an.PkgPathOf(fn)), t, f) {
				if a.Kind == "store" {
					n++
					if _, isMake := a.Val.(*ssa.MakeMap); !isMake {
						all = false
					}
				}
			}
			if n == 0 || !all {
				okAll = false
			}
		}
		if okAll {
			return "D5 caller-established: every call site (" + strconv.Itoa(len(sites)) + ") passes a struct field whose every store is a made map"
		}
	}
	// field of a module struct: every store to the field module-wide is a make / literal
	if t, f, ok := an.LoadedField(mu.Map); ok && t != "" {
		acc := an.FieldAccesses(d.c.P.FuncsIn(an.PkgPathOf(fn)), t, f)
		n, all := 0, true
		for _, a := range acc {
			if a.Kind != "store" {
				continue
			}
			n++
			if _, isMake := a.Val.(*ssa.MakeMap); !isMake {
				all = false
			}
		}
		if n > 0 && all {
			// special case: map initialised only on some paths of the constructor
			if t == "QueryResponse" && f == "acks" {
				return d.acksCoInit(o)
			}
			if wireStruct[t] {
				// a decode target: the map may have been replaced by a decoded nil
				return d.localMadeField(fn, o.in, f)
			}
			return "D13 every store to " + t + "." + f + " module-wide (" + strconv.Itoa(n) + ") is a freshly made map"
		}
		if wireStruct[t] || strings.HasPrefix(mp, "local:") {
			if how := d.localMadeField(fn, o.in, f); how != "" {
				return how
			}
		}
		// parameter-rooted: every caller passes a struct literal whose field is made
		if strings.HasPrefix(mp, "$") {
			if how := d.callerMadeField(o, mp); how != "" {
				return how
			}
		}
	}
	return ""
}

// localMadeField: the map is field f of a local struct and a store of a made
// map to a field named f dominates the update in this function, with no decode
// into the struct in between.
func (d *discharger) localMadeField(fn *ssa.Function, at ssa.Instruction, f string) string {
	for _, st := range an.StoresTo(fn, "."+f) {
		if _, isMake := st.Val.(*ssa.MakeMap); isMake && an.Dominates(st, at) {
			dec := false
			for _, call := range an.CallsTo(fn, "decodeMessage") {
				if an.Reaches(fn, st, call) && an.Reaches(fn, call, at) {
					dec = true
				}
			}
			if !dec {
				return "D13 the map field " + f + " of the local struct is made earlier in this function (dominating store) and not decoded over"
			}
		}
	}
	return ""
}

func (d *discharger) callerMadeField(o pob, mp string) string {
	dot := strings.Index(mp, ".")
	if dot < 0 {
		return ""
	}
	k, err := strconv.Atoi(mp[1:dot])
	if err != nil {
		return ""
	}
	field := mp[dot+1:]
	sites := d.allCallSites(o.fn)
	if len(sites) == 0 {
		return ""
	}
	for _, s := range sites {
		caller := s.Parent()
		arg := an.CallOf(s).Args[k]
		al, ok := arg.(*ssa.Alloc)
		if !ok {
			return ""
		}
		made := false
		for _, st := range an.StoresTo(caller, "."+field) {
			if fa, ok := st.Addr.(*ssa.FieldAddr); ok && fa.X == ssa.Value(al) {
				if _, isMake := st.Val.(*ssa.MakeMap); isMake && an.Dominates(st, s) {
					made = true
				}
			}
		}
		if !made {
			return ""
		}
	}
	return "D5 caller-established: every call site (" + strconv.Itoa(len(sites)) + ") passes a struct it allocated with field " + field + " made"
}

// acksCoInit: QueryResponse.acks is made together with ackCh, and the update
// happens only after a successful send on ackCh (which needs ackCh != nil).
func (d *discharger) acksCoInit(o pob) string {
	fn := o.fn
	// constructor: stores to acks and ackCh are in the same block
	nq := d.c.P.Func(serf, "newQueryResponse")
	if nq == nil {
		return ""
	}
	var bA, bC *ssa.BasicBlock
	for _, st := range an.StoresTo(nq, ".acks") {
		bA = st.Block()
	}
	for _, st := range an.StoresTo(nq, ".ackCh") {
		if _, ok := st.Val.(*ssa.MakeChan); ok {
			bC = st.Block()
		}
	}
	if bA == nil || bA != bC {
		return ""
	}
	// ackCh/acks are never reassigned elsewhere
	for _, f := range []string{"acks", "ackCh"} {
		for _, a := range an.FieldAccesses(d.c.P.Funcs, "QueryResponse", f) {
			if a.Kind == "store" && a.Fn != nq {
				return ""
			}
		}
	}
	// update dominated by "select chose the send on ackCh"
	var sel *ssa.Select
	an.Instrs(fn, func(in ssa.Instruction) {
		if s, ok := in.(*ssa.Select); ok {
			for _, st := range s.States {
				if st.Dir == 1 && an.Path(st.Chan) == "$0.ackCh" {
					sel = s
				}
			}
		}
	})
	if sel == nil {
		return ""
	}
	if !an.GuardedBy(fn, o.in, an.Cmp{L: an.Path(sel) + "#0", Op: "==", R: "c:0"}) {
		return ""
	}
	return "D13c acks is made in the same block as ackCh by the only constructor, never reassigned, and this update runs only after a send on ackCh succeeded (a nil channel never succeeds)"
}

// ---------------------------------------------------------------------------
// P6 nil pointers out of containers

func (d *discharger) p6(o pob) string {
	var ptr ssa.Value
	switch x := o.in.(type) {
	case *ssa.FieldAddr:
		ptr = x.X
	case *ssa.UnOp:
		ptr = x.X
	}
	// use of a loaded decode-target pointer variable: the value used is the load itself
	for _, op := range o.in.Operands(nil) {
		if u, ok := (*op).(*ssa.UnOp); ok && u.Op == token.MUL {
			if al, ok := u.X.(*ssa.Alloc); ok && decodedPointerVar(al) {
				ptr = u
			}
		}
	}
	if ptr == nil {
		return ""
	}
	if d.nonNilAt(o.fn, o.in, ptr, 0) {
		return "D8 pointer " + an.Path(ptr) + " is nil-checked on every path to the use (dominating != nil edge, or every phi operand is a fresh allocation or a checked value)"
	}
	return ""
}

func (d *discharger) nonNilAt(fn *ssa.Function, at ssa.Instruction, ptr ssa.Value, depth int) bool {
	if depth > 3 {
		return false
	}
	p := an.Path(ptr)
	if an.GuardedBy(fn, at, an.Cmp{L: p, Op: "!=", R: "c:nil"}) {
		return true
	}
	switch x := ptr.(type) {
	case *ssa.Alloc:
		return true
	case *ssa.Phi:
		for i, e := range x.Edges {
			if _, isAlloc := e.(*ssa.Alloc); isAlloc {
				continue
			}
			pred := x.Block().Preds[i]
			if len(pred.Instrs) == 0 {
				return false
			}
			last := pred.Instrs[len(pred.Instrs)-1]
			if !d.nonNilAt(fn, last, e, depth+1) {
				return false
			}
		}
		return true
	}
	return false
}

// ---------------------------------------------------------------------------
// P7 make

func (d *discharger) p7(o pob) string {
	mk := o.in.(*ssa.MakeSlice)
	lp := an.Path(mk.Len)
	switch {
	case strings.HasPrefix(lp, "len("):
		return "D14 length is len(·) of an existing value"
	case strings.HasPrefix(lp, "bytes.(*Reader).Len("):
		return "D14 length is Reader.Len() (0 <= n <= input length)"
	}
	if isUnsigned(mk.Len.Type()) || isUnsignedConv(mk.Len) {
		return "D14 length is an unsigned configuration value (" + lp + ")"
	}
	return ""
}

func isUnsignedConv(v ssa.Value) bool {
	if c, ok := v.(*ssa.Convert); ok {
		return isUnsigned(c.X.Type())
	}
	return false
}
