package rules

import (
	"go/token"
	"sort"
	"strings"

	"serfcheck/an"

	"golang.org/x/tools/go/ssa"
)

func init() {
	register(&Rule{
		ID:      "C10",
		Explain: "Decides writer/reader agreement of the snapshot file, not a replay of a history: every line format written (append path and compaction) selects, under the reader's first-match prefix chain, the branch of the same record kind; verbs agree with parses (%d of a 64-bit unsigned ↔ ParseUint base 10/64 bits; two %s ↔ split at the LAST separator with key before / value after); the state field a record restores is the field whose change caused it to be written; every state field replay restores is serialised by compaction with the same formats (so compacted and uncompacted files replay equal); in-memory state is updated before the append (a compaction inside the append contains the event); Create witnesses the three restored clocks into the matching clocks and rejoins AliveNodes(). Line discipline: every %s argument must be newline-free by construction — the member name is not (known finding). Value equality of what is replayed and 'snapshot keeps up' are not decided.",
		Run:     runC10,
		Mutants: []Mutant{
			{Name: "compact-temp-appended", File: "serf/snapshot.go", Func: "func (s *Snapshotter) compact(", Old: "os.O_RDWR|os.O_TRUNC|os.O_CREATE", New: "os.O_RDWR|os.O_APPEND|os.O_CREATE", Expect: "R7"},
			{Name: "known-member-not-rerecorded", File: "serf/snapshot.go", Func: "func (s *Snapshotter) processMemberEvent(", Old: "\t\t\ts.aliveNodes[mem.Name] = addr.String()\n", New: "\t\t\tif _, known := s.aliveNodes[mem.Name]; known {\n\t\t\t\ts.aliveNodes[mem.Name] = addr.String()\n\t\t\t\tcontinue\n\t\t\t}\n\t\t\ts.aliveNodes[mem.Name] = addr.String()\n", Expect: "R6"},
			{Name: "writer-renames-record", File: "serf/snapshot.go", Func: "func (s *Snapshotter) processQuery(", Old: "\"query-clock: %d\\n\"", New: "\"queryclock: %d\\n\"", Expect: "R1"},
			{Name: "reader-shadowed-by-earlier-prefix", File: "serf/snapshot.go", Func: "func (s *Snapshotter) replay(", Old: "strings.CutPrefix(line, \"clock: \")", New: "strings.CutPrefix(line, \"\")", Expect: "R1"},
			{Name: "reader-first-space", File: "serf/snapshot.go", Func: "func (s *Snapshotter) replay(", Old: "strings.LastIndex(info, \" \")", New: "strings.Index(info, \" \")", Expect: "R1"},
			{Name: "reader-swaps-name-addr", File: "serf/snapshot.go", Func: "func (s *Snapshotter) replay(", Old: "\t\t\taddr := info[addrIdx+1:]\n\t\t\tname := info[:addrIdx]\n", New: "\t\t\tname := info[addrIdx+1:]\n\t\t\taddr := info[:addrIdx]\n", Expect: "R1"},
			{Name: "reader-restores-wrong-clock", File: "serf/snapshot.go", Func: "func (s *Snapshotter) replay(", Old: "\t\t\ts.lastEventClock = LamportTime(timeInt)\n", New: "\t\t\ts.lastQueryClock = LamportTime(timeInt)\n", Expect: "R1"},
			{Name: "compact-omits-query-clock", File: "serf/snapshot.go", Func: "func (s *Snapshotter) compact(", Old: "\tline = fmt.Sprintf(\"query-clock: %d\\n\", s.lastQueryClock)\n", New: "\tline = fmt.Sprintf(\"# query-clock: %d\\n\", s.lastQueryClock)\n", Expect: "R2"},
			{Name: "compact-writes-wrong-field", File: "serf/snapshot.go", Func: "func (s *Snapshotter) compact(", Old: "fmt.Sprintf(\"event-clock: %d\\n\", s.lastEventClock)", New: "fmt.Sprintf(\"event-clock: %d\\n\", s.lastClock)", Expect: "R2"},
			{Name: "append-before-state", File: "serf/snapshot.go", Func: "func (s *Snapshotter) processMemberEvent(", Old: "\t\t\ts.aliveNodes[mem.Name] = addr.String()\n\t\t\ts.tryAppend(fmt.Sprintf(\"alive: %s %s\\n\", mem.Name, addr.String()))\n", New: "\t\t\ts.tryAppend(fmt.Sprintf(\"alive: %s %s\\n\", mem.Name, addr.String()))\n\t\t\ts.aliveNodes[mem.Name] = addr.String()\n", Expect: "R3"},
			{Name: "restore-clocks-crossed", File: "serf/serf.go", Func: "func Create(", Old: "\tserf.eventClock.Witness(oldEventClock)\n\tserf.queryClock.Witness(oldQueryClock)\n", New: "\tserf.eventClock.Witness(oldQueryClock)\n\tserf.queryClock.Witness(oldEventClock)\n", Expect: "R4"},
			{Name: "parse-base-16", File: "serf/snapshot.go", Func: "func (s *Snapshotter) replay(", Old: "after, ok := strings.CutPrefix(line, \"clock: \"); ok {\n\t\t\ttimeStr := after\n\t\t\ttimeInt, err := strconv.ParseUint(timeStr, 10, 64)", New: "after, ok := strings.CutPrefix(line, \"clock: \"); ok {\n\t\t\ttimeStr := after\n\t\t\ttimeInt, err := strconv.ParseUint(timeStr, 16, 64)", Expect: "R1"},
			{Name: "addr-from-raw-member-field", File: "serf/snapshot.go", Func: "func (s *Snapshotter) processMemberEvent(", Old: "s.tryAppend(fmt.Sprintf(\"alive: %s %s\\n\", mem.Name, addr.String()))", New: "s.tryAppend(fmt.Sprintf(\"alive: %s %s\\n\", mem.Name, mem.Tags[\"addr\"]))", Expect: "R5"},
		},
	})
}

type snapWrite struct {
	fn     *ssa.Function
	at     ssa.Instruction
	format string
	args   []ssa.Value
}

type snapRead struct {
	test   ssa.Instruction // the CutPrefix/HasPrefix call or the == comparison's If
	kind   string          // "cut", "has", "eq"
	lit    string
	edge   an.Edge // the edge on which the test matched
	fields []string
}

func splitFormat(f string) (head string, verbs []string, seps []string) {
	i := strings.IndexByte(f, '%')
	if i < 0 {
		return strings.TrimSuffix(f, "\n"), nil, nil
	}
	head = f[:i]
	rest := f[i:]
	for len(rest) > 0 {
		if rest[0] == '%' && len(rest) > 1 {
			verbs = append(verbs, rest[:2])
			rest = rest[2:]
			j := strings.IndexByte(rest, '%')
			if j < 0 {
				seps = append(seps, rest)
				rest = ""
			} else {
				seps = append(seps, rest[:j])
				rest = rest[j:]
			}
		} else {
			rest = rest[1:]
		}
	}
	return
}

func runC10(c *an.Ctx) {
	c.Rule("R1 line tables: each written head equals the prefix of the first-matching reader branch of the same kind; %d ↔ ParseUint(·,10,64); '%s %s' ↔ split at the last space, key before / value after; the restored field is the field whose change wrote the record; reader branches that restore state have writers")
	c.Rule("R2 state coverage: every field replay restores is serialised by compact, with a format the append path also uses, from that same field")
	c.Rule("R3 in each recorder the in-memory state is updated before the line is appended")
	c.Rule("R4 Create witnesses LastClock/LastEventClock/LastQueryClock into clock/eventClock/queryClock respectively and rejoins AliveNodes()")
	c.Rule("R5 every %s argument of a snapshot line is newline-free by construction (TCPAddr.String(), numbers, or guarded by a newline test)")
	fns := snapFuncs(c)

	// ---- writer table
	var writes []snapWrite
	locks := an.NewLocks(c.P)
	// addLine records one written line value. A value that is a parameter of a local closure or helper
	// which is only ever called directly is followed to the arguments of its call sites; an element of a
	// local array of lines is followed to the stores that fill the array.
	var addLine func(fn *ssa.Function, at ssa.Instruction, arg ssa.Value, depth int)
	addLine = func(fn *ssa.Function, at ssa.Instruction, arg ssa.Value, depth int) {
		if s, ok := an.ConstString(arg); ok {
			writes = append(writes, snapWrite{fn: fn, at: at, format: s})
			return
		}
		if sp, ok := an.Strip(arg).(*ssa.Call); ok && an.IsCallTo(sp, "fmt.Sprintf") {
			f, okF := an.ConstString(sp.Call.Args[0])
			if !okF {
				c.Undecided("R1", an.FuncName(fn)+":non-constant-format", at, "snapshot line built from a non-constant format")
				return
			}
			writes = append(writes, snapWrite{fn: fn, at: at, format: f, args: an.VarArgs(&sp.Call)})
			return
		}
		if bo, ok := an.Strip(arg).(*ssa.BinOp); ok && bo.Op == token.ADD && depth < 3 {
			// constant + constant concatenation (a named marker plus "\n")
			l, okL := an.ConstString(bo.X)
			r, okR := an.ConstString(bo.Y)
			if okL && okR {
				writes = append(writes, snapWrite{fn: fn, at: at, format: l + r})
				return
			}
		}
		if par, ok := an.Strip(arg).(*ssa.Parameter); ok && depth < 3 {
			g := par.Parent()
			idx := -1
			for k, q := range g.Params {
				if q == par {
					idx = k
				}
			}
			sites := locks.Callers(g)
			if idx >= 0 && len(sites) > 0 && !locks.Escapes(g) && (g.Parent() != nil || an.Transparent(g)) {
				for _, site := range sites {
					a := an.CallOf(site).Args
					if idx < len(a) {
						owner := site.Parent()
						for owner.Parent() != nil {
							owner = owner.Parent()
						}
						addLine(owner, site, a[idx], depth+1)
					}
				}
				return
			}
		}
		if u, ok := an.Strip(arg).(*ssa.UnOp); ok && u.Op == token.MUL && depth < 3 {
			if ia, ok := u.X.(*ssa.IndexAddr); ok {
				if al, ok := ia.X.(*ssa.Alloc); ok {
					n := 0
					an.Instrs(fn, func(x ssa.Instruction) {
						st, ok := x.(*ssa.Store)
						if !ok {
							return
						}
						if sia, ok := st.Addr.(*ssa.IndexAddr); ok && sia.X == ssa.Value(al) {
							n++
							addLine(fn, at, st.Val, depth+1)
						}
					})
					if n > 0 {
						return
					}
				}
			}
		}
		if ix, ok := an.Strip(arg).(*ssa.Index); ok && depth < 3 {
			// element of a local array value (for _, line := range [...]string{...})
			if ld, ok := ix.X.(*ssa.UnOp); ok && ld.Op == token.MUL {
				if al, ok := ld.X.(*ssa.Alloc); ok {
					n := 0
					an.Instrs(fn, func(x ssa.Instruction) {
						st, ok := x.(*ssa.Store)
						if !ok {
							return
						}
						if sia, ok := st.Addr.(*ssa.IndexAddr); ok && sia.X == ssa.Value(al) {
							n++
							addLine(fn, at, st.Val, depth+1)
						}
					})
					if n > 0 {
						return
					}
				}
			}
		}
		c.Undecided("R1", an.FuncName(fn)+":opaque-line", at, "snapshot line is neither a constant nor a constant-format Sprintf: "+an.Path(arg))
	}
	for _, fn := range fns {
		an.Instrs(fn, func(in ssa.Instruction) {
			if !an.IsCallTo(in, "(*Snapshotter).tryAppend", "bufio.(*Writer).WriteString", "(*Snapshotter).appendLine") {
				return
			}
			if an.FuncName(fn) == "(*Snapshotter).tryAppend" || an.FuncName(fn) == "(*Snapshotter).appendLine" {
				return // pass-through of the parameter
			}
			owner := fn
			for owner.Parent() != nil {
				owner = owner.Parent()
			}
			addLine(owner, in, an.CallOf(in).Args[1], 0)
		})
	}
	c.Floor("R1", "snapshot line write sites", len(writes), 9)

	// ---- reader table
	rp := sm(c, "R1", "Snapshotter", "replay")
	if rp == nil {
		return
	}
	var reads []*snapRead
	for _, b := range rp.Blocks {
		if len(b.Instrs) == 0 {
			continue
		}
		iff, ok := b.Instrs[len(b.Instrs)-1].(*ssa.If)
		if !ok {
			continue
		}
		switch x := iff.Cond.(type) {
		case *ssa.Extract:
			if call, ok := x.Tuple.(*ssa.Call); ok && an.IsCallTo(call, "strings.CutPrefix") && x.Index == 1 {
				lit, _ := an.ConstString(call.Call.Args[1])
				reads = append(reads, &snapRead{test: call, kind: "cut", lit: lit, edge: an.Edge{From: b, Succ: 0}})
			}
		case *ssa.Call:
			if an.IsCallTo(x, "strings.HasPrefix") {
				lit, _ := an.ConstString(x.Call.Args[1])
				reads = append(reads, &snapRead{test: x, kind: "has", lit: lit, edge: an.Edge{From: b, Succ: 0}})
			}
		case *ssa.BinOp:
			if x.Op.String() == "==" {
				if lit, ok := an.ConstString(x.Y); ok && strings.Contains(an.Path(x.X), "ReadString(") {
					reads = append(reads, &snapRead{test: x, kind: "eq", lit: lit, edge: an.Edge{From: b, Succ: 0}})
				}
			}
		}
	}
	sort.Slice(reads, func(i, j int) bool { return reads[i].test.Pos() < reads[j].test.Pos() })
	c.Floor("R1", "reader branches in replay", len(reads), 8)
	// chain order: each later test is reached only when all earlier tests failed
	for i := 1; i < len(reads); i++ {
		prev := reads[i-1]
		failEdge := []an.Edge{{From: prev.edge.From, Succ: 1}}
		c.Add(an.Guarded(rp, reads[i].test, failEdge), "R1", "replay:chain-order:"+reads[i].lit, reads[i].test, "the test for "+quoteS(reads[i].lit)+" runs only when the test for "+quoteS(prev.lit)+" failed (first-match chain)", "edge dominance")
	}
	// fields restored per branch
	stateOf := func(in ssa.Instruction) string {
		switch x := in.(type) {
		case *ssa.MapUpdate:
			if an.Path(x.Map) == "$0.aliveNodes" {
				return "aliveNodes"
			}
		case *ssa.Store:
			p := an.Path(x.Addr)
			if strings.HasPrefix(p, "&$0.") && !strings.Contains(p[4:], ".") {
				return p[4:]
			}
		case *ssa.Call:
			if b, ok := x.Call.Value.(*ssa.Builtin); ok && b.Name() == "delete" && an.Path(x.Call.Args[0]) == "$0.aliveNodes" {
				return "aliveNodes"
			}
		}
		return ""
	}
	for _, r := range reads {
		seen := map[string]bool{}
		an.Instrs(rp, func(in ssa.Instruction) {
			f := stateOf(in)
			if f == "" || seen[f] {
				return
			}
			if an.Guarded(rp, in, []an.Edge{r.edge}) {
				seen[f] = true
				r.fields = append(r.fields, f)
			}
		})
		sort.Strings(r.fields)
	}

	// expected record kinds (from the property statement: rejoin set + three clocks + leave)
	kindField := map[string]string{"alive: ": "aliveNodes", "not-alive: ": "aliveNodes", "clock: ": "lastClock", "event-clock: ": "lastEventClock", "query-clock: ": "lastQueryClock"}

	firstMatch := func(head string, whole string) (*snapRead, bool) {
		for _, r := range reads {
			switch r.kind {
			case "cut", "has":
				if strings.HasPrefix(head, r.lit) {
					return r, true
				}
				if strings.HasPrefix(r.lit, head) && head != r.lit {
					return r, false // depends on the arguments: ambiguous
				}
			case "eq":
				if whole == r.lit {
					return r, true
				}
			}
		}
		return nil, true
	}

	heads := map[string]bool{}
	for _, w := range writes {
		head, verbs, seps := splitFormat(w.format)
		heads[head] = true
		wn := an.FuncName(w.fn)
		key := wn + ":" + quoteS(strings.TrimSuffix(w.format, "\n"))
		c.Add(strings.HasSuffix(w.format, "\n") && strings.Count(w.format, "\n") == 1, "R1", key+":one-line", w.at, "the record is exactly one newline-terminated line", "constant format")
		r, certain := firstMatch(head, strings.TrimSuffix(w.format, "\n"))
		if r == nil {
			c.Add(false, "R1", key+":has-reader", w.at, "no reader branch matches a line starting with "+quoteS(head), "")
			continue
		}
		c.Add(certain && (r.lit == head), "R1", key+":first-match", w.at, "the first reader branch matching this line is the one for "+quoteS(head)+" (matched "+quoteS(r.lit)+")", "prefix chain evaluation")
		if !certain || r.lit != head {
			continue
		}
		// verbs ↔ parses
		switch strings.Join(verbs, "") {
		case "%d":
			okP := false
			for _, call := range an.CallsTo(rp, "strconv.ParseUint") {
				if !an.Guarded(rp, call, []an.Edge{r.edge}) {
					continue
				}
				a := an.CallOf(call).Args
				base, _ := an.ConstInt(a[1])
				bits, _ := an.ConstInt(a[2])
				okP = base == 10 && bits == 64 && strings.HasSuffix(an.Path(a[0]), "#0") && strings.Contains(an.Path(a[0]), quoteC(r.lit))
			}
			// or through a helper shared by several branches: the branch hands the remainder to a transparent
			// helper whose body parses that parameter with ParseUint(p, 10, 64)
			if !okP {
				an.Instrs(rp, func(in ssa.Instruction) {
					call, isCall := in.(*ssa.Call)
					if !isCall || in.Parent() != rp || !an.Guarded(rp, in, []an.Edge{r.edge}) {
						return
					}
					h := an.StaticCallee(&call.Call)
					if h == nil || !an.Transparent(h) {
						return
					}
					for k, arg := range call.Call.Args {
						ap := an.Path(arg)
						if !strings.HasSuffix(ap, "#0") || !strings.Contains(ap, quoteC(r.lit)) {
							continue
						}
						an.InstrsShallow(h, func(x ssa.Instruction) {
							if !an.IsCallTo(x, "strconv.ParseUint") {
								return
							}
							pa := an.CallOf(x).Args
							base, _ := an.ConstInt(pa[1])
							bits, _ := an.ConstInt(pa[2])
							if par, isPar := pa[0].(*ssa.Parameter); isPar && k < len(h.Params) && par == h.Params[k] && base == 10 && bits == 64 {
								okP = true
							}
						})
					}
				})
			}
			c.Add(okP, "R1", key+":parse-%d", w.at, "the %d record is parsed with ParseUint(rest, 10, 64) on the remainder after the prefix", "call arguments")
			okT := len(w.args) == 1 && strings.HasSuffix(w.args[0].Type().String(), "LamportTime")
			if len(w.args) == 1 {
				if mi, ok := w.args[0].(*ssa.MakeInterface); ok {
					okT = strings.HasSuffix(mi.X.Type().String(), "LamportTime")
				}
			}
			c.Add(okT, "R1", key+":arg-type", w.at, "the %d argument is a LamportTime (uint64)", "argument type")
		case "%s%s":
			c.Add(len(seps) == 2 && seps[0] == " " && seps[1] == "\n", "R1", key+":separators", w.at, "two %s fields separated by one space", "constant format")
			okSplit := false
			for _, call := range an.CallsTo(rp, "strings.LastIndex") {
				if an.Guarded(rp, call, []an.Edge{r.edge}) {
					sep, _ := an.ConstString(an.CallOf(call).Args[1])
					okSplit = sep == " "
				}
			}
			c.Add(okSplit, "R1", key+":split-last", w.at, "the reader splits the two fields at the LAST space (the second field is space-free, the first may contain spaces)", "call enumeration")
			okKV := false
			an.Instrs(rp, func(in ssa.Instruction) {
				mu, ok := in.(*ssa.MapUpdate)
				if !ok || an.Path(mu.Map) != "$0.aliveNodes" {
					return
				}
				k, v := an.Path(mu.Key), an.Path(mu.Value)
				okKV = strings.Contains(k, "[:strings.LastIndex(") && strings.Contains(v, "[(strings.LastIndex(") && strings.HasSuffix(v, "+c:1):]")
			})
			c.Add(okKV, "R1", key+":field-order", w.at, "first field (before the last space) is the key, second field the value — the writer's argument order (name, addr)", "map update paths")
		case "%s":
			okD := false
			an.Instrs(rp, func(in ssa.Instruction) {
				call, ok := in.(*ssa.Call)
				if !ok {
					return
				}
				if b, ok := call.Call.Value.(*ssa.Builtin); ok && b.Name() == "delete" && an.Guarded(rp, in, []an.Edge{r.edge}) {
					okD = strings.HasSuffix(an.Path(call.Call.Args[1]), quoteC(r.lit)+")#0")
				}
			})
			c.Add(okD, "R1", key+":whole-remainder", w.at, "the single %s field is the whole remainder of the line", "call argument path")
		case "":
		default:
			c.Undecided("R1", key+":verbs", w.at, "unexpected verb sequence "+strings.Join(verbs, ""))
		}
		// kind ↔ field
		if want, ok := kindField[head]; ok {
			c.Add(len(r.fields) == 1 && r.fields[0] == want, "R1", key+":restores-field", w.at, "the reader branch for "+quoteS(head)+" restores exactly "+want+" (restores "+strings.Join(r.fields, ",")+")", "guarded state-write enumeration")
			// the writer's argument comes from that field (clocks) or the record is written next to an update of that field
			if strings.HasPrefix(want, "last") {
				okSrc := false
				if len(w.args) == 1 {
					p := an.Path(w.args[0])
					if p == "$0."+want {
						okSrc = true
					}
					for _, st := range an.StoresTo(w.fn, "."+want) {
						if an.Path(st.Val) == p && an.Dominates(st, w.at) {
							okSrc = true
						}
					}
				}
				c.Add(okSrc, "R1", key+":writes-field", w.at, "the value written is the value of "+want, "argument provenance")
			}
		} else if strings.TrimSuffix(w.format, "\n") == "leave" {
			c.Add(len(r.fields) == 4, "R1", key+":restores-field", w.at, "the leave record resets the alive set and the three clocks (resets "+strings.Join(r.fields, ",")+")", "guarded state-write enumeration")
		} else {
			c.Undecided("R1", key+":unknown-kind", w.at, "record kind "+quoteS(head)+" is not in the rule table")
		}
	}
	// every reader branch that restores state has a writer
	for _, r := range reads {
		if len(r.fields) == 0 {
			c.Exemption("reader branch "+quoteS(r.lit), "restores no state (legacy or comment line)")
			continue
		}
		has := heads[r.lit]
		if r.kind == "eq" {
			has = heads[r.lit]
		}
		c.Add(has, "R1", "replay:branch-has-writer:"+r.lit, r.test, "the reader branch "+quoteS(r.lit)+" (restores "+strings.Join(r.fields, ",")+") has a writer", "table join")
	}

	// ---- R2
	replayFields := map[string]bool{}
	for _, r := range reads {
		if r.kind == "eq" {
			continue
		}
		for _, f := range r.fields {
			replayFields[f] = true
		}
	}
	appendFormats := map[string]bool{}
	for _, w := range writes {
		if an.FuncName(w.fn) != "(*Snapshotter).compact" {
			appendFormats[w.format] = true
		}
	}
	covered := map[string]bool{}
	for _, w := range writes {
		if an.FuncName(w.fn) != "(*Snapshotter).compact" {
			continue
		}
		head, _, _ := splitFormat(w.format)
		key := "compact:" + quoteS(strings.TrimSuffix(w.format, "\n"))
		c.Add(appendFormats[w.format], "R2", key+":same-format-as-append", w.at, "compaction uses a format the append path also uses", "format table")
		want := kindField[head]
		ok := false
		switch want {
		case "aliveNodes":
			ok = len(w.args) == 2 && an.Path(w.args[0]) == "next(range($0.aliveNodes))#1" && an.Path(w.args[1]) == "next(range($0.aliveNodes))#2"
		case "":
		default:
			ok = len(w.args) == 1 && an.Path(w.args[0]) == "$0."+want
		}
		c.Add(ok, "R2", key+":from-field", w.at, "compaction serialises "+want+" from the in-memory field", "argument provenance")
		if ok {
			covered[want] = true
		}
	}
	for f := range replayFields {
		c.Add(covered[f], "R2", "compact:covers:"+f, rp, "state field "+f+" restored by replay is serialised by compaction", "coverage join")
	}
	c.Floor("R2", "state fields restored by replay", len(replayFields), 4)

	// ---- R3
	for _, w := range writes {
		fn := an.FuncName(w.fn)
		if fn == "(*Snapshotter).compact" || fn == "(*Snapshotter).stream" {
			continue
		}
		head, _, _ := splitFormat(w.format)
		want := kindField[head]
		if want == "" {
			continue
		}
		ok := false
		an.Instrs(w.fn, func(in ssa.Instruction) {
			f := stateOf(in)
			if f == want && an.Dominates(in, w.at) {
				ok = true
			}
		})
		c.Add(ok, "R3", fn+":state-before-append:"+strings.TrimSpace(head), w.at, "the in-memory "+want+" is updated before the "+quoteS(head)+" line is appended (a compaction inside the append then contains it)", "dominance")
	}

	// ---- R6 a recorder writes its line whenever the event is of its kind (and, for clocks, newer): nothing
	// else — in particular not what the in-memory state already holds — may suppress the record, or the
	// file falls behind memory until the next compaction
	c.Rule("R8 (shared with C11) replay reads every line of the file: nothing a line says ends the replay early")
	replayEveryLine(c, "R8")
	c.Rule("R7 (shared with C11) the compaction's temporary file is opened truncated and the live file append-only: a compacted image contains the current state only, never the tail or head of an earlier interrupted compaction")
	nO := 0
	for _, fn := range snapFuncs(c) {
		nO += snapshotOpenFlags(c, fn, "R7", "R7")
	}
	c.Floor("R7", "os.OpenFile calls of the snapshotter", nO, 3)
	c.Rule("R6 each recorder appends its line under no other condition than the event's type, the member loop and (for clocks) 'newer than recorded'")
	nRec := 0
	for _, w := range writes {
		fn := an.FuncName(w.fn)
		if fn == "(*Snapshotter).compact" || fn == "(*Snapshotter).stream" || fn == "NewSnapshotter" {
			continue
		}
		nRec++
		extra := ""
		for _, f := range necessaryFacts(w.fn, w.at) {
			switch {
			case f.L == "$1.Type" && strings.HasPrefix(f.R, "c:"):
			case strings.HasPrefix(f.L, "(phi:rangeindex@") || strings.HasPrefix(f.L, "phi:rangeindex@"):
			case strings.HasPrefix(f.L, "phi@") && f.Op == "<" && f.R == "len($1.Members)": // the indexed form of the member loop
			case (f.L == "$1.LTime" || strings.HasPrefix(f.L, "((*LamportClock).Time($0.clock)")) && (f.Op == ">" || f.Op == ">=") && strings.HasPrefix(f.R, "$0.last"):
			default:
				extra += f.String() + "; "
			}
		}
		head, _, _ := splitFormat(w.format)
		c.Add(extra == "", "R6", fn+":records-unconditionally:"+strings.TrimSpace(head), w.at, "the "+quoteS(head)+" line is appended for every event of its kind (other conditions: "+extra+")", "necessary-edge enumeration")
	}
	c.Floor("R6", "recorder write sites", nRec, 5)

	// ---- R4
	if cr := sf(c, "R4", "Create"); cr != nil {
		pairs := map[string]string{"clock": "LastClock", "eventClock": "LastEventClock", "queryClock": "LastQueryClock"}
		got := 0
		for _, call := range an.CallsTo(cr, "(*LamportClock).Witness") {
			a := an.CallOf(call).Args
			clk := strings.TrimPrefix(an.Path(a[0]), "&")
			i := strings.LastIndex(clk, ".")
			clk = clk[i+1:]
			getter, ok := pairs[clk]
			if !ok {
				continue
			}
			// value: phi [c:0 | getter(snap)] or direct getter
			okV := false
			check := func(v ssa.Value) bool {
				return strings.HasPrefix(an.Path(v), "(*Snapshotter)."+getter+"(")
			}
			if phi, isPhi := a[1].(*ssa.Phi); isPhi {
				n := 0
				for _, e := range phi.Edges {
					if check(e) {
						n++
					} else if an.Path(e) != "c:0" {
						n = -100
					}
				}
				okV = n >= 1
			} else {
				okV = check(a[1])
			}
			got++
			c.Add(okV, "R4", "Create:restore:"+clk, call, clk+" is restored from the snapshot's "+getter+"() (got "+an.Path(a[1])+")", "phi operands / value path")
		}
		c.Add(got == 3, "R4", "Create:three-clocks-restored", cr, "all three clocks are restored", "call enumeration")
		okRejoin := false
		for _, g := range an.FindInstrs(cr, func(in ssa.Instruction) bool { _, ok := in.(*ssa.Go); return ok }) {
			cc := an.CallOf(g)
			if f := an.StaticCallee(cc); f != nil && an.CalleeName(f) == "(*Serf).handleRejoin" {
				if phi, ok := cc.Args[1].(*ssa.Phi); ok {
					for _, e := range phi.Edges {
						if strings.HasPrefix(an.Path(e), "(*Snapshotter).AliveNodes(") {
							okRejoin = true
						}
					}
				} else if strings.HasPrefix(an.Path(cc.Args[1]), "(*Snapshotter).AliveNodes(") {
					okRejoin = true
				}
			}
		}
		c.Add(okRejoin, "R4", "Create:rejoin-alive-nodes", cr, "the rejoin list is the snapshot's AliveNodes()", "value path")
	}
	// getters return the matching fields
	for g, f := range map[string]string{"LastClock": "lastClock", "LastEventClock": "lastEventClock", "LastQueryClock": "lastQueryClock"} {
		if m := sm(c, "R4", "Snapshotter", g); m != nil {
			ok := true
			for _, r := range an.Returns(m) {
				if an.Path(an.ResultValues(r)[0]) != "$0."+f {
					ok = false
				}
			}
			c.Add(ok, "R4", g+":returns-field", m, g+"() returns "+f, "result path")
		}
	}
	if m := sm(c, "R4", "Snapshotter", "AliveNodes"); m != nil {
		ok := false
		an.Instrs(m, func(in ssa.Instruction) {
			if r, isR := in.(*ssa.Range); isR && an.Path(r.X) == "$0.aliveNodes" {
				ok = true
			}
		})
		c.Add(ok, "R4", "AliveNodes:from-field", m, "AliveNodes() is built from the alive set", "range enumeration")
	}

	// ---- R5 taint
	for _, w := range writes {
		_, verbs, _ := splitFormat(w.format)
		fn := an.FuncName(w.fn)
		for i, v := range verbs {
			if v != "%s" || i >= len(w.args) {
				continue
			}
			p := an.Path(w.args[i])
			clean := strings.HasPrefix(p, "net.(*TCPAddr).String(") || strings.HasPrefix(p, "net.(*UDPAddr).String(")
			if p == "next(range($0.aliveNodes))#2" {
				// alive-set values: every writer of the map stores an address string or a
				// newline-free remainder of a line read with ReadString('\n')
				clean = true
				for _, a := range an.FieldAccesses(fns, "Snapshotter", "aliveNodes") {
					if a.Kind != "mapupdate" {
						continue
					}
					vp := an.Path(a.Val)
					if !(strings.HasPrefix(vp, "net.(*TCPAddr).String(") || strings.Contains(vp, "ReadString(")) {
						clean = false
					}
				}
			}
			if !clean {
				nl := func(f an.Cmp) bool {
					return strings.HasPrefix(f.L, "strings.Contains") && strings.Contains(f.L, p) && strings.Contains(f.L, `\n`) && f.Op == "==" && f.R == "c:false"
				}
				clean = an.Guarded(w.fn, w.at, an.EdgesWhere(w.fn, nl))
			}
			head, _, _ := splitFormat(w.format)
			c.Add(clean, "R5", fn+":newline-free:"+strings.TrimSpace(head)+":arg"+itoa(i), w.at, "%s argument "+itoa(i)+" ("+p+") of the "+quoteS(head)+" line cannot contain a newline (a name containing \"\\nleave\\n\" injects records)", "provenance: address string, line remainder, or guarded by a newline test")
		}
	}
}

func quoteS(s string) string { return "\"" + strings.ReplaceAll(s, "\n", "\\n") + "\"" }
func quoteC(s string) string { return "c:\"" + s + "\"" }
