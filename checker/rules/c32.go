package rules

import (
	"go/types"
	"sort"
	"strings"

	"serfcheck/an"

	"golang.org/x/tools/go/ssa"
)

func init() {
	register(&Rule{
		ID:      "C32",
		Explain: "Decides encoding agreement as table agreement, not value round-trip: for every message-type tag the Go struct type passed to encodeMessage/encodeRelayMessage under that tag equals the type decoded in the arm/guard for that tag (NotifyMsg switch, push/pull guard, conflict and key-response guards); the untagged key-request decode site decodes a type that is encoded under exactly one tag; every tag has both sides; the tag codec writes the magic byte the decoder tests, uses the role-only form exactly below protocol 3 and the same msgpack handle type on both sides; the relay forwarder sends exactly the reader's remainder after the header to the header's destination, and the relay encoder lays out tag, header, inner tag, message in that order; a tag set is installed only if its encoding fits memberlist's metadata limit (SetTags and Create). msgpack's own round-trip is the trusted base.",
		Run:     runC32,
		Mutants: []Mutant{
			{Name: "update-skips-unchanged-looking-meta", File: "serf/serf.go", Func: "func (s *Serf) handleNodeUpdate(", Old: "\tmember.Tags = s.decodeTags(n.Meta)\n", New: "\tif len(n.Meta) != len(s.encodeTags(member.Tags)) {\n\t\tmember.Tags = s.decodeTags(n.Meta)\n\t}\n", Expect: "R6"},
			{Name: "rename-locals", Equivalent: true, Regexp: true, File: "serf/delegate.go", Func: "func (d *delegate) NotifyMsg(", Old: `\b(header|reader|raw|rebroadcast|rebroadcastQueue)\b`, New: "${1}Renamed"},
			{Name: "decode-under-wrong-tag", File: "serf/keymanager.go", Func: "func (k *KeyManager) streamKeyResp(", Old: "messageType(r.Payload[0]) != messageKeyResponseType", New: "messageType(r.Payload[0]) != messageConflictResponseType", Expect: "R1"},
			{Name: "encode-under-wrong-tag", File: "serf/internal_query.go", Func: "func (s *serfQueries) handleConflict(", Old: "encodeMessage(messageConflictResponseType, out,", New: "encodeMessage(messageKeyResponseType, out,", Expect: "R1"},
			{Name: "magic-byte-mismatch", File: "serf/serf.go", Func: "func (s *Serf) decodeTags(", Old: "buf[0] != tagMagicByte", New: "buf[0] != tagMagicByte-1", Expect: "R2"},
			{Name: "role-only-below-4", File: "serf/serf.go", Func: "func (s *Serf) encodeTags(", Old: "if s.ProtocolVersion() < 3 {", New: "if s.ProtocolVersion() < 4 {", Expect: "R2"},
			{Name: "relay-forwards-whole-buffer", File: "serf/delegate.go", Func: "func (d *delegate) NotifyMsg(", Old: "d.serf.memberlist.SendToAddress(addr, raw)", New: "d.serf.memberlist.SendToAddress(addr, buf[1:])", Expect: "R3"},
			{Name: "settags-no-limit", File: "serf/serf.go", Func: "func (s *Serf) SetTags(", Old: "if len(s.encodeTags(tags)) > memberlist.MetaMaxSize {", New: "if len(s.encodeTags(tags)) > 2*memberlist.MetaMaxSize {", Expect: "R4"},
			{Name: "settags-checks-old-tags", File: "serf/serf.go", Func: "func (s *Serf) SetTags(", Old: "if len(s.encodeTags(tags)) > memberlist.MetaMaxSize {", New: "if len(s.encodeTags(s.config.Tags)) > memberlist.MetaMaxSize {", Expect: "R4"},
			{Name: "relay-inner-tag-missing", File: "serf/messages.go", Func: "func encodeRelayMessage(", Old: "\tbuf.WriteByte(uint8(t))\n\terr = encoder.Encode(msg)", New: "\terr = encoder.Encode(msg)", Expect: "R3"},
			{Name: "pushpull-guard-wrong-tag", File: "serf/delegate.go", Func: "func (d *delegate) MergeRemoteState(", Old: "if messageType(buf[0]) != messagePushPullType {", New: "if messageType(buf[0]) != messageUserEventType {", Expect: "R1"},
		},
	})
}

func namedOf(t types.Type) string {
	for {
		switch x := t.(type) {
		case *types.Pointer:
			t = x.Elem()
			continue
		case *types.Named:
			if _, isStruct := x.Underlying().(*types.Struct); !isStruct {
				return x.Underlying().String() // e.g. filterNode is []string on the wire
			}
			return x.Obj().Name()
		case *types.Alias:
			return x.Obj().Name()
		}
		return t.String()
	}
}

func ifaceArgType(v ssa.Value) string {
	if mi, ok := v.(*ssa.MakeInterface); ok {
		return namedOf(mi.X.Type())
	}
	return "?" + v.Type().String()
}

func runC32(c *an.Ctx) {
	c.Rule("R1 (tag ↔ Go type) table: encoded type under tag T = type decoded behind the guard for T; untagged decode sites decode a type encoded under exactly one tag; every tag has both sides")
	c.Rule("R2 tag codec: same magic byte; role-only exactly below protocol 3; same handle type; role key")
	c.Rule("R3 relay: forwarder sends the reader's remainder to the header's destination; encoder layout = relay tag, header, inner tag, message")
	c.Rule("R4 tags installed only if len(encodeTags(tags)) <= memberlist.MetaMaxSize on the same map (SetTags, Create)")
	c.Rule("R6 a member's tags are always the decoding of the metadata that arrived last: handleNodeJoin and handleNodeUpdate store decodeTags(n.Meta) into the member on every path that has a member (no cache, no skip)")
	for _, name := range []string{"handleNodeJoin", "handleNodeUpdate"} {
		fn := sm(c, "R6", "Serf", name)
		if fn == nil {
			continue
		}
		isTags := func(in ssa.Instruction) bool {
			st, ok := in.(*ssa.Store)
			if !ok {
				return false
			}
			_, f, okF := an.FieldOf(st.Addr)
			return okF && f == "Tags"
		}
		n := 0
		for _, in := range an.FindInstrs(fn, isTags) {
			n++
			p := an.Path(in.(*ssa.Store).Val)
			c.Add(p == "(*Serf).decodeTags($0,$1.Meta)", "R6", name+":tags-from-meta", in, "the member's tags are decoded from the metadata of this notification (stores "+short(p)+")", "store value path")
		}
		c.Floor("R6", "tag stores in "+name, n, 1)
		unknown := an.EdgesWhere(fn, func(f an.Cmp) bool {
			return strings.HasPrefix(f.L, "$0.members[") && strings.HasSuffix(f.L, "#1") && f.Op == "==" && f.R == "c:false"
		})
		if name == "handleNodeJoin" {
			// a join always ends with a member (the new-member branch stores the tags too); the only
			// early exit is the test hook that drops the message
			unknown = an.EdgesWhere(fn, func(f an.Cmp) bool {
				return strings.Contains(f.L, "config.messageDropper(") && f.Op == "==" && f.R == "c:true"
			})
		}
		skip := an.ReachFrom(fn, nil, &an.Cut{Edges: unknown, Instrs: isTags}, an.IsExit)
		c.Add(skip == nil, "R6", name+":tags-always-decoded", fn, "every path through "+name+" that has a member stores freshly decoded tags (only 'member unknown' may skip it)", "reach/cut must-pass")
		if skip != nil {
			c.Obs[len(c.Obs)-1].Desc += " — exit without it at " + c.P.InstrPos(skip)
		}
	}
	c.Rule("R5 every gossip decode into a local variable decodes into a fresh zero value (the decoder leaves absent fields untouched, so a reused target mixes two messages)")
	c.Floor("R5", "decode sites with a local target", decodeTargetsFresh(c, "R5", c.P.FuncsIn(serf)), 12)
	// tag names
	tagName := map[string]string{}
	for _, n := range []string{"messageLeaveType", "messageJoinType", "messagePushPullType", "messageUserEventType", "messageQueryType", "messageQueryResponseType", "messageConflictResponseType", "messageKeyRequestType", "messageKeyResponseType", "messageRelayType"} {
		tagName[cv(c, serf, n)] = n
	}
	enc := map[string]map[string]bool{}
	dec := map[string]map[string]bool{}
	add := func(m map[string]map[string]bool, tag, typ string) {
		if m[tag] == nil {
			m[tag] = map[string]bool{}
		}
		m[tag][typ] = true
	}
	nEnc, nDec := 0, 0
	d := &discharger{c: c}
	var encodeSite func(fn *ssa.Function, call ssa.Instruction, tagArg, msgArg ssa.Value, depth int)
	encodeSite = func(fn *ssa.Function, call ssa.Instruction, tagArg, msgArg ssa.Value, depth int) {
		tp := an.Path(tagArg)
		if strings.HasPrefix(tp, "c:") {
			typ := ifaceArgType(msgArg)
			if strings.HasPrefix(typ, "?") {
				c.Undecided("R1", an.FuncName(fn)+":encode-type", call, "cannot determine the encoded Go type ("+typ+")")
				return
			}
			nEnc++
			add(enc, tp, typ)
			return
		}
		// pass-through parameters: resolve at the callers
		pt, okT := tagArg.(*ssa.Parameter)
		pm, okM := msgArg.(*ssa.Parameter)
		if okT && okM && depth < 3 {
			ti, mi := -1, -1
			for i, p := range fn.Params {
				if p == pt {
					ti = i
				}
				if p == pm {
					mi = i
				}
			}
			sites := d.allCallSites(fn)
			if len(sites) == 0 {
				c.Undecided("R1", an.FuncName(fn)+":encode-passthrough", call, "pass-through encoder with unknown callers")
				return
			}
			for _, s := range sites {
				a := an.CallOf(s).Args
				encodeSite(s.Parent(), s, a[ti], a[mi], depth+1)
			}
			return
		}
		c.Undecided("R1", an.FuncName(fn)+":encode-tag", call, "encode site with a non-constant tag "+tp)
	}
	for _, fn := range c.P.FuncsIn(serf) {
		for _, call := range an.CallsTo(fn, "encodeMessage") {
			a := an.CallOf(call).Args
			encodeSite(fn, call, a[0], a[1], 0)
		}
		for _, call := range an.CallsTo(fn, "encodeRelayMessage") {
			a := an.CallOf(call).Args
			encodeSite(fn, call, a[0], a[3], 0)
		}
		for _, call := range an.CallsTo(fn, "decodeMessage") {
			a := an.CallOf(call).Args
			typ := ifaceArgType(a[1])
			if an.FuncName(fn) == "decodeKeyRequest" {
				typ = "keyRequest"
			}
			sl, ok := a[0].(*ssa.Slice)
			if !ok {
				c.Undecided("R1", an.FuncName(fn)+":decode-input", call, "decode of something that is not buf[1:]")
				continue
			}
			base := an.Path(sl.X)
			if lo, _ := an.ConstInt(sl.Low); lo != 1 {
				c.Add(false, "R1", an.FuncName(fn)+":decode-offset", call, "the message body starts after one tag byte (slice "+an.Path(sl)+")", "")
				continue
			}
			// the tag guard: a necessary fact base[0] == c:N
			tag := ""
			for _, f := range necessaryFacts(fn, call) {
				if f.L == base+"[c:0]" && f.Op == "==" && strings.HasPrefix(f.R, "c:") {
					tag = f.R
				}
			}
			nDec++
			if tag == "" {
				add(dec, "untagged", typ)
				continue
			}
			if _, known := tagName[tag]; !known && an.FuncName(fn) != "(*Serf).shouldProcessQuery" {
				c.Add(false, "R1", an.FuncName(fn)+":decode-unknown-tag", call, "decode guarded by a tag value "+tag+" that is not a message type", "")
				continue
			}
			if an.FuncName(fn) == "(*Serf).shouldProcessQuery" {
				add(dec, "filter:"+tag, typ)
				continue
			}
			add(dec, tag, typ)
		}
		for _, call := range an.CallsTo(fn, "encodeFilter") {
			a := an.CallOf(call).Args
			add(enc, "filter:"+an.Path(a[0]), ifaceArgType(a[1]))
		}
	}
	c.Floor("R1", "encode sites", nEnc, 10)
	c.Floor("R1", "decode sites", nDec, 10)
	set := func(m map[string]bool) string {
		var ks []string
		for k := range m {
			ks = append(ks, k)
		}
		sort.Strings(ks)
		return strings.Join(ks, ",")
	}
	relayTag := cv(c, serf, "messageRelayType")
	for tag, name := range tagName {
		if tag == relayTag {
			continue // envelope: checked under R3
		}
		e, dd := enc[tag], dec[tag]
		if name == "messageKeyRequestType" {
			// decoded at the untagged key-request site
			dd = dec["untagged"]
		}
		c.Add(len(e) == 1 && len(dd) == 1 && set(e) == set(dd), "R1", "table:"+name, nil, "tag "+name+": encoded type {"+set(e)+"} = decoded type {"+set(dd)+"}", "table join over all encode/decode sites")
	}
	// untagged decode: type encoded under exactly one tag
	for typ := range dec["untagged"] {
		n := 0
		for _, e := range enc {
			if e[typ] {
				n++
			}
		}
		c.Add(n == 1, "R1", "untagged-decode:"+typ, nil, "the untagged decode site decodes "+typ+", which is encoded under exactly one tag", "table join")
	}
	// filters
	for _, k := range []string{cv(c, serf, "filterNodeType"), cv(c, serf, "filterTagType")} {
		e, dd := enc["filter:"+k], dec["filter:"+k]
		c.Add(len(e) == 1 && set(e) == set(dd), "R1", "filter-table:"+k, nil, "filter type "+k+": encoded {"+set(e)+"} = decoded {"+set(dd)+"}", "table join")
	}
	// encodeMessage writes the tag first; decodeMessage and encodeMessage use the same handle type
	if em := sf(c, "R1", "encodeMessage"); em != nil {
		wb := an.CallsTo(em, "bytes.(*Buffer).WriteByte")
		ok := len(wb) == 1 && an.Path(an.CallOf(wb[0]).Args[1]) == "$0"
		for _, e := range an.FindInstrs(em, func(in ssa.Instruction) bool { return an.IsCallTo(in, "codec.(*Encoder).Encode") }) {
			ok = ok && len(wb) == 1 && an.Dominates(wb[0], e) && an.Path(an.CallOf(e).Args[1]) == "$1"
		}
		c.Add(ok, "R1", "encodeMessage:layout", em, "encodeMessage writes the tag byte and then the msgpack encoding of the message", "call order")
	}

	// ---- R2 tag codec
	et := sm(c, "R2", "Serf", "encodeTags")
	dt := sm(c, "R2", "Serf", "decodeTags")
	magic := cv(c, serf, "tagMagicByte")
	if et != nil && dt != nil {
		okW := false
		for _, w := range an.CallsTo(et, "bytes.(*Buffer).WriteByte") {
			okW = an.Path(an.CallOf(w).Args[1]) == magic
			for _, e := range an.CallsTo(et, "codec.(*Encoder).Encode") {
				okW = okW && an.Dominates(w, e) && an.Path(an.CallOf(e).Args[1]) == "$1"
			}
		}
		c.Add(okW, "R2", "encodeTags:magic-then-map", et, "the full form is the magic byte followed by the msgpack encoding of the tag map", "call order + constant")
		okR := len(an.EdgesImplying(dt, an.Cmp{L: "$1[c:0]", Op: "!=", R: magic})) > 0
		for _, dc := range an.CallsTo(dt, "codec.(*Decoder).Decode") {
			// the test may be computed as a value first (a predicate helper): then it shows as the decode's guard
			okR = okR || an.GuardedBy(dt, dc, an.Cmp{L: "$1[c:0]", Op: "==", R: magic})
		}
		c.Add(okR, "R2", "decodeTags:tests-magic", dt, "the decoder tests the first byte against the same magic byte "+magic, "edge enumeration")
		// role-only exactly below protocol 3
		for _, r := range an.Returns(et) {
			v := an.ResultValues(r)[0]
			p := an.Path(v)
			if p == `$1[c:"role"]` {
				c.Add(an.GuardedBy(et, r, an.Cmp{L: "(*Serf).ProtocolVersion($0)", Op: "<", R: "c:3"}), "R2", "encodeTags:role-only-below-3", r, "the role-only form is produced exactly below protocol version 3", "edge dominance")
			} else {
				c.Add(an.GuardedBy(et, r, an.Cmp{L: "(*Serf).ProtocolVersion($0)", Op: ">=", R: "c:3"}), "R2", "encodeTags:full-from-3", r, "the full form is produced from protocol version 3 on", "edge dominance")
			}
		}
		okRole := false
		an.Instrs(dt, func(in ssa.Instruction) {
			if mu, ok := in.(*ssa.MapUpdate); ok && an.Path(mu.Key) == `c:"role"` && an.Path(mu.Value) == "$1" {
				// "empty" may be written == 0, <= 0 or < 1 (a length is never negative)
				okRole = an.GuardedAny(dt, in, an.Cmp{L: "len($1)", Op: "==", R: "c:0"}, an.Cmp{L: "len($1)", Op: "<=", R: "c:0"}, an.Cmp{L: "len($1)", Op: "<", R: "c:1"}, an.Cmp{L: "$1[c:0]", Op: "!=", R: magic})
			}
		})
		c.Add(okRole, "R2", "decodeTags:role-fallback", dt, "a buffer without the magic byte is taken whole as the role tag", "map update + edge dominance")
		for _, dc := range an.CallsTo(dt, "codec.(*Decoder).Decode") {
			ok := an.GuardedBy(dt, dc, an.Cmp{L: "$1[c:0]", Op: "==", R: magic}) && strings.Contains(an.Path(an.CallOf(dc).Args[0]), "bytes.NewReader($1[c:1:])")
			c.Add(ok, "R2", "decodeTags:decodes-after-magic", dc, "the map is decoded from the bytes after the magic byte", "edge dominance + argument path")
		}
		// same handle type on both sides
		ht := func(fn *ssa.Function) string {
			out := ""
			an.Instrs(fn, func(in ssa.Instruction) {
				if call, ok := in.(*ssa.Call); ok && (an.IsCallTo(call, "codec.NewEncoder") || an.IsCallTo(call, "codec.NewDecoder")) {
					a := call.Call.Args[1]
					if mi, ok := a.(*ssa.MakeInterface); ok {
						out = mi.X.Type().String()
					}
				}
			})
			return out
		}
		c.Add(ht(et) != "" && ht(et) == ht(dt), "R2", "tags:same-handle", et, "encoder and decoder use the same codec handle type ("+ht(et)+")", "argument types")
	}

	// ---- R3 relay
	if nm := sm(c, "R3", "delegate", "NotifyMsg"); nm != nil {
		for _, s := range an.CallsTo(nm, "memberlist.(*Memberlist).SendToAddress") {
			buf := an.Path(an.CallOf(s).Args[2])
			rd := "bytes.NewReader($1[c:1:])"
			okB := buf == "make:slice(bytes.(*Reader).Len("+rd+"))"
			var read ssa.Instruction
			for _, r := range an.CallsTo(nm, "bytes.(*Reader).Read") {
				a := an.CallOf(r).Args
				if an.Path(a[0]) == rd && an.Path(a[1]) == buf && an.Dominates(r, s) {
					read = r
				}
			}
			okD := false
			for _, dc := range an.CallsTo(nm, "codec.(*Decoder).Decode") {
				if strings.Contains(an.Path(an.CallOf(dc).Args[0]), rd) && strings.HasSuffix(an.Path(an.CallOf(dc).Args[1]), "&local:relayHeader") && read != nil && an.Dominates(dc, read) {
					okD = an.GuardedBy(nm, s, an.Cmp{L: an.Path(dc.(ssa.Value)), Op: "==", R: "c:nil"})
				}
			}
			c.Add(okB && read != nil && okD, "R3", "forwarder:remainder", s, "the forwarded bytes are exactly what remains in the reader after the header was decoded from it", "value path + call order")
			okA, okN := false, false
			for _, st := range an.StoresTo(nm, ".Addr") {
				if t, _, _ := an.FieldOf(st.Addr); t == "Address" {
					okA = an.Path(st.Val) == "net.(*UDPAddr).String(&local:relayHeader.DestAddr)"
				}
			}
			for _, st := range an.StoresTo(nm, ".Name") {
				if t, _, _ := an.FieldOf(st.Addr); t == "Address" {
					okN = an.Path(st.Val) == "local:relayHeader.DestName"
				}
			}
			c.Add(okA && okN, "R3", "forwarder:destination", s, "the relayed message goes to the header's destination address and name", "field provenance")
			c.Add(an.GuardedBy(nm, s, an.Cmp{L: "$1[c:0]", Op: "==", R: relayTag}), "R3", "forwarder:relay-tag", s, "forwarding happens only for the relay tag", "edge dominance")
		}
	}
	if er := sf(c, "R3", "encodeRelayMessage"); er != nil {
		var order []string
		an.Instrs(er, func(in ssa.Instruction) {
			switch {
			case an.IsCallTo(in, "bytes.(*Buffer).WriteByte"):
				order = append(order, "byte:"+an.Path(an.CallOf(in).Args[1]))
			case an.IsCallTo(in, "codec.(*Encoder).Encode"):
				a := an.CallOf(in).Args[1]
				order = append(order, "enc:"+ifaceArgType(a)+":"+an.Path(a))
			}
		})
		want := len(order) == 4 && order[0] == "byte:"+relayTag && strings.HasPrefix(order[1], "enc:relayHeader:") && order[2] == "byte:$0" && strings.HasSuffix(order[3], ":$3")
		c.Add(want, "R3", "encodeRelayMessage:layout", er, "layout = relay tag, header, inner tag, message ("+strings.Join(order, " | ")+")", "call order")
		okH := false
		for _, st := range an.StoresTo(er, ".DestAddr") {
			okH = an.Path(st.Val) == "$1"
		}
		for _, st := range an.StoresTo(er, ".DestName") {
			okH = okH && an.Path(st.Val) == "$2"
		}
		c.Add(okH, "R3", "encodeRelayMessage:header", er, "the header names the final recipient given by the caller", "field provenance")
	}

	// ---- R4
	limit := "c:512"
	if pk := c.P.ByPkg[serf]; pk != nil {
		if imp := pk.Imports["github.com/hashicorp/memberlist"]; imp != nil && imp.Types != nil {
			if o, ok := imp.Types.Scope().Lookup("MetaMaxSize").(*types.Const); ok {
				limit = "c:" + o.Val().ExactString()
			}
		}
	}
	if stg := sm(c, "R4", "Serf", "SetTags"); stg != nil {
		fits := an.Cmp{L: "len((*Serf).encodeTags($0,$1))", Op: "<=", R: limit}
		n := 0
		for _, st := range an.StoresTo(stg, ".Tags") {
			n++
			c.Add(an.Path(st.Val) == "$1" && an.GuardedBy(stg, st, fits), "R4", "SetTags:limit", st, "the new tags are installed only if their encoding fits the metadata limit "+limit+" (same map)", "edge dominance")
		}
		c.Floor("R4", "tag installs in SetTags", n, 1)
		for _, u := range an.CallsTo(stg, "memberlist.(*Memberlist).UpdateNode") {
			c.Add(an.GuardedBy(stg, u, fits), "R4", "SetTags:update-after-limit", u, "the update is gossiped only for accepted tags", "edge dominance")
		}
	}
	if cr := sf(c, "R4", "Create"); cr != nil {
		for _, mk := range an.CallsTo(cr, "memberlist.Create") {
			ok := an.Guarded(cr, mk, an.EdgesWhere(cr, func(f an.Cmp) bool {
				return strings.HasPrefix(f.L, "len((*Serf).encodeTags(") && strings.HasSuffix(f.L, ",$0.Tags))") && f.Op == "<=" && f.R == limit
			}))
			c.Add(ok, "R4", "Create:limit", mk, "Create accepts the configured tags only if their encoding fits the metadata limit", "edge dominance")
		}
	}
	// who else writes Config.Tags in package serf
	for _, a := range an.FieldAccesses(c.P.FuncsIn(serf), "Config", "Tags") {
		fn := an.FuncName(a.Fn)
		c.Add(fn == "(*Serf).SetTags" || fn == "DefaultConfig" || fn == "(*Config).Init" || a.Init, "R4", "tags-writer:"+fn, a.Instr, "Config.Tags is written only by SetTags (and config construction)", "who-may-write")
	}
}
