package rules

import (
	"strings"

	"serfcheck/an"

	"golang.org/x/tools/go/ssa"
)

func init() {
	register(&Rule{
		ID:      "C22",
		Explain: "Decides keyring persistence as a sibling rule over the three key-modifying query handlers: from the keyring mutator's nil result, Result=true is unreachable once the calls of the keyring-file writer and the edges establishing 'no keyring file configured' are cut (with a file configured, success implies a write); Result=true is stored only behind the mutator's and the writer's nil results; every failure edge (undecodable request, encryption disabled, mutator error) reaches the reply without a write and without touching the keyring; the file writer is called from nowhere else; writer and loader agree on the codec (JSON array of base64.StdEncoding strings, in keyring order, element 0 loaded as primary — memberlist keeps the primary key at index 0).",
		Run:     runC22,
		Mutants: []Mutant{
			{Name: "loader-stricter-than-writer", File: "cmd/serf/command/agent/agent.go", Func: "func (a *Agent) loadKeyringFile(", Old: "\t\tkeysDecoded[i] = keyBytes\n", New: "\t\tif len(keyBytes)%16 != 0 {\n\t\t\treturn fmt.Errorf(\"bad key size\")\n\t\t}\n\t\tkeysDecoded[i] = keyBytes\n", Expect: "R2|loader:rejects-only-for-shared-reasons"},
			{Name: "rename-locals", Equivalent: true, Regexp: true, File: "serf/internal_query.go", Func: "func (s *serfQueries) handleInstallKey(", Old: `\b(req|response|keyring)\b`, New: "${1}Renamed"},
			{Name: "use-key-not-persisted", File: "serf/internal_query.go", Func: "func (s *serfQueries) handleUseKey(", Old: "\tif err := s.serf.writeKeyringFile(); err != nil {\n\t\tresponse.Message = err.Error()\n\t\ts.logger.Printf(\"[ERR] serf: Failed to write keyring file: %s\", err)\n\t\tgoto SEND\n\t}\n", New: "", Expect: "R1"},
			{Name: "remove-key-write-error-ignored", File: "serf/internal_query.go", Func: "func (s *serfQueries) handleRemoveKey(", Old: "\tif err := s.serf.writeKeyringFile(); err != nil {", New: "\tif err := s.serf.writeKeyringFile(); err != nil && req.Key == nil {", Expect: "R1"},
			{Name: "install-writes-before-add", File: "serf/internal_query.go", Func: "func (s *serfQueries) handleInstallKey(", Old: "\ts.logger.Printf(\"[INFO] serf: Received install-key query\")\n", New: "\ts.logger.Printf(\"[INFO] serf: Received install-key query\")\n\t_ = s.serf.writeKeyringFile()\n", Expect: "R1"},
			{Name: "loader-primary-last", File: "cmd/serf/command/agent/agent.go", Func: "func (a *Agent) loadKeyringFile(", Old: "memberlist.NewKeyring(keysDecoded, keysDecoded[0])", New: "memberlist.NewKeyring(keysDecoded, keysDecoded[len(keysDecoded)-1])", Expect: "R2"},
			{Name: "writer-url-encoding", File: "serf/serf.go", Func: "func (s *Serf) writeKeyringFile(", Old: "base64.StdEncoding.EncodeToString(key)", New: "base64.URLEncoding.EncodeToString(key)", Expect: "R2"},
			{Name: "writer-reverses-keys", File: "serf/serf.go", Func: "func (s *Serf) writeKeyringFile(", Old: "keysEncoded[i] = base64.StdEncoding.EncodeToString(key)", New: "keysEncoded[len(keysRaw)-1-i] = base64.StdEncoding.EncodeToString(key)", Expect: "R2"},
			{Name: "writer-called-elsewhere", File: "serf/internal_query.go", Func: "func (s *serfQueries) handleListKeys(", Old: "\ts.logger.Printf(\"[INFO] serf: Received list-keys query\")\n", New: "\ts.logger.Printf(\"[INFO] serf: Received list-keys query\")\n\t_ = s.serf.writeKeyringFile()\n", Expect: "R3"},
		},
	})
	register(&Rule{
		ID:      "C23",
		Explain: "Decides the aggregation and reply-size clauses structurally: in the reply reader the reply counter is incremented before anything else for each reply, the failure counter is incremented on exactly the three failure edges (bad/missing type byte, undecodable, Result false) and key counters only on the decoded path; the operation returns a non-nil error exactly on NumErr != 0 or NumResp != NumNodes once the query ran; the list reply that is returned is the very buffer for which checkResponseSize returned nil, the key list is only ever re-sliced to a prefix [0:i] with the message naming (i, actual) of the same iteration, and the send path re-checks the size. That one key always fits is not covered.",
		Run:     runC23,
		Mutants: []Mutant{
			{Name: "reply-struct-reused", File: "serf/keymanager.go", Func: "func (k *KeyManager) streamKeyResp(", Old: "\t\tvar nodeResponse nodeKeyResponse\n", New: "", Old2: "\tfor r := range ch {\n", New2: "\tvar nodeResponse nodeKeyResponse\n\tfor r := range ch {\n", Expect: "R4"},
			{Name: "rename-locals", Equivalent: true, Regexp: true, File: "serf/keymanager.go", Func: "func (k *KeyManager) streamKeyResp(", Old: `\b(nodeResponse|r)\b`, New: "${1}Renamed"},
			{Name: "undecodable-not-counted", File: "serf/keymanager.go", Func: "func (k *KeyManager) streamKeyResp(", Old: "\t\t\t\t\"Failed to decode key query response: %v\", r.Payload)\n\t\t\tresp.NumErr++\n", New: "\t\t\t\t\"Failed to decode key query response: %v\", r.Payload)\n", Expect: "R1"},
			{Name: "errors-ignored-when-all-replied", File: "serf/keymanager.go", Func: "func (k *KeyManager) handleKeyRequest(", Old: "if resp.NumErr != 0 {", New: "if resp.NumErr != 0 && resp.NumResp != resp.NumNodes {", Expect: "R2"},
			{Name: "fewer-replies-ok", File: "serf/keymanager.go", Func: "func (k *KeyManager) handleKeyRequest(", Old: "if resp.NumResp != resp.NumNodes {", New: "if resp.NumResp > resp.NumNodes {", Expect: "R2"},
			{Name: "truncate-suffix", File: "serf/internal_query.go", Func: "func (s *serfQueries) keyListResponseWithCorrectSize(", Old: "resp.Keys = resp.Keys[0:i]", New: "resp.Keys = resp.Keys[len(resp.Keys)-i:]", Expect: "R3"},
			{Name: "return-unchecked-buffer", File: "serf/internal_query.go", Func: "func (s *serfQueries) keyListResponseWithCorrectSize(", Old: "\t\tif err = q.checkResponseSize(raw); err != nil {", New: "\t\tif err = q.checkResponseSize(buf); err != nil {", Expect: "R3"},
			{Name: "failed-node-keys-counted", File: "serf/keymanager.go", Func: "func (k *KeyManager) streamKeyResp(", Old: "\t\t\tresp.NumErr++\n\t\t\tgoto NEXT\n\t\t}\n\t\tif err := decodeMessage", New: "\t\t\tresp.NumErr++\n\t\t\tresp.PrimaryKeys[\"\"]++\n\t\t\tgoto NEXT\n\t\t}\n\t\tif err := decodeMessage", Expect: "R1"},
			{Name: "count-after-decode", File: "serf/keymanager.go", Func: "func (k *KeyManager) streamKeyResp(", Old: "\t\tresp.NumResp++\n\n\t\t// Decode the response\n", New: "\t\t// Decode the response\n", Expect: "R1"},
		},
	})
}

func runC22(c *an.Ctx) {
	c.Rule("R1 sibling rule over handleInstallKey/handleUseKey/handleRemoveKey: mutator nil ⇒ (Result=true ⇒ writer called or no file configured); Result=true only behind mutator nil ∧ writer nil; failure edges reach the reply without a write or a mutation")
	c.Rule("R2 writer/loader codec agreement: JSON []string of base64.StdEncoding in keyring order; loader makes element 0 the primary")
	c.Rule("R3 the file writer is called only by the three handlers")
	locks := an.NewLocks(c.P)
	handlers := map[string]string{"handleInstallKey": "AddKey", "handleUseKey": "UseKey", "handleRemoveKey": "RemoveKey"}
	wf := sm(c, "R1", "Serf", "writeKeyringFile")
	for h, mut := range handlers {
		f := sm(c, "R1", "serfQueries", h)
		if f == nil {
			continue
		}
		mcalls := an.CallsTo(f, "memberlist.(*Keyring)."+mut)
		if len(mcalls) != 1 {
			c.Anchor("R1", h+": exactly one keyring."+mut+" call")
			continue
		}
		mpath := an.Path(mcalls[0].(ssa.Value))
		mutOK := an.Cmp{L: mpath, Op: "==", R: "c:nil"}
		wcalls := an.CallsTo(f, "(*Serf).writeKeyringFile")
		isW := func(in ssa.Instruction) bool {
			for _, w := range wcalls {
				if w == in {
					return true
				}
			}
			return false
		}
		var okStores []ssa.Instruction
		for _, st := range an.StoresTo(f, ".Result") {
			if an.IsConstBool(st.Val, true) {
				okStores = append(okStores, st)
			}
		}
		c.Floor("R1", "Result=true stores in "+h, len(okStores), 1)
		noFile := an.EdgesImplying(f, an.Cmp{L: "$0.serf.config.KeyringFile", Op: "==", R: `c:""`})
		for _, st := range okStores {
			c.Add(an.GuardedBy(f, st, mutOK), "R1", h+":success-after-mutation", st, "Result=true only after keyring."+mut+" returned nil", "edge dominance")
			// with a file configured, success implies a write
			r := an.ReachFrom(f, nil, &an.Cut{Edges: noFile, Instrs: isW}, func(in ssa.Instruction) bool { return in == st })
			c.Add(r == nil, "R1", h+":success-implies-persisted", st, "Result=true is unreachable without calling the keyring-file writer (other than on the no-file-configured edge)", "reach/cut: writer calls and the no-file edge removed")
			// and the writer's result was nil
			okW := true
			for _, w := range wcalls {
				wnil := an.Cmp{L: an.Path(w.(ssa.Value)), Op: "==", R: "c:nil"}
				// every path through this writer call to the store passes its nil edge
				rr := an.ReachFrom(f, w, &an.Cut{Edges: an.EdgesImplying(f, wnil)}, func(in ssa.Instruction) bool { return in == st })
				if rr != nil {
					okW = false
				}
			}
			c.Add(okW && len(wcalls) > 0, "R1", h+":success-after-write-ok", st, "Result=true only if the writer returned nil", "reach/cut from each writer call")
		}
		// mutation and write only after decode ok and encryption enabled
		pre := []an.Cmp{{L: "decodeKeyRequest($1.Payload,&local:keyRequest)", Op: "==", R: "c:nil"}, {L: "(*Serf).EncryptionEnabled($0.serf)", Op: "==", R: "c:true"}}
		for _, t := range append(append([]ssa.Instruction{}, mcalls...), wcalls...) {
			for _, p := range pre {
				c.Add(an.GuardedBy(f, t, p), "R1", h+":rejected-changes-nothing:"+kindOf(t)+":"+short(p.L), t, kindOf(t)+" only when "+p.String(), "edge dominance")
			}
		}
		for _, w := range wcalls {
			c.Add(an.GuardedBy(f, w, mutOK), "R1", h+":write-after-mutation", w, "the file is written only after the keyring changed", "edge dominance")
		}
		// the mutator operates on the decoded key of the node's keyring
		a := an.CallOf(mcalls[0]).Args
		c.Add(an.Path(a[0]) == "$0.serf.config.MemberlistConfig.Keyring" && an.Path(a[1]) == "local:keyRequest.Key", "R1", h+":mutator-operands", mcalls[0], "the handler changes the node's own keyring with the requested key", "argument paths")
		// every path replies
		okReply, _ := an.MustPass(f, nil, func(in ssa.Instruction) bool { return an.IsCallTo(in, "(*serfQueries).sendKeyResponse") })
		c.Add(okReply, "R1", h+":always-replies", f, "every path of the handler sends a key response", "must-pass")
	}
	if wf != nil {
		// R3 callers
		n := 0
		for _, s := range locks.Callers(wf) {
			// a call inside a new helper counts for each known function the helper is part of
			for _, o := range an.Owners(s.Parent()) {
				n++
				fn := an.FuncName(o)
				ok := fn == "(*serfQueries).handleInstallKey" || fn == "(*serfQueries).handleUseKey" || fn == "(*serfQueries).handleRemoveKey"
				c.Add(ok, "R3", "writer-caller:"+fn, s, "the keyring file is written only by the key-modifying handlers", "who-may-call")
			}
		}
		c.Floor("R3", "call sites of writeKeyringFile", n, 3)
		c.Add(!locks.Escapes(wf), "R3", "writer-not-a-value", wf, "writeKeyringFile is only called directly", "reference enumeration")
		// writer: nil without a write iff no file configured; otherwise writes the configured file
		okEncAppend := false
		wr := an.CallsTo(wf, "os.WriteFile")
		c.Add(len(wr) == 1, "R2", "writer:one-write", wf, "one os.WriteFile in the writer", "call enumeration")
		for _, w := range wr {
			a := an.CallOf(w).Args
			c.Add(an.Path(a[0]) == "$0.config.KeyringFile", "R2", "writer:target", w, "the writer writes the configured keyring file", "argument path")
			keysP := "memberlist.(*Keyring).GetKeys($0.config.MemberlistConfig.Keyring)"
			okArr := strings.HasPrefix(an.Path(a[1]), "json.MarshalIndent(make:slice(len("+keysP+")),")
			if mi, isCall := an.Strip(a[1]).(*ssa.Extract); !okArr && isCall {
				// the append form: an empty slice grown by one encoded key per index 0..len(keys)-1
				if call, isC := mi.Tuple.(*ssa.Call); isC && an.IsCallTo(call, "json.MarshalIndent") {
					okArr, okEncAppend = appendLoopOfEncodedKeys(wf, an.Strip(call.Call.Args[0]), keysP)
				}
			}
			c.Add(okArr, "R2", "writer:json-array", w, "the content is the JSON encoding of a []string with one entry per key ("+short(an.Path(a[1]))+")", "argument path")
			for _, r := range an.Returns(wf) {
				if v := an.ResultValues(r); an.IsNilConst(v[0]) {
					ok := an.Guarded(wf, r, an.EdgesImplying(wf, an.Cmp{L: "len($0.config.KeyringFile)", Op: "==", R: "c:0"})) ||
						an.GuardedBy(wf, r, an.Cmp{L: "$0.config.KeyringFile", Op: "==", R: `c:""`}) ||
						an.GuardedBy(wf, r, an.Cmp{L: an.Path(w.(ssa.Value)), Op: "==", R: "c:nil"})
					c.Add(ok, "R2", "writer:nil-means-written", r, "the writer returns nil only when no file is configured or the write succeeded", "edge dominance per nil return")
				}
			}
		}
		okEnc := okEncAppend
		an.Instrs(wf, func(in ssa.Instruction) {
			s, ok := in.(*ssa.Store)
			if !ok {
				return
			}
			ap, vp := an.Path(s.Addr), an.Path(s.Val)
			// keysEncoded[i] = StdEncoding.EncodeToString(keysRaw[i])
			if strings.HasPrefix(ap, "&make:slice(") && strings.HasPrefix(vp, "base64.(*Encoding).EncodeToString(g:StdEncoding,") {
				i1 := ap[strings.LastIndex(ap, "["):]
				okEnc = strings.HasSuffix(vp, i1+")")
			}
		})
		c.Add(okEnc, "R2", "writer:std-base64-in-order", wf, "entry i is base64.StdEncoding of key i (keyring order preserved)", "store address/value index identity")
	}
	// loader
	lf := c.P.Method(agent, "Agent", "loadKeyringFile")
	if c.NeedFunc("R2", lf, "agent.(*Agent).loadKeyringFile") {
		okJ := false
		for _, u := range an.CallsTo(lf, "json.Unmarshal") {
			okJ = strings.HasPrefix(an.Path(an.CallOf(u).Args[0]), "os.ReadFile($1)#0")
			_ = u
		}
		c.Add(okJ, "R2", "loader:json", lf, "the loader parses the file as JSON", "call argument")
		okD := false
		an.Instrs(lf, func(in ssa.Instruction) {
			s, ok := in.(*ssa.Store)
			if !ok {
				return
			}
			ap, vp := an.Path(s.Addr), an.Path(s.Val)
			if strings.HasPrefix(ap, "&make:slice(") && strings.HasPrefix(vp, "base64.(*Encoding).DecodeString(g:StdEncoding,") && strings.HasSuffix(vp, "#0") {
				i1 := ap[strings.LastIndex(ap, "["):]
				okD = strings.Contains(vp, i1+")#0")
			}
		})
		c.Add(okD, "R2", "loader:std-base64-in-order", lf, "key i is base64.StdEncoding-decoded from entry i", "store address/value index identity")
		okP := false
		for _, k := range an.CallsTo(lf, "memberlist.NewKeyring") {
			a := an.CallOf(k).Args
			okP = strings.HasSuffix(an.Path(a[1]), "[c:0]") && strings.HasPrefix(an.Path(a[1]), an.Path(a[0]))
		}
		c.Add(okP, "R2", "loader:primary-is-first", lf, "the loader installs element 0 as the primary key (memberlist's GetKeys returns the primary first)", "call arguments")
		// the slice decoded into is a []string
		okT := false
		for _, u := range an.CallsTo(lf, "json.Unmarshal") {
			okT = strings.HasSuffix(an.CallOf(u).Args[1].Type().String(), "*[]string") || strings.Contains(an.CallOf(u).Args[1].Type().String(), "[]string")
			if mi, ok := an.CallOf(u).Args[1].(*ssa.MakeInterface); ok {
				okT = mi.X.Type().String() == "*[]string"
			}
		}
		c.Add(okT, "R2", "loader:string-array", lf, "the loader decodes into a []string, the type the writer encodes", "argument type")
		// the loader refuses a file only for the reasons the writer side shares: unreadable/undecodable file,
		// an entry that is not base64, an empty list, or a key set memberlist's own NewKeyring refuses (the same
		// validation AddKey applies when the handlers accept a key). Any further rejection makes the node refuse
		// a file it wrote itself.
		allowed := []string{"len($0.agentConf.EncryptKey)", "os.Stat(", "os.ReadFile(", "json.Unmarshal(", "base64.(*Encoding).DecodeString(g:StdEncoding,", "memberlist.NewKeyring(", "(phi:rangeindex@", "phi:rangeindex@", "len(make:slice(len(", "len(local:[]string)"}
		nRej := 0
		for _, r := range an.Returns(lf) {
			if r.Block().Comment == "recover" || an.IsNilConst(an.ResultValues(r)[0]) {
				continue
			}
			nRej++
			extra := ""
			facts := necessaryFacts(lf, r)
			// plus the conditions that branch straight into this return (a disjunction has no single necessary edge)
			for e, fs := range an.EdgeFacts(lf) {
				b := e.To()
				for len(b.Succs) == 1 && b != r.Block() {
					b = b.Succs[0]
				}
				if b == r.Block() {
					facts = append(facts, fs...)
				}
			}
			for _, f := range facts {
				ok := false
				for _, a := range allowed {
					if strings.HasPrefix(f.L, a) || strings.HasPrefix(f.R, a) {
						ok = true
					}
				}
				if !ok && !strings.Contains(extra, f.String()) {
					extra += f.String() + "; "
				}
			}
			c.Add(extra == "", "R2", "loader:rejects-only-for-shared-reasons", r, "the loader refuses the file only when it is unreadable, not JSON, not base64, empty, or refused by memberlist's own key validation (other conditions: "+extra+")", "necessary-edge enumeration for every error return")
		}
		c.Floor("R2", "error returns in the loader", nRej, 5)
	}
	c.Assumption("memberlist.Keyring keeps the primary key at index 0 of GetKeys() (UseKey moves it there) — trusted base")
}

func runC23(c *an.Ctx) {
	c.Rule("R4 every node reply is decoded into a fresh value (a reply that omits a field must not inherit it from the previous node's reply)")
	if sk := sm(c, "R4", "KeyManager", "streamKeyResp"); sk != nil {
		c.Floor("R4", "reply decode sites in streamKeyResp", decodeTargetsFresh(c, "R4", []*ssa.Function{sk}), 1)
	}
	c.Rule("R1 streamKeyResp: NumResp++ first for every reply; NumErr++ on exactly three edges (bad/missing type byte, undecodable, Result false); key counters only on the decoded path")
	c.Rule("R2 handleKeyRequest: after the query ran, a non-nil error exactly on NumErr != 0 ∨ NumResp != NumNodes")
	c.Rule("R3 list reply: returned buffer passed checkResponseSize==nil (same value); Keys only re-sliced [0:i]; message names (i, actual); send path re-checks")
	if sk := sm(c, "R1", "KeyManager", "streamKeyResp"); sk != nil {
		var incResp, incErr []ssa.Instruction
		an.Instrs(sk, func(in ssa.Instruction) {
			s, ok := in.(*ssa.Store)
			if !ok {
				return
			}
			switch an.Path(s.Addr) {
			case "&$1.NumResp":
				if an.Path(s.Val) == "($1.NumResp+c:1)" {
					incResp = append(incResp, in)
				} else {
					c.Add(false, "R1", "streamKeyResp:NumResp-other-write", in, "NumResp is written other than by ++", "")
				}
			case "&$1.NumErr":
				if an.Path(s.Val) == "($1.NumErr+c:1)" {
					incErr = append(incErr, in)
				} else {
					c.Add(false, "R1", "streamKeyResp:NumErr-other-write", in, "NumErr is written other than by ++", "")
				}
			}
		})
		c.Add(len(incResp) == 1, "R1", "streamKeyResp:one-count-site", sk, "one NumResp++ per loop iteration", "store enumeration")
		c.Add(len(incErr) >= 1, "R1", "streamKeyResp:three-error-sites", sk, "NumErr is incremented in the aggregation loop", "store enumeration")
		// NumResp++ dominates everything else in the body
		if len(incResp) == 1 {
			n := 0
			an.Instrs(sk, func(in ssa.Instruction) {
				switch in.(type) {
				case *ssa.MapUpdate:
				case *ssa.Store:
					if in == incResp[0] || !strings.HasPrefix(an.Path(in.(*ssa.Store).Addr), "&$1.") {
						return
					}
				default:
					if !an.IsCallTo(in, "decodeMessage") {
						return
					}
				}
				n++
				c.Add(an.Dominates(incResp[0], in), "R1", "streamKeyResp:counted-first:"+kindOf(in), in, "the reply is counted before it is examined or recorded", "dominance")
			})
			c.Floor("R1", "aggregation effects after the count", n, 6)
		}
		mt := cv(c, serf, "messageKeyResponseType")
		pay := "<-$2#0.Payload"
		dec := "decodeMessage(" + pay + "[c:1:],&local:nodeKeyResponse)"
		conds := [][]an.Cmp{
			{{L: "len(" + pay + ")", Op: "<", R: "c:1"}, {L: pay + "[c:0]", Op: "!=", R: mt}},
			{{L: dec, Op: "!=", R: "c:nil"}},
			{{L: "local:nodeKeyResponse.Result", Op: "==", R: "c:false"}},
		}
		// an increment counts a failure, and counts it once: it is unreachable unless one of the failure
		// conditions holds, and no second increment can follow it before the next reply is received
		var failing []an.Cmp
		for _, alts := range conds {
			failing = append(failing, alts...)
		}
		isInc := func(in ssa.Instruction) bool {
			for _, e := range incErr {
				if e == in {
					return true
				}
			}
			return false
		}
		isRecv := func(in ssa.Instruction) bool {
			u, ok := in.(*ssa.UnOp)
			return ok && u.Op.String() == "<-"
		}
		for _, e := range incErr {
			twice := an.ReachFrom(sk, e, &an.Cut{Instrs: isRecv}, isInc)
			c.Add(an.GuardedAny(sk, e, failing...) && twice == nil, "R1", "streamKeyResp:error-edge", e, "NumErr++ is reached only when the reply is empty/ill-typed, undecodable or reports failure, and at most once per reply", "reach/cut over the failure conditions + no second increment before the next receive")
		}
		// completeness: every failure edge passes an increment before the next reply
		// completeness: a reply escapes the error count only if it is non-empty, well-typed, decoded and successful —
		// with the increments cut, removing the edges of any one of these conditions makes the end of the iteration unreachable
		okConds := []an.Cmp{
			{L: "len(" + pay + ")", Op: ">=", R: "c:1"},
			{L: pay + "[c:0]", Op: "==", R: mt},
			{L: dec, Op: "==", R: "c:nil"},
			{L: "local:nodeKeyResponse.Result", Op: "==", R: "c:true"},
		}
		if len(incResp) == 1 {
			for i, oc := range okConds {
				r := an.ReachFrom(sk, incResp[0], &an.Cut{Edges: an.EdgesImplying(sk, oc), Instrs: func(in ssa.Instruction) bool {
					for _, e := range incErr {
						if e == in {
							return true
						}
					}
					return false
				}}, func(in ssa.Instruction) bool {
					if an.IsExit(in) {
						return true
					}
					u, ok := in.(*ssa.UnOp)
					return ok && u.Op.String() == "<-"
				})
				c.Add(r == nil, "R1", "streamKeyResp:failure-counted:"+itoa(i), sk, "a reply is not counted as an error only if '"+oc.String()+"' held (every other way to the next reply passes NumErr++)", "reach/cut: increments and the condition's edges removed")
			}
		}
		// key counters only when decoded
		an.Instrs(sk, func(in ssa.Instruction) {
			mu, ok := in.(*ssa.MapUpdate)
			if !ok {
				return
			}
			m := an.Path(mu.Map)
			if m == "$1.Keys" || m == "$1.PrimaryKeys" {
				okG := an.GuardedBy(sk, in, an.Cmp{L: dec, Op: "==", R: "c:nil"}) && an.GuardedBy(sk, in, an.Cmp{L: pay + "[c:0]", Op: "==", R: mt})
				c.Add(okG, "R1", "streamKeyResp:keys-only-decoded:"+m, in, m+" is updated only for a well-typed reply that decoded", "edge dominance")
				v := an.Path(mu.Value)
				c.Add(v == "("+m+"["+an.Path(mu.Key)+"]+c:1)", "R1", "streamKeyResp:key-count-increment:"+m, in, "the per-key count is incremented by one per node holding it", "value path")
			}
		})
	}
	if hk := sm(c, "R2", "KeyManager", "handleKeyRequest"); hk != nil {
		stream := an.CallsTo(hk, "(*KeyManager).streamKeyResp")
		if len(stream) != 1 {
			c.Anchor("R2", "one streamKeyResp call in handleKeyRequest")
		} else {
			errEdges := append(an.EdgesImplying(hk, an.Cmp{L: "local:KeyResponse.NumErr", Op: "!=", R: "c:0"}), an.EdgesImplying(hk, an.Cmp{L: "local:KeyResponse.NumResp", Op: "!=", R: "local:KeyResponse.NumNodes"})...)
			c.Floor("R2", "failure-condition edges", len(errEdges), 2)
			for _, r := range an.Returns(hk) {
				if !an.Reaches(hk, stream[0], r) {
					continue
				}
				v := an.ResultValues(r)
				if an.IsNilConst(v[1]) {
					ok := an.GuardedBy(hk, r, an.Cmp{L: "local:KeyResponse.NumErr", Op: "==", R: "c:0"}) && an.GuardedBy(hk, r, an.Cmp{L: "local:KeyResponse.NumResp", Op: "==", R: "local:KeyResponse.NumNodes"})
					c.Add(ok, "R2", "handleKeyRequest:nil-iff-clean", r, "success is reported only when no node failed and every member replied", "edge dominance")
				} else {
					c.Add(an.Guarded(hk, r, errEdges), "R2", "handleKeyRequest:error-only-on-failure", r, "an error after the query ran is reported only when some node failed or fewer nodes replied than are members", "edge dominance")
				}
			}
			// NumNodes is the member count; the reader gets the query's response channel
			okN := false
			for _, st := range an.StoresTo(hk, ".NumNodes") {
				okN = an.Path(st.Val) == "memberlist.(*Memberlist).NumMembers($0.serf.memberlist)"
			}
			c.Add(okN, "R2", "handleKeyRequest:num-nodes", hk, "NumNodes is the number of members memberlist knows", "field provenance")
			c.Add(strings.HasSuffix(an.Path(an.CallOf(stream[0]).Args[2]), "#0.respCh"), "R2", "handleKeyRequest:reads-query-replies", stream[0], "the aggregation reads the key query's response stream", "argument path")
		}
	}
	if kl := sm(c, "R3", "serfQueries", "keyListResponseWithCorrectSize"); kl != nil {
		for _, r := range an.Returns(kl) {
			v := an.ResultValues(r)
			if len(v) != 3 || !an.IsNilConst(v[2]) {
				continue
			}
			raw := an.Path(v[0])
			c.Add(an.GuardedBy(kl, r, an.Cmp{L: "(*Query).checkResponseSize($1," + raw + ")", Op: "==", R: "c:nil"}), "R3", "keyList:returned-buffer-checked", r, "the buffer returned is the one checkResponseSize accepted", "edge dominance on the same value")
			c.Add(strings.HasPrefix(raw, "encodeMessage("+cv(c, serf, "messageQueryResponseType")+",(*Query).createResponse($1,encodeMessage("+cv(c, serf, "messageKeyResponseType")+",$2,"), "R3", "keyList:buffer-is-encoded-reply", r, "the buffer is the encoded query response wrapping the encoded key response of resp", "value path")
		}
		n := 0
		for _, st := range an.StoresTo(kl, ".Keys") {
			n++
			sl, ok := st.Val.(*ssa.Slice)
			okS := ok && an.Path(sl.X) == "$2.Keys" && (sl.Low == nil || an.Path(sl.Low) == "c:0") && sl.High != nil
			c.Add(okS, "R3", "keyList:prefix-only", st, "the key list is only ever re-sliced to a prefix (got "+an.Path(st.Val)+")", "slice shape")
			if okS {
				// message mentions the same i and the original length
				okM := false
				for _, ms := range an.StoresTo(kl, ".Message") {
					if sp, isC := ms.Val.(*ssa.Call); isC && an.IsCallTo(sp, "fmt.Sprintf") {
						args := an.VarArgs(&sp.Call)
						if len(args) == 2 && an.Path(args[0]) == an.Path(sl.High) && an.Path(args[1]) == "len($2.Keys)" && ms.Block() == st.Block() {
							// len($2.Keys) here is the value read at entry (actual)
							okM = true
						}
					}
				}
				c.Add(okM, "R3", "keyList:message-names-counts", st, "the truncation message names how many keys are shown out of how many, in the same iteration", "Sprintf argument provenance")
			}
		}
		c.Floor("R3", "re-slices of the key list", n, 1)
	}
	if sk := sm(c, "R3", "serfQueries", "sendKeyResponse"); sk != nil {
		ok := len(an.CallsTo(sk, "(*Query).respondWithMessageAndResponse")) == 1 && len(an.CallsTo(sk, "memberlist.(*Memberlist).SendToAddress")) == 0
		c.Add(ok, "R3", "sendKeyResponse:via-checked-path", sk, "the list reply is sent through respondWithMessageAndResponse, which re-checks the size (C33.R3)", "call enumeration")
	}
}

// appendLoopOfEncodedKeys: v is a slice that starts empty (make with length 0) and is grown, in a loop
// whose index runs from 0 in steps of 1 below len(keys), by exactly base64.StdEncoding of keys[index] —
// the append form of "entry i is the encoding of key i". Returns (shape ok, encoding ok).
func appendLoopOfEncodedKeys(fn *ssa.Function, v ssa.Value, keysP string) (bool, bool) {
	ph, ok := v.(*ssa.Phi)
	if !ok || len(ph.Edges) != 2 {
		return false, false
	}
	var mk *ssa.MakeSlice
	var app *ssa.Call
	for _, e := range ph.Edges {
		switch x := e.(type) {
		case *ssa.MakeSlice:
			mk = x
		case *ssa.Call:
			if b, isB := x.Call.Value.(*ssa.Builtin); isB && b.Name() == "append" && x.Call.Args[0] == ssa.Value(ph) {
				app = x
			}
		}
	}
	if mk == nil || app == nil {
		return false, false
	}
	if n, isC := an.ConstInt(mk.Len); !isC || n != 0 {
		return false, false
	}
	els := an.VarArgs(&app.Call)
	if len(els) != 1 {
		return false, false
	}
	enc, isCall := els[0].(*ssa.Call)
	if !isCall || !strings.HasPrefix(an.Path(enc), "base64.(*Encoding).EncodeToString(g:StdEncoding,"+keysP+"[") {
		return true, false
	}
	// the index of keys[...]: a counter from 0 by 1, bounded by len(keys) where the append happens
	var idx *ssa.Phi
	if ld, isLd := enc.Call.Args[1].(*ssa.UnOp); isLd {
		if ia, isIA := ld.X.(*ssa.IndexAddr); isIA {
			idx, _ = ia.Index.(*ssa.Phi)
		}
	}
	if idx == nil || !unitStepFromZero(idx) {
		return true, false
	}
	bounded := an.GuardedBy(fn, app, an.Cmp{L: an.Path(idx), Op: "<", R: "len(" + keysP + ")"})
	// and the loop is left only through that bound: every key is encoded
	return true, bounded
}
