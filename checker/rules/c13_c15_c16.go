package rules

import (
	"go/token"
	"go/types"
	"strings"

	"serfcheck/an"

	"golang.org/x/tools/go/ssa"
)

func init() {
	register(&Rule{
		ID:      "C13",
		Explain: "Decides the ordering and guard clauses that make a graceful leave survive restarts: Serf.Leave notifies the snapshotter (when one exists) before the leave is applied or broadcast; the snapshotter's leave case sets leaving, clears the alive set exactly on the !rejoinAfterLeave edge BEFORE appending the leave record (a compaction inside that append serialises the in-memory set), then flushes and syncs; all recorders are behind !leaving; the alive set has a closed list of writers; replay resets state on a leave line exactly when rejoin-after-leave is off; compaction serialises the in-memory alive set. Events racing the leave notification in the channel are not covered.",
		Run:     runC13,
		Mutants: []Mutant{
			{Name: "leave-handover-buffered", File: "serf/snapshot.go", Func: "func NewSnapshotter(", Old: "leaveCh:          make(chan struct{}),", New: "leaveCh:          make(chan struct{}, 1),", Expect: "R8"},
			{Name: "replay-stops-at-leave", File: "serf/snapshot.go", Func: "func (s *Snapshotter) replay(", Old: "\t\t\ts.lastQueryClock = 0\n", New: "\t\t\ts.lastQueryClock = 0\n\t\t\tbreak\n", Expect: "R7"},
			{Name: "compact-before-leave-marker", File: "serf/snapshot.go", Func: "func (s *Snapshotter) appendLine(", Old: "\tn, err := s.buffered.WriteString(l)\n", New: "\tif s.offset+int64(len(l)) > s.snapshotMaxSize() {\n\t\tif err := s.compact(); err != nil {\n\t\t\treturn err\n\t\t}\n\t}\n\tn, err := s.buffered.WriteString(l)\n", Expect: "R6|appendLine"},
			{Name: "clear-after-append", File: "serf/snapshot.go", Func: "func (s *Snapshotter) stream(", Old: "\t\t\tif !s.rejoinAfterLeave {\n\t\t\t\ts.aliveNodes = make(map[string]string)\n\t\t\t}\n\t\t\ts.tryAppend(\"leave\\n\")\n", New: "\t\t\ts.tryAppend(\"leave\\n\")\n\t\t\tif !s.rejoinAfterLeave {\n\t\t\t\ts.aliveNodes = make(map[string]string)\n\t\t\t}\n", Expect: "R2"},
			{Name: "no-sync-after-leave", File: "serf/snapshot.go", Func: "func (s *Snapshotter) stream(", Old: "\t\t\tif err := s.fh.Sync(); err != nil {\n\t\t\t\ts.logger.Printf(\"[ERR] serf: failed to sync leave to snapshot: %v\", err)\n\t\t\t}\n", New: "", Expect: "R2"},
			{Name: "leave-after-broadcast", File: "serf/serf.go", Func: "func (s *Serf) Leave(", Old: "\t// If we have a snapshot, mark we are leaving\n\tif s.snapshotter != nil {\n\t\ts.snapshotter.Leave()\n\t}\n", New: "", Expect: "R1"},
			{Name: "record-while-leaving", File: "serf/snapshot.go", Func: "func (s *Snapshotter) stream(", Old: "\t\tif s.leaving {\n\t\t\treturn\n\t\t}\n", New: "\t\tif s.leaving && s.rejoinAfterLeave {\n\t\t\treturn\n\t\t}\n", Expect: "R3"},
			{Name: "replay-ignores-leave", File: "serf/snapshot.go", Func: "func (s *Snapshotter) replay(", Old: "\t\t\ts.aliveNodes = make(map[string]string)\n\t\t\ts.lastClock = 0", New: "\t\t\ts.lastClock = 0", Expect: "R4"},
			{Name: "clear-when-rejoin", File: "serf/snapshot.go", Func: "func (s *Snapshotter) stream(", Old: "\t\t\tif !s.rejoinAfterLeave {\n\t\t\t\ts.aliveNodes = make(map[string]string)\n\t\t\t}\n\t\t\ts.tryAppend", New: "\t\t\ts.aliveNodes = make(map[string]string)\n\t\t\ts.tryAppend", Expect: "R2"},
			{Name: "new-alive-writer", File: "serf/snapshot.go", Func: "func (s *Snapshotter) updateClock(", Old: "\tlastSeen := s.clock.Time() - 1\n", New: "\tlastSeen := s.clock.Time() - 1\n\tif lastSeen == 0 {\n\t\ts.aliveNodes[\"x\"] = \"y\"\n\t}\n", Expect: "R3"},
		},
	})
	register(&Rule{
		ID:      "C15",
		Explain: "Decides the bookkeeping invariant structurally on every path that changes a member's status: storing Failed/Left is paired with an append to the matching list; leaving Failed/Left is paired with removal from the matching list unless an edge establishes the old status was different; all under the memberLock write section; the lists and the member map have a closed set of writers; eraseNode deletes the map entry and emits exactly one reap event, and its callers removed the member from its list first; Stats reports len() of the two lists under the lock; the reap scan visits each element once, uses strict '>' against the configured timeout as adjusted per member from the configured base. Wall-clock behaviour is not covered.",
		Run:     runC15,
		Mutants: []Mutant{
			{Name: "no-reap-event-without-coordinates", File: "serf/serf.go", Func: "func (s *Serf) eraseNode(", Old: "\tif !s.config.DisableCoordinates {\n", New: "\tif s.config.DisableCoordinates {\n\t\treturn\n\t}\n\t{\n", Expect: "R3|eraseNode:reap-event-always"},
			{Name: "prune-sleeps-unlocked", File: "serf/serf.go", Func: "func (s *Serf) handlePrune(", Old: "\t\ttime.Sleep(s.config.BroadcastTimeout + s.config.LeavePropagateDelay)\n", New: "\t\ts.memberLock.Unlock()\n\t\ttime.Sleep(s.config.BroadcastTimeout + s.config.LeavePropagateDelay)\n\t\ts.memberLock.Lock()\n", Expect: "R6"},
			{Name: "rename-locals", Equivalent: true, Regexp: true, File: "serf/serf.go", Func: "func (s *Serf) reap(", Old: `\b(n|m|memberTimeout)\b`, New: "${1}Renamed"},
			{Name: "failed-not-listed", File: "serf/serf.go", Func: "func (s *Serf) handleNodeLeave(", Old: "\t\ts.failedMembers = append(s.failedMembers, member)\n", New: "", Expect: "R1"},
			{Name: "forceleave-keeps-failed-entry", File: "serf/serf.go", Func: "func (s *Serf) handleNodeLeaveIntent(", Old: "\t\ts.failedMembers = removeOldMember(s.failedMembers, member.Name)\n", New: "", Expect: "R1"},
			{Name: "rejoin-keeps-left-entry", File: "serf/serf.go", Func: "func (s *Serf) handleNodeJoin(", Old: "if oldStatus == StatusFailed || oldStatus == StatusLeft {", New: "if oldStatus == StatusFailed {", Expect: "R1"},
			{Name: "prune-skips-left-removal", File: "serf/serf.go", Func: "func (s *Serf) handlePrune(", Old: "if member.Status == StatusLeaving || member.Status == StatusLeft {", New: "if member.Status == StatusLeaving {", Expect: "R3"},
			{Name: "reap-nonstrict", File: "serf/serf.go", Func: "func (s *Serf) reap(", Old: "if now.Sub(m.leaveTime) <= memberTimeout {", New: "if now.Sub(m.leaveTime) < memberTimeout {", Expect: "R5"},
			{Name: "reap-timeout-carried", File: "serf/serf.go", Func: "func (s *Serf) reap(", Old: "\tfor i := 0; i < n; i++ {\n\t\tm := old[i]\n\n\t\tmemberTimeout := timeout\n", New: "\tmemberTimeout := timeout\n\tfor i := 0; i < n; i++ {\n\t\tm := old[i]\n\n", Expect: "R5"},
			{Name: "reap-skips-next", File: "serf/serf.go", Func: "func (s *Serf) reap(", Old: "\t\tn--\n\t\ti--\n", New: "\t\tn--\n", Expect: "R5"},
			{Name: "stats-failed-from-members", File: "serf/serf.go", Func: "func (s *Serf) Stats(", Old: "failed := toString(uint64(len(s.failedMembers)))", New: "failed := toString(uint64(len(s.failedMembers) + len(s.recentIntents)))", Expect: "R4"},
			{Name: "double-reap-event", File: "serf/serf.go", Func: "func (s *Serf) eraseNode(", Old: "\t// Tell the coordinate client the node has gone away and delete\n", New: "\tif s.config.EventCh != nil && s.config.DisableCoordinates {\n\t\ts.config.EventCh <- MemberEvent{Type: EventMemberReap, Members: []Member{m.Member}}\n\t}\n", Expect: "R3"},
			{Name: "new-list-writer", File: "serf/serf.go", Func: "func (s *Serf) handleNodeUpdate(", Old: "\tmember.Addr = n.Addr\n", New: "\tmember.Addr = n.Addr\n\tif member.Status == StatusFailed {\n\t\ts.failedMembers = removeOldMember(s.failedMembers, member.Name)\n\t}\n", Expect: "R2"},
		},
	})
	register(&Rule{
		ID:      "C16",
		Explain: "Decides the structural half of per-member event order: every MemberEvent handed to the pipeline is sent by a blocking send while the memberLock write section that made the status change is still held (so sends for one member are serialised in status-change order), and every pipeline stage (snapshot tee, internal-query stage, coalesce loop) is a single goroutine per channel that forwards in the same goroutine that received, never through a spawned goroutine or deferred closure. With FIFO channels this yields an in-order subsequence. Coalescer per-member uniqueness is C17's.",
		Run:     runC16,
		Mutants: []Mutant{
			{Name: "leave-event-after-reap", File: "serf/serf.go", Func: "func (s *Serf) handleNodeLeaveIntent(", Old: "\t\ts.leftMembers = append(s.leftMembers, member)\n", New: "\t\ts.leftMembers = append(s.leftMembers, member)\n\t\tif leaveMsg.Prune {\n\t\t\ts.handlePrune(member)\n\t\t}\n", Expect: "R4"},
			{Name: "stage-keeps-backlog", File: "serf/internal_query.go", Func: "func (s *serfQueries) stream(", Old: "\t\t\t\ts.outCh <- e\n", New: "\t\t\t\tbacklog = append(backlog, e)\n\t\t\t\ts.outCh <- backlog[0]\n\t\t\t\tbacklog = backlog[1:]\n", Old2: "func (s *serfQueries) stream() {\n", New2: "func (s *serfQueries) stream() {\n\tvar backlog []Event\n", Expect: "R2|(*serfQueries).stream"},
			{Name: "send-after-unlock", File: "serf/serf.go", Func: "func (s *Serf) handleNodeUpdate(", Old: "\ts.memberLock.Lock()\n\tdefer s.memberLock.Unlock()\n", New: "\ts.memberLock.Lock()\n\ts.memberLock.Unlock()\n", Expect: "R1"},
			{Name: "async-member-event", File: "serf/serf.go", Func: "func (s *Serf) eraseNode(", Old: "\t\ts.config.EventCh <- MemberEvent{\n\t\t\tType:    EventMemberReap,\n\t\t\tMembers: []Member{m.Member},\n\t\t}\n", New: "\t\tev := MemberEvent{\n\t\t\tType:    EventMemberReap,\n\t\t\tMembers: []Member{m.Member},\n\t\t}\n\t\tgo func() { s.config.EventCh <- ev }()\n", Expect: "R1"},
			{Name: "stage-forwards-in-goroutine", File: "serf/internal_query.go", Func: "func (s *serfQueries) stream(", Old: "\t\t\t\ts.outCh <- e\n", New: "\t\t\t\tgo func() { s.outCh <- e }()\n", Expect: "R2"},
			{Name: "two-coalesce-loops", File: "serf/coalesce.go", Func: "func coalescedEventCh(", Old: "\tgo coalesceLoop(inCh, outCh, shutdownCh, cPeriod, qPeriod, c)\n", New: "\tgo coalesceLoop(inCh, outCh, shutdownCh, cPeriod, qPeriod, c)\n\tgo coalesceLoop(inCh, outCh, shutdownCh, cPeriod, qPeriod, c)\n", Expect: "R2"},
			{Name: "prune-unlocks-while-waiting", File: "serf/serf.go", Func: "func (s *Serf) handlePrune(", Old: "\t\ttime.Sleep(s.config.BroadcastTimeout + s.config.LeavePropagateDelay)\n", New: "\t\ts.memberLock.Unlock()\n\t\ttime.Sleep(s.config.BroadcastTimeout + s.config.LeavePropagateDelay)\n\t\ts.memberLock.Lock()\n", Expect: "R1"},
		},
	})
}

func runC13(c *an.Ctx) {
	c.Rule("R1 Serf.Leave: every path from the state=Leaving store to the local leave intent / broadcast / memberlist.Leave passes snapshotter.Leave() or the snapshotter==nil edge")
	c.Rule("R2 leave case of the snapshot goroutine, in order: leaving=true; aliveNodes cleared exactly on !rejoinAfterLeave; append 'leave\\n'; Flush; Sync")
	c.Rule("R3 recorders are called only behind !leaving and only from the snapshot goroutine; writers of aliveNodes are {constructor, replay, leave case, member recorder}")
	c.Rule("R4 replay: the 'leave' line resets aliveNodes and clocks exactly on !rejoinAfterLeave")
	c.Rule("R5 compaction serialises the in-memory aliveNodes")
	c.Rule("R7 (shared with C11) replay reads every line: what was recorded after an earlier leave marker (the node was restarted and ran on) is restored as well")
	replayEveryLine(c, "R7")
	c.Rule("R6 (shared with C12) the leave marker, like every line, is buffered before any compaction attempt and unconditionally")
	appendOrderRule(c, "R6")
	// R8: Snapshotter.Leave hands the leave over by rendezvous
	c.Rule("R8 Snapshotter.Leave returns only after the snapshot goroutine took the leave: every make(chan) stored to Snapshotter.leaveCh is unbuffered (a buffered hand-over lets Leave return, and a following Shutdown win the select, before the marker is written)")
	{
		n := 0
		for _, a := range an.FieldAccesses(c.P.FuncsIn(serf), "Snapshotter", "leaveCh") {
			if a.Kind != "store" {
				continue
			}
			n++
			mk, ok := an.Strip(a.Val).(*ssa.MakeChan)
			sz := int64(-1)
			if ok {
				sz, _ = an.ConstInt(mk.Size)
				if _, isC := an.ConstInt(mk.Size); !isC {
					sz = -1
				}
			}
			c.Add(ok && sz == 0, "R8", "leaveCh:rendezvous:"+an.FuncName(a.Fn), a.Instr, "Snapshotter.leaveCh is an unbuffered channel", "make(chan) capacity")
		}
		c.Floor("R8", "stores to Snapshotter.leaveCh", n, 1)
	}
	// R1
	if lv := sm(c, "R1", "Serf", "Leave"); lv != nil {
		noSnap := an.EdgesImplying(lv, an.Cmp{L: "$0.snapshotter", Op: "==", R: "c:nil"})
		isSnapLeave := func(in ssa.Instruction) bool { return an.IsCallTo(in, "(*Snapshotter).Leave") }
		effs := an.CallsTo(lv, "(*Serf).handleNodeLeaveIntent", "(*Serf).broadcast", "memberlist.(*Memberlist).Leave")
		c.Floor("R1", "leave effects in Serf.Leave", len(effs), 3)
		for _, e := range effs {
			r := an.ReachFrom(lv, nil, &an.Cut{Edges: noSnap, Instrs: isSnapLeave}, func(in ssa.Instruction) bool { return in == e })
			c.Add(r == nil, "R1", "Leave:snapshot-first:"+kindOf(e), e, kindOf(e)+" happens only after the snapshotter was told about the leave (or there is none)", "must-pass with the snapshotter==nil edge cut")
		}
		for _, sl := range an.FindInstrs(lv, isSnapLeave) {
			c.Add(an.Path(an.CallOf(sl).Args[0]) == "$0.snapshotter", "R1", "Leave:snapshotter-receiver", sl, "Leave() is invoked on the node's own snapshotter", "access path")
		}
	}
	// R2
	st := sm(c, "R2", "Snapshotter", "stream")
	if st != nil {
		self := "$0"
		for _, in := range an.CallsTo(st, "(*Snapshotter).tryAppend") {
			self = an.Path(an.CallOf(in).Args[0]) // the receiver as seen inside the goroutine (captured or direct)
		}
		app := an.FindInstrs(st, func(in ssa.Instruction) bool {
			return an.IsCallTo(in, "(*Snapshotter).tryAppend") && an.Path(an.CallOf(in).Args[1]) == `c:"leave\n"`
		})
		if len(app) != 1 {
			c.Anchor("R2", "exactly one tryAppend(\"leave\\n\") in the snapshot goroutine")
		} else {
			L := app[0]
			leaving := an.FindInstrs(st, func(in ssa.Instruction) bool {
				s, ok := in.(*ssa.Store)
				return ok && an.Path(s.Addr) == "&"+self+".leaving" && an.IsConstBool(s.Val, true)
			})
			c.Add(len(leaving) == 1 && an.Dominates(leaving[0], L), "R2", "stream:leaving-first", L, "leaving=true is set before the leave record is appended", "dominance")
			clear := an.FindInstrs(st, func(in ssa.Instruction) bool {
				s, ok := in.(*ssa.Store)
				if !ok || an.Path(s.Addr) != "&"+self+".aliveNodes" {
					return false
				}
				_, isMake := s.Val.(*ssa.MakeMap)
				return isMake
			})
			c.Floor("R2", "alive-set clears in the leave case", len(clear), 1)
			keep := an.EdgesImplying(st, an.Cmp{L: self + ".rejoinAfterLeave", Op: "==", R: "c:true"})
			isClear := func(in ssa.Instruction) bool {
				for _, x := range clear {
					if x == in {
						return true
					}
				}
				return false
			}
			if len(leaving) == 1 {
				r := an.ReachFrom(st, leaving[0], &an.Cut{Edges: keep, Instrs: isClear}, func(in ssa.Instruction) bool { return in == L })
				c.Add(r == nil, "R2", "stream:clear-before-append", L, "when rejoin-after-leave is off the alive set is cleared before the leave record is appended (a compaction inside the append must already reflect the leave)", "must-pass with the rejoinAfterLeave edge cut")
			}
			for _, cl := range clear {
				c.Add(an.GuardedBy(st, cl, an.Cmp{L: self + ".rejoinAfterLeave", Op: "==", R: "c:false"}), "R2", "stream:clear-only-without-rejoin", cl, "the alive set is cleared only when rejoin-after-leave is off", "edge dominance")
				c.Add(!an.Reaches(st, L, cl) || loopOnly(st, L, cl), "R2", "stream:clear-not-after-append", cl, "the clear is not sequenced after the append in the leave case", "reachability within the case")
			}
			isSel := func(in ssa.Instruction) bool { _, ok := in.(*ssa.Select); return ok }
			isFlush := func(in ssa.Instruction) bool {
				return an.IsCallTo(in, "bufio.(*Writer).Flush") && an.Path(an.CallOf(in).Args[0]) == self+".buffered"
			}
			isSync := func(in ssa.Instruction) bool {
				return an.IsCallTo(in, "os.(*File).Sync") && an.Path(an.CallOf(in).Args[0]) == self+".fh"
			}
			okF, _ := an.MustPassTo(st, L, isFlush, isSel)
			c.Add(okF, "R2", "stream:flush-after-append", L, "the leave record is flushed before the goroutine waits again", "must-pass")
			for _, f := range an.FindInstrs(st, isFlush) {
				if an.Reaches(st, L, f) && !an.Reaches(st, f, L) || f.Block() == L.Block() {
					okS, _ := an.MustPassTo(st, f, isSync, isSel)
					c.Add(okS, "R2", "stream:sync-after-flush", f, "the flush of the leave record is followed by a sync before the goroutine waits again", "must-pass")
				}
			}
		}
		// shutdown path: flush then sync then close
		// R3 recorders behind !leaving
		var rec []ssa.Instruction
		fns := append([]*ssa.Function{st}, st.AnonFuncs...)
		for _, f := range fns {
			for _, call := range an.CallsTo(f, "(*Snapshotter).processMemberEvent", "(*Snapshotter).processUserEvent", "(*Snapshotter).processQuery") {
				rec = append(rec, call)
				ok := anyGuard(f, call, an.Cmp{L: "*^*Snapshotter.leaving", Op: "==", R: "c:false"}, an.Cmp{L: self + ".leaving", Op: "==", R: "c:false"})
				c.Add(ok, "R3", "stream:recorder-behind-not-leaving:"+kindOf(call), call, kindOf(call)+" runs only while not leaving", "edge dominance")
			}
		}
		c.Floor("R3", "recorder call sites", len(rec), 3)
	}
	// recorders called from nowhere else
	locks := an.NewLocks(c.P)
	for _, n := range []string{"processMemberEvent", "processUserEvent", "processQuery"} {
		if f := c.P.Method(serf, "Snapshotter", n); f != nil {
			for _, site := range locks.Callers(f) {
				p := site.Parent()
				ok := p == st || (st != nil && p.Parent() == st)
				c.Add(ok, "R3", "recorder-caller:"+n, site, n+" is called only from the snapshot goroutine", "who-may-call")
			}
			c.Add(!locks.Escapes(f), "R3", "recorder-escapes:"+n, f, n+" is not used as a function value", "reference enumeration")
		}
	}
	acc := an.FieldAccesses(c.P.Funcs, "Snapshotter", "aliveNodes")
	c.Floor("R3", "writes to Snapshotter.aliveNodes", len(acc), 6)
	allowed := map[string]bool{"NewSnapshotter": true, "(*Snapshotter).replay": true, "(*Snapshotter).stream": true, "(*Snapshotter).processMemberEvent": true}
	for _, a := range acc {
		fn := an.FuncName(a.Fn)
		c.Add(allowed[fn], "R3", "aliveNodes-writer:"+fn+":"+a.Kind, a.Instr, a.Kind+" on Snapshotter.aliveNodes in "+fn, "who-may-write")
	}
	// R4 replay
	if rp := sm(c, "R4", "Snapshotter", "replay"); rp != nil {
		isLeaveLine := an.EdgesWhere(rp, func(f an.Cmp) bool { return f.Op == "==" && f.R == `c:"leave"` })
		noRejoin := an.EdgesImplying(rp, an.Cmp{L: "$0.rejoinAfterLeave", Op: "==", R: "c:false"})
		c.Floor("R4", "leave-line edges in replay", len(isLeaveLine), 1)
		n := 0
		for _, s := range an.FindInstrs(rp, func(in ssa.Instruction) bool {
			s, ok := in.(*ssa.Store)
			if !ok {
				return false
			}
			p := an.Path(s.Addr)
			if p == "&$0.aliveNodes" {
				_, isMake := s.Val.(*ssa.MakeMap)
				return isMake
			}
			return (p == "&$0.lastClock" || p == "&$0.lastEventClock" || p == "&$0.lastQueryClock") && an.Path(s.Val) == "c:0"
		}) {
			n++
			c.Add(an.Guarded(rp, s, isLeaveLine) && an.Guarded(rp, s, noRejoin), "R4", "replay:reset:"+kindOf(s), s, "replaying a leave record resets "+kindOf(s)+" exactly when rejoin-after-leave is off", "edge dominance")
		}
		c.Floor("R4", "state resets on a leave line", n, 4)
		// with rejoin: nothing is reset: the rejoin==true edge leads back to the loop without stores
	}
	// R5
	if cp := sm(c, "R5", "Snapshotter", "compact"); cp != nil {
		ok := false
		an.Instrs(cp, func(in ssa.Instruction) {
			if r, isR := in.(*ssa.Range); isR && an.Path(r.X) == "$0.aliveNodes" {
				ok = true
			}
		})
		c.Add(ok, "R5", "compact:serialises-alive-set", cp, "compaction iterates the in-memory alive set", "range enumeration")
	}
}

// loopOnly reports whether `to` is reachable from `from` only by going round
// the enclosing for-loop (through a Select instruction).
func loopOnly(fn *ssa.Function, from, to ssa.Instruction) bool {
	r := an.ReachFrom(fn, from, &an.Cut{Instrs: func(in ssa.Instruction) bool { _, ok := in.(*ssa.Select); return ok }}, func(in ssa.Instruction) bool { return in == to })
	return r == nil
}

// ---------------------------------------------------------------------------

func isListStore(in ssa.Instruction, list, how string) bool {
	s, ok := in.(*ssa.Store)
	if !ok || !strings.HasSuffix(an.Path(s.Addr), "$0."+list) {
		return false
	}
	p := an.Path(s.Val)
	switch how {
	case "append":
		return strings.HasPrefix(p, "append($0."+list+",")
	case "remove":
		return strings.HasPrefix(p, "removeOldMember($0."+list+",")
	}
	return false
}

func runC15(c *an.Ctx) {
	c.Rule("R1 paired update: store of Failed ⇒ append to failedMembers, Left ⇒ append to leftMembers; a store made where the old status may be Failed/Left passes removeOldMember of that list unless an edge establishes old != that status; under memberLock write")
	c.Rule("R2 closed writer sets for failedMembers, leftMembers, members")
	c.Rule("R3 eraseNode: one delete of members[m.Name], one non-loop send of a reap event; callers reap (after unlisting) and handlePrune (after removal from leftMembers when Leaving/Left)")
	c.Rule("R4 Stats reports len(failedMembers)/len(leftMembers) read under memberLock")
	c.Rule("R6 a function that is entered with memberLock held never releases it (status decision and list/erase updates stay in one critical section)")
	{
		locks6 := an.NewLocks(c.P)
		n6 := 0
		for _, f := range c.P.FuncsIn(serf) {
			if !locks6.Entry(f).HasW("Serf.memberLock") {
				continue
			}
			n6++
			an.Instrs(f, func(in ssa.Instruction) {
				if l, op := an.LockOpOf(in); l == "Serf.memberLock" && strings.HasPrefix(op, "-") {
					c.Add(false, "R6", an.FuncName(f)+":keeps-member-lock", in, an.FuncName(f)+" is entered with memberLock held and releases it: its checks and updates are no longer one critical section", "entry-held lockset + unlock enumeration")
				}
			})
		}
		c.Floor("R6", "functions entered with memberLock held", n6, 3)
	}
	c.Rule("R5 reap scan: keep iff now-leaveTime <= timeout' (strict erase), timeout' = override(member, configured timeout) or the configured timeout; i net 0 on erase, +1 on keep; bound shrinks by one on erase; slot refilled from the last element")
	locks := an.NewLocks(c.P)
	failed, left := cv(c, serf, "StatusFailed"), cv(c, serf, "StatusLeft")
	lists := map[string]string{failed: "failedMembers", left: "leftMembers"}
	nStores := 0
	for _, fn := range c.P.FuncsIn(serf) {
		for _, st := range an.StoresTo(fn, ".Status") {
			if t, f, ok := an.FieldOf(st.Addr); !ok || t != "Member" || f != "Status" {
				continue
			}
			if _, isC := st.Val.(*ssa.Const); !isC {
				continue
			}
			fa := st.Addr.(*ssa.FieldAddr)
			if isFreshBase(fa) {
				continue // initialisation of a member being constructed
			}
			nStores++
			fname := an.FuncName(fn)
			K := an.Path(st.Val)
			statusPath := strings.TrimPrefix(an.Path(st.Addr), "&")
			c.Add(locks.Held(st).HasW("Serf.memberLock"), "R1", fname+":status-store-locked:"+K, st, "status store of "+K+" under the memberLock write section", "must-held lockset")
			// old status constraints
			oldIs := func(x string) bool {
				return an.GuardedBy(fn, st, an.Cmp{L: statusPath, Op: "==", R: x})
			}
			constrained := ""
			for _, x := range []string{cv(c, serf, "StatusNone"), cv(c, serf, "StatusAlive"), cv(c, serf, "StatusLeaving"), left, failed} {
				if oldIs(x) {
					constrained = x
				}
			}
			if list, ok := lists[K]; ok {
				okA, ex := an.MustPass(fn, st, func(in ssa.Instruction) bool { return isListStore(in, list, "append") })
				c.Add(okA, "R1", fname+":listed:"+K, st, "a member set to "+K+" is appended to "+list+" on every path to the exit", "must-pass")
				_ = ex
			}
			for x, list := range lists {
				if K == x {
					continue
				}
				if constrained != "" && constrained != x {
					continue // an edge establishes the old status is something else
				}
				if an.GuardedAny(fn, st, an.Cmp{L: statusPath, Op: "!=", R: x}) {
					continue // every way to the store establishes that the old status was not x (e.g. "Leaving or Alive")
				}
				// paths that skip the removal must establish old != x
				neq := an.EdgesWhere(fn, func(f an.Cmp) bool {
					return f.Op == "!=" && f.R == x && (f.L == statusPath || phiCarries(fn, f.L, statusPath))
				})
				okR, _ := an.MustPassTo(fn, st, func(in ssa.Instruction) bool { return isListStore(in, list, "remove") }, func(in ssa.Instruction) bool {
					return an.IsExit(in) && in.Block().Comment != "recover"
				})
				if !okR {
					r := an.ReachFrom(fn, st, &an.Cut{Edges: neq, Instrs: func(in ssa.Instruction) bool { return isListStore(in, list, "remove") }}, func(in ssa.Instruction) bool {
						return an.IsExit(in) && in.Block().Comment != "recover"
					})
					okR = r == nil
				}
				c.Add(okR, "R1", fname+":unlisted:"+K+":from:"+x, st, "a member whose old status may be "+x+" is removed from "+list+" when it becomes "+K+" (or an edge establishes it was not "+x+")", "must-pass with old!=status edges cut")
			}
		}
	}
	c.Floor("R1", "constant status stores on existing members", nStores, 6)

	// R2 writers
	writers := map[string]map[string]bool{
		"failedMembers": {"(*Serf).handleNodeJoin": true, "(*Serf).handleNodeLeave": true, "(*Serf).handleNodeLeaveIntent": true, "(*Serf).handleReap": true},
		"leftMembers":   {"(*Serf).handleNodeJoin": true, "(*Serf).handleNodeLeave": true, "(*Serf).handleNodeLeaveIntent": true, "(*Serf).handleReap": true, "(*Serf).handlePrune": true},
		"members":       {"(*Serf).handleNodeJoin": true, "(*Serf).eraseNode": true, "Create": true},
	}
	for field, allowed := range writers {
		acc := an.FieldAccesses(c.P.Funcs, "Serf", field)
		c.Floor("R2", "writes to Serf."+field, len(acc), 3)
		for _, a := range acc {
			fn := an.FuncName(a.Fn)
			c.Add(allowed[fn], "R2", field+"-writer:"+fn+":"+a.Kind, a.Instr, a.Kind+" on Serf."+field+" in "+fn, "who-may-write")
			if !a.Init {
				c.Add(locks.Held(a.Instr).HasW("Serf.memberLock"), "R2", field+"-writer-locked:"+fn+":"+a.Kind, a.Instr, a.Kind+" on Serf."+field+" under the memberLock write section", "must-held lockset (entry-held through callers)")
			}
		}
	}
	// reap and removeOldMember mutate the slice they are given: their callers pass only the two lists
	for _, n := range []string{"reap"} {
		if f := c.P.Method(serf, "Serf", n); f != nil {
			for _, site := range locks.Callers(f) {
				a := an.Path(an.CallOf(site).Args[1])
				c.Add(a == "$0.failedMembers" || a == "$0.leftMembers", "R2", "reap-arg", site, "reap scans one of the two lists (got "+a+")", "argument path")
				// result stored back into the same list
				okBack := false
				if v, ok := site.(ssa.Value); ok {
					for _, r := range *v.Referrers() {
						if s, ok := r.(*ssa.Store); ok && an.Path(s.Addr) == "&"+a {
							okBack = true
						}
					}
				}
				c.Add(okBack, "R2", "reap-result", site, "the scanned list is replaced by reap's result", "def-use")
			}
		}
	}

	// R3 eraseNode
	if er := sm(c, "R3", "Serf", "eraseNode"); er != nil {
		dels := an.FindInstrs(er, func(in ssa.Instruction) bool {
			call, ok := in.(*ssa.Call)
			if !ok {
				return false
			}
			b, ok := call.Call.Value.(*ssa.Builtin)
			return ok && b.Name() == "delete" && an.Path(call.Call.Args[0]) == "$0.members"
		})
		c.Add(len(dels) == 1 && an.Path(an.CallOf(dels[0]).Args[1]) == "$1.Member.Name", "R3", "eraseNode:delete", er, "eraseNode deletes members[m.Name]", "call enumeration")
		if len(dels) == 1 {
			okMP, _ := an.MustPass(er, nil, func(in ssa.Instruction) bool { return in == dels[0] })
			c.Add(okMP, "R3", "eraseNode:delete-always", dels[0], "the delete happens on every path", "must-pass")
		}
		sends := appSends(er)
		reapT := cv(c, serf, "EventMemberReap")
		okType := false
		for _, s := range an.StoresTo(er, ".Type") {
			if an.Path(s.Val) == reapT {
				okType = true
			}
		}
		inLoop := false
		for _, s := range sends {
			if an.Reaches(er, s, s) {
				inLoop = true
			}
		}
		c.Add(len(sends) == 1 && okType && !inLoop, "R3", "eraseNode:one-reap-event", er, "eraseNode emits exactly one reap event (one send site, not in a loop)", "send enumeration")
		if len(sends) == 1 {
			// ... and on every path: only "no event channel configured" may skip it
			noCh := an.EdgesImplying(er, an.Cmp{L: "$0.config.EventCh", Op: "==", R: "c:nil"})
			skip := an.ReachFrom(er, nil, &an.Cut{Edges: noCh, Instrs: func(in ssa.Instruction) bool { return in == sends[0] }}, an.IsExit)
			c.Add(skip == nil, "R3", "eraseNode:reap-event-always", sends[0], "every erased member gets its reap event: no path through eraseNode skips the send except 'no event channel configured'", "reach/cut must-pass")
		}
		// callers
		for _, site := range locks.Callers(er) {
			caller := an.FuncName(site.Parent())
			switch caller {
			case "(*Serf).reap":
				// removal from the scanned list dominates
				var shrink ssa.Instruction
				an.Instrs(site.Parent(), func(in ssa.Instruction) {
					if sl, ok := in.(*ssa.Slice); ok && sl.High != nil && strings.HasSuffix(an.Path(sl.High), "-c:1)") && sl.Low == nil {
						shrink = in
					}
				})
				c.Add(shrink != nil && an.Dominates(shrink, site), "R3", "eraseNode-caller:reap", site, "reap erases only after removing the element from the scanned list", "dominance")
				c.Add(strings.Contains(an.Path(an.CallOf(site).Args[1]), "["), "R3", "eraseNode-caller:reap:element", site, "the erased member is the scanned element", "argument path")
			case "(*Serf).handlePrune":
				hp := site.Parent()
				neq := append(an.EdgesImplying(hp, an.Cmp{L: "$1.Member.Status", Op: "!=", R: left}), []an.Edge{}...)
				r := an.ReachFrom(hp, nil, &an.Cut{Edges: neq, Instrs: func(in ssa.Instruction) bool { return isListStore(in, "leftMembers", "remove") }}, func(in ssa.Instruction) bool { return in == site })
				c.Add(r == nil, "R3", "eraseNode-caller:handlePrune:left", site, "a pruned member whose status is Left is removed from leftMembers before it is erased", "must-pass with the status!=Left edge cut")
				c.Add(an.Path(an.CallOf(site).Args[1]) == "$1", "R3", "eraseNode-caller:handlePrune:member", site, "the erased member is the pruned one", "argument path")
			default:
				c.Add(false, "R3", "eraseNode-caller:"+caller, site, "unexpected caller of eraseNode", "")
			}
		}
		c.Floor("R3", "callers of eraseNode", len(locks.Callers(er)), 2)
		c.Add(!locks.Escapes(er), "R3", "eraseNode:not-a-value", er, "eraseNode is only called directly", "reference enumeration")
	}
	// a pruned member that is Failed must also leave failedMembers: handlePrune's callers
	if hp := c.P.Method(serf, "Serf", "handlePrune"); hp != nil {
		for _, site := range locks.Callers(hp) {
			fn := site.Parent()
			// status at the call is never Failed: the call is behind a store of a non-Failed status or an edge status ∈ {Leaving,Left}
			// every way to the call passes a store of a non-Failed status or an edge establishing
			// status ∈ {Leaving, Left} (decided per path, so merged switch tails and helpers are fine)
			ok := true
			for _, o := range an.Owners(fn) {
				var cut []an.Edge
				cut = append(cut, an.EdgesImplying(o, an.Cmp{L: ihStatus, Op: "==", R: cv(c, serf, "StatusLeaving")})...)
				cut = append(cut, an.EdgesImplying(o, an.Cmp{L: ihStatus, Op: "==", R: left})...)
				esc := an.ReachFrom(o, nil, &an.Cut{Edges: cut, Instrs: func(in ssa.Instruction) bool {
					st, isS := in.(*ssa.Store)
					return isS && strings.HasSuffix(an.Path(st.Addr), ".Status") && an.Path(st.Val) != failed
				}}, func(in ssa.Instruction) bool { return in == site })
				if esc != nil {
					ok = false
				}
			}
			c.Add(ok, "R3", "handlePrune-caller:not-failed", site, "handlePrune is reached only with a member that is not in failedMembers (status just set to Leaving/Left, or tested Leaving/Left)", "dominance / edge dominance")
		}
	}

	// R4 Stats
	if stt := sm(c, "R4", "Serf", "Stats"); stt != nil {
		for key, list := range map[string]string{"failed": "failedMembers", "left": "leftMembers"} {
			ok := false
			an.Instrs(stt, func(in ssa.Instruction) {
				mu, isMU := in.(*ssa.MapUpdate)
				if !isMU || an.Path(mu.Key) != `c:"`+key+`"` {
					return
				}
				v := an.Path(mu.Value)
				if strings.HasSuffix(v, "(len($0."+list+"))") && strings.Count(v, "len(") == 1 {
					ok = true
				}
			})
			c.Add(ok, "R4", "Stats:"+key, stt, "Stats reports \""+key+"\" as len("+list+")", "map update value path")
			for _, call := range an.FindInstrs(stt, func(in ssa.Instruction) bool {
				cl, isC := in.(*ssa.Call)
				if !isC {
					return false
				}
				b, isB := cl.Call.Value.(*ssa.Builtin)
				return isB && b.Name() == "len" && an.Path(cl.Call.Args[0]) == "$0."+list
			}) {
				c.Add(locks.Held(call).HasAny("Serf.memberLock"), "R4", "Stats:"+key+":locked", call, "the list length is read under memberLock", "must-held lockset")
			}
		}
	}

	// R5 reap scan
	if rp := sm(c, "R5", "Serf", "reap"); rp != nil {
		ers := an.CallsTo(rp, "(*Serf).eraseNode")
		ovr := an.FindInstrs(rp, func(in ssa.Instruction) bool {
			call, ok := in.(*ssa.Call)
			return ok && call.Call.IsInvoke() && call.Call.Method.Name() == "ReconnectTimeout"
		})
		c.Floor("R5", "override call sites in reap", len(ovr), 1)
		for _, o := range ovr {
			a := an.CallOf(o).Args
			c.Add(len(a) == 2 && an.Path(a[1]) == "$3" && strings.HasSuffix(an.Path(a[0]), ".Member"), "R5", "reap:override-base", o, "the per-member override is applied to the configured timeout of this scan (arg "+an.Path(a[1])+"), for the scanned member", "argument path")
			c.Add(an.GuardedBy(rp, o, an.Cmp{L: "$0.config.ReconnectTimeoutOverride", Op: "!=", R: "c:nil"}), "R5", "reap:override-guard", o, "the override is consulted only when configured", "edge dominance")
		}
		for _, e := range ers {
			// erase edge: Sub(now, m.leaveTime) > T where T is phi[$3 | override result] defined in the loop body
			edges := an.EdgesWhere(rp, func(f an.Cmp) bool {
				return strings.HasPrefix(f.L, "time.(Time).Sub($2,") && strings.HasSuffix(f.L, ".leaveTime)") && f.Op == ">" && strings.HasPrefix(f.R, "phi@")
			})
			c.Add(an.Guarded(rp, e, edges), "R5", "reap:strict-expiry", e, "a member is erased only when now - leaveTime > its timeout (strict)", "edge dominance")
			for _, ed := range edges {
				i := ed.From.Instrs[len(ed.From.Instrs)-1].(*ssa.If)
				if b, ok := i.Cond.(*ssa.BinOp); ok {
					if phi, ok := b.Y.(*ssa.Phi); ok {
						okPhi := len(phi.Edges) == 2
						for _, pe := range phi.Edges {
							p := an.Path(pe)
							if p != "$3" && !strings.HasPrefix(p, "invoke:ReconnectTimeout(") {
								okPhi = false
							}
						}
						c.Add(okPhi, "R5", "reap:timeout-value", i, "the timeout compared is the configured one or this member's override of it ("+an.Path(phi)+")", "phi operands")
					}
				}
			}
		}
		// induction variable discipline
		// the loop variables are found by role, not by name: in the post block the index is the
		// integer phi that is incremented there, the bound is the other integer phi
		var phiI, phiN *ssa.Phi
		an.Instrs(rp, func(in ssa.Instruction) {
			p, ok := in.(*ssa.Phi)
			if !ok || p.Block().Comment != "for.post" || !isIntType(p.Type()) {
				return
			}
			inc := false
			for _, r := range *p.Referrers() {
				if b, ok := r.(*ssa.BinOp); ok && b.Op == token.ADD && b.Block() == p.Block() {
					if k, ok := an.ConstInt(b.Y); ok && k == 1 {
						inc = true
					}
				}
			}
			if inc {
				phiI = p
			} else {
				phiN = p
			}
		})
		hdr := func(p *ssa.Phi) (string, bool) {
			if len(p.Edges) != 2 {
				return "", false
			}
			a, b := an.Path(p.Edges[0]), an.Path(p.Edges[1])
			for _, pr := range [][2]string{{a, b}, {b, a}} {
				if strings.HasPrefix(pr[0], "phi@") && pr[1] == "("+pr[0]+"-c:1)" {
					return pr[0], true
				}
			}
			return "", false
		}
		hi, hn := "", ""
		if phiI == nil || phiN == nil {
			c.Anchor("R5", "loop index and bound of reap")
		} else {
			var okI, okN bool
			hi, okI = hdr(phiI)
			hn, okN = hdr(phiN)
			c.Add(okI, "R5", "reap:index-net-zero-on-erase", phiI, "the index is decremented on the erase path and unchanged on the keep path before the increment", "phi operands")
			c.Add(okN, "R5", "reap:bound-shrinks-on-erase", phiN, "the bound shrinks by one exactly on the erase path", "phi operands")
		}
		// slot refilled from the last element
		okFill := false
		for _, s := range an.FindInstrs(rp, func(in ssa.Instruction) bool { _, ok := in.(*ssa.Store); return ok }) {
			st := s.(*ssa.Store)
			ap, vp := an.Path(st.Addr), an.Path(st.Val)
			if hi != "" && hn != "" && strings.HasPrefix(ap, "&") && strings.HasSuffix(ap, "["+hi+"]") {
				list := strings.TrimSuffix(strings.TrimPrefix(ap, "&"), "["+hi+"]")
				if vp == list+"[("+hn+"-c:1)]" {
					okFill = true
				}
			}
		}
		c.Add(okFill, "R5", "reap:refill-from-last", rp, "the vacated slot is refilled from the last element", "store path")
	}
}

func isFreshBase(fa *ssa.FieldAddr) bool {
	v := fa.X
	for {
		switch x := v.(type) {
		case *ssa.Alloc:
			return true
		case *ssa.FieldAddr:
			v = x.X
		default:
			return false
		}
	}
}

// ---------------------------------------------------------------------------

func runC16(c *an.Ctx) {
	c.Rule("R1 every MemberEvent send on config.EventCh is a blocking send executed with Serf.memberLock write-held, in a function that never releases that lock explicitly, and not from a spawned goroutine")
	c.Rule("R2 each pipeline stage is started by exactly one go statement per constructed channel and forwards in the goroutine that received (no go/defer around the forward)")
	c.Rule("R4 the reap is a member's last event: after a call that erases the member (eraseNode, handlePrune) no member event is sent on the same path")
	{
		n4 := 0
		for _, f := range c.P.FuncsIn(serf) {
			for _, er := range an.CallsTo(f, "(*Serf).eraseNode", "(*Serf).handlePrune") {
				n4++
				later := an.ReachFrom(f, er, nil, func(in ssa.Instruction) bool {
					snd, ok := in.(*ssa.Send)
					if !ok || !strings.HasSuffix(an.Path(snd.Chan), "config.EventCh") {
						return false
					}
					return strings.Contains(an.TypeLabel(an.Strip(snd.X).Type()), "MemberEvent")
				})
				c.Add(later == nil, "R4", an.FuncName(f)+":nothing-after-reap", er, "no member event is sent after the member was erased (the reap stays the last event the application sees for it)", "reachability from the erasing call")
			}
		}
		c.Floor("R4", "erasing calls", n4, 2)
	}
	locks := an.NewLocks(c.P)
	n := 0
	for _, fn := range c.P.FuncsIn(serf) {
		for _, s := range appSends(fn) {
			snd := s.(*ssa.Send)
			t := snd.X.Type()
			if mi, ok := snd.X.(*ssa.MakeInterface); ok {
				t = mi.X.Type()
			}
			if !strings.HasSuffix(t.String(), "serf.MemberEvent") {
				continue
			}
			n++
			fname := an.FuncName(fn)
			c.Add(locks.Held(s).HasW("Serf.memberLock"), "R1", fname+":member-event-locked", s, "member event sent while the memberLock write section is held", "must-held lockset (entry-held through all callers)")
			c.Add(fn.Parent() == nil && !locks.Escapes(fn), "R1", fname+":member-event-sync", s, "member event sent synchronously by the handler (not from a closure, go statement or function value)", "reference enumeration")
			// no explicit unlock of memberLock between entry and the send
			unl := an.FindInstrs(fn, func(in ssa.Instruction) bool {
				return an.IsCallTo(in, "sync.(*RWMutex).Unlock") && an.Path(an.CallOf(in).Args[0]) == "&$0.memberLock"
			})
			reach := false
			for _, u := range unl {
				if an.Reaches(fn, u, s) {
					reach = true
				}
			}
			c.Add(!reach, "R1", fname+":same-critical-section", s, "the lock is not released between the status change and the send", "reachability from explicit Unlock calls")
		}
	}
	c.Floor("R1", "MemberEvent sends to the pipeline", n, 5)
	// callee chain: functions entered with the lock held must not release it either (handlePrune, eraseNode)
	for _, name := range []string{"handlePrune", "eraseNode", "reap"} {
		if f := c.P.Method(serf, "Serf", name); f != nil {
			unl := an.FindInstrs(f, func(in ssa.Instruction) bool {
				return an.IsCallTo(in, "sync.(*RWMutex).Unlock") && an.Path(an.CallOf(in).Args[0]) == "&$0.memberLock"
			})
			c.Add(len(unl) == 0, "R1", "(*Serf)."+name+":no-unlock", f, name+" runs inside its caller's critical section and never releases memberLock", "call enumeration")
		}
	}

	// R2 stages
	type stage struct {
		ctor, body string
		ctorFn     *ssa.Function
	}
	stages := []stage{
		{ctor: "newSerfQueries", body: "(*serfQueries).stream"},
		{ctor: "coalescedEventCh", body: "coalesceLoop"},
		{ctor: "NewSnapshotter", body: "(*Snapshotter).teeStream"},
		{ctor: "NewSnapshotter", body: "(*Snapshotter).stream"},
	}
	for _, sg := range stages {
		cf := c.P.Func(serf, sg.ctor)
		if !c.NeedFunc("R2", cf, "serf."+sg.ctor) {
			continue
		}
		gos := an.FindInstrs(cf, func(in ssa.Instruction) bool {
			g, ok := in.(*ssa.Go)
			if !ok {
				return false
			}
			f := an.StaticCallee(&g.Call)
			return f != nil && an.CalleeName(f) == sg.body
		})
		inLoop := false
		for _, g := range gos {
			if an.Reaches(cf, g, g) {
				inLoop = true
			}
		}
		c.Add(len(gos) == 1 && !inLoop, "R2", sg.ctor+":one-consumer:"+sg.body, cf, sg.ctor+" starts exactly one "+sg.body+" goroutine per channel it creates", "go-statement enumeration")
		// nobody else starts the body
		tot := 0
		for _, f := range c.P.FuncsIn(serf) {
			for _, in := range an.CallsTo(f, sg.body) {
				_ = in
				tot++
			}
		}
		c.Add(tot == 1, "R2", sg.body+":started-once", cf, sg.body+" is referenced by exactly one call/go site in the package", "call enumeration")
	}
	// forwards happen in the receiving goroutine
	for _, body := range []struct{ typ, name string }{{"serfQueries", "stream"}, {"", "coalesceLoop"}, {"Snapshotter", "teeStream"}} {
		var f *ssa.Function
		if body.typ == "" {
			f = c.P.Func(serf, body.name)
		} else {
			f = c.P.Method(serf, body.typ, body.name)
		}
		if !c.NeedFunc("R2", f, body.name) {
			continue
		}
		fns := append([]*ssa.Function{f}, f.AnonFuncs...)
		nf := 0
		for _, g := range fns {
			// sends on outCh: plain Send or select send state
			an.Instrs(g, func(in ssa.Instruction) {
				isFwd := false
				switch x := in.(type) {
				case *ssa.Send:
					isFwd = chanIsOut(x.Chan) || an.Path(x.Chan) == "$1"
				case *ssa.Select:
					for _, stt := range x.States {
						if stt.Dir == 1 && chanIsOut(stt.Chan) {
							isFwd = true
						}
					}
				}
				if !isFwd {
					return
				}
				nf++
				// FIFO: what is forwarded is the event received in this very iteration, never one kept
				// in the stage's own memory (a backlog lets a newer event overtake an older one)
				var vals []ssa.Value
				switch x := in.(type) {
				case *ssa.Send:
					vals = append(vals, x.X)
				case *ssa.Select:
					for _, stt := range x.States {
						if stt.Dir == 1 && chanIsOut(stt.Chan) {
							vals = append(vals, stt.Send)
						}
					}
				}
				fresh := func(v ssa.Value) bool {
					p := an.Path(v)
					return !strings.Contains(p, "[") && (strings.HasPrefix(p, "select@") || strings.HasPrefix(p, "<-"))
				}
				for _, v := range vals {
					ok := fresh(v)
					if par, isPar := v.(*ssa.Parameter); isPar && an.Transparent(par.Parent()) {
						// parameter of a new forwarding helper: every call site passes the event it just received
						ok = true
						for _, sv := range an.SiteValues(v) {
							ok = ok && fresh(sv)
						}
					} else if isPar && g != f {
						// closure parameter: every call site passes the event it just received
						idx := -1
						for i, q := range g.Params {
							if q == par {
								idx = i
							}
						}
						sites := locks.Callers(g)
						ok = idx >= 0 && len(sites) > 0
						for _, site := range sites {
							a := an.CallOf(site).Args
							k := idx - len(g.FreeVars)*0
							if k >= len(a) || !fresh(a[k]) {
								ok = false
							}
						}
					}
					c.Add(ok, "R2", an.FuncName(f)+":forwards-what-it-just-received", in, "the stage forwards the event it received in this iteration (no backlog from which an older event could be sent after a newer one); forwards "+short(an.Path(v)), "value provenance of the forwarded event")
				}
				sync := g == f || (!locks.Escapes(g) && len(locks.Callers(g)) > 0)
				c.Add(sync, "R2", an.FuncName(f)+":forward-in-receiver", in, "the stage forwards in the goroutine that received the event", "closure is only called directly, never spawned or stored")
			})
			for _, gi := range an.FindInstrs(g, func(in ssa.Instruction) bool { _, ok := in.(*ssa.Go); return ok }) {
				callee := an.StaticCallee(an.CallOf(gi))
				ok := callee != nil && an.CalleeName(callee) == "(*serfQueries).handleQuery"
				c.Add(ok, "R2", an.FuncName(f)+":no-spawn-in-stage", gi, "the only goroutine a stage spawns is the internal-query handler (whose events are never forwarded)", "go-statement enumeration")
			}
		}
		// and no stage keeps events in a slice of its own
		for _, g := range fns {
			an.Instrs(g, func(in ssa.Instruction) {
				call, ok := in.(*ssa.Call)
				if !ok {
					return
				}
				if b, isB := call.Call.Value.(*ssa.Builtin); isB && b.Name() == "append" {
					if sl, isS := call.Type().Underlying().(*types.Slice); isS && an.TypeLabel(sl.Elem()) == "Event" {
						c.Add(false, "R2", an.FuncName(f)+":no-event-backlog", in, "a pipeline stage does not queue events in a slice of its own", "append enumeration")
					}
				}
			})
		}
		c.Floor("R2", "forward sites in "+an.FuncName(f), nf, 1)
	}
	// R3: the member coalescer keeps, per member, exactly the latest event of the
	// quantum and reports it at most once (shared with C17.R2/R3): otherwise the
	// last event an application sees for a member need not match its status.
	c.Rule("R3 (shared with C17) the member coalescer's pending entry per member is always overwritten by the latest event and emitted at most once per flush")
	sub := an.NewCtx(c.P, "C17", c.Tier)
	runC17(sub)
	for _, o := range sub.Obs {
		if o.Rule == "R2" || o.Rule == "R3" {
			o.Key = "R3|C17:" + o.Key
			o.Rule = "R3"
			c.Obs = append(c.Obs, o)
		}
	}
	// coalescer Flush implementations forward synchronously too
	for _, t := range []string{"memberEventCoalescer", "userEventCoalescer"} {
		if f := c.P.Method(serf, t, "Flush"); f != nil {
			gos := an.FindInstrs(f, func(in ssa.Instruction) bool { _, ok := in.(*ssa.Go); return ok })
			c.Add(len(gos) == 0 && len(f.AnonFuncs) == 0, "R2", t+".Flush:sync", f, t+".Flush emits synchronously", "go-statement enumeration")
		} else {
			c.Anchor("R2", t+".Flush")
		}
	}
}

// phiCarries reports whether path p names a variable phi of fn one of whose
// operands is the value with path want (the variable holds a saved copy of it).
func phiCarries(fn *ssa.Function, p, want string) bool {
	if !strings.HasPrefix(p, "phi@") {
		return false
	}
	found := false
	an.Instrs(fn, func(in ssa.Instruction) {
		if ph, ok := in.(*ssa.Phi); ok && an.Path(ph) == p {
			for _, e := range ph.Edges {
				if an.Path(e) == want {
					found = true
				}
			}
		}
	})
	return found
}

// chanIsOut reports whether v is a stage's output channel, directly or through a variable that may hold it.
func chanIsOut(v ssa.Value) bool {
	if strings.HasSuffix(an.Path(v), "outCh") {
		return true
	}
	if ph, ok := v.(*ssa.Phi); ok {
		for _, e := range ph.Edges {
			if _, again := e.(*ssa.Phi); !again && strings.HasSuffix(an.Path(e), "outCh") {
				return true
			}
		}
	}
	return false
}
