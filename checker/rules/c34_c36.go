package rules

import (
	"go/token"
	"strconv"
	"strings"

	"serfcheck/an"

	"golang.org/x/tools/go/ssa"
)

func init() {
	register(&Rule{
		ID:      "C34",
		Explain: "Decides that the lifecycle state only moves forward under every interleaving of Join/Leave/Shutdown, by a rely/guarantee argument over shape facts: Serf.state is written only by Create (initialisation), Leave and Shutdown, always with stateLock held; every store of a constant state K is, within the same critical section, guarded against every state greater than K (so each store is >= the value it replaces; since all writers only raise, values observed earlier stay lower bounds); Shutdown returns nil before any effect when already shut down, Leave returns nil before any effect when already left, and Join's memberlist join is behind State()==alive read at its entry.",
		Run:     runC34,
		Mutants: []Mutant{
			{Name: "leave-queues-behind-join", File: "serf/serf.go", Func: "func (s *Serf) Leave(", Old: "\t// Check the current state\n\ts.stateLock.Lock()\n", New: "\ts.joinLock.Lock()\n\ts.joinLock.Unlock()\n\t// Check the current state\n\ts.stateLock.Lock()\n", Expect: "R3|Leave:publishes-leaving-first"},
			{Name: "left-after-shutdown", File: "serf/serf.go", Func: "func (s *Serf) Leave(", Old: "\tif s.state != SerfShutdown {\n\t\ts.state = SerfLeft\n\t}\n", New: "\ts.state = SerfLeft\n", Expect: "R2"},
			{Name: "leave-from-left-restarts", File: "serf/serf.go", Func: "func (s *Serf) Leave(", Old: "\tcase SerfLeft:\n\t\ts.stateLock.Unlock()\n\t\treturn nil\n", New: "", Expect: "R"},
			{Name: "state-written-unlocked", File: "serf/serf.go", Func: "func (s *Serf) Leave(", Old: "\ts.state = SerfLeaving\n\ts.stateLock.Unlock()\n", New: "\ts.stateLock.Unlock()\n\ts.state = SerfLeaving\n", Expect: "R"},
			{Name: "shutdown-not-idempotent", File: "serf/serf.go", Func: "func (s *Serf) Shutdown(", Old: "\tif s.state == SerfShutdown {\n\t\treturn nil\n\t}\n", New: "", Expect: "R3"},
			{Name: "leave-returns-early-on-broadcast-timeout", File: "serf/serf.go", Func: "func (s *Serf) Leave(", Old: "\t\ts.logger.Printf(\"[WARN] serf: timeout waiting for leave broadcast: %s\", err.Error())\n", New: "\t\ts.logger.Printf(\"[WARN] serf: timeout waiting for leave broadcast: %s\", err.Error())\n\t\treturn nil\n", Expect: "R3|Leave:success-means-left"},
			{Name: "join-after-leave", File: "serf/serf.go", Func: "func (s *Serf) Join(", Old: "if s.State() != SerfAlive {", New: "if s.State() == SerfShutdown {", Expect: "R3"},
			{Name: "new-state-writer", File: "serf/serf.go", Func: "func (s *Serf) handleNodeConflict(", Old: "\t// The current node is conflicting! This is an error\n", New: "\ts.state = SerfAlive\n", Expect: "R1"},
		},
	})
	register(&Rule{
		ID:      "C35",
		Explain: "Decides relay selection structurally: the relay loop is reached only when relayFactor != 0 and the node knows at least relayFactor+1 members, and iterates over kRandomMembers(relayFactor, members, filter); the filter keeps a member only on edges establishing status alive, protocol >= 5 and name != local name; the selector appends only members the filter kept, whose name equals no already selected member (exit of the dedupe scan) and only while fewer than k were selected (so at most k, distinct, never self); each relayed copy goes to the selected member's own address and name.",
		Run:     runC35,
		Mutants: []Mutant{
			{Name: "protocol-versions-only-on-first-join", File: "serf/serf.go", Func: "func (s *Serf) handleNodeJoin(", Old: "\tmember.ProtocolMax = n.PMax\n", New: "\tif oldStatus == StatusNone {\n\t\tmember.ProtocolMax = n.PMax\n\t}\n", Expect: "R4"},
			{Name: "rename-locals", Equivalent: true, Regexp: true, File: "serf/query.go", Func: "func (s *Serf) relayResponse(", Old: `\b(localName|members|relayMembers)\b`, New: "${1}Renamed"},
			{Name: "relay-to-self", File: "serf/query.go", Func: "func (s *Serf) relayResponse(", Old: "m.Status != StatusAlive || m.ProtocolMax < 5 || m.Name == localName", New: "m.Status != StatusAlive || m.ProtocolMax < 5 || (m.Name == localName && m.Port == 0)", Expect: "R2"},
			{Name: "relay-to-failed", File: "serf/query.go", Func: "func (s *Serf) relayResponse(", Old: "m.Status != StatusAlive || m.ProtocolMax < 5 || m.Name == localName", New: "m.Status == StatusLeft || m.ProtocolMax < 5 || m.Name == localName", Expect: "R2"},
			{Name: "no-dedupe", File: "serf/query.go", Func: "func kRandomMembers(", Old: "\t\t\tif member.Name == kMembers[j].Name {\n\t\t\t\tcontinue OUTER\n\t\t\t}\n", New: "\t\t\tif member.Name == kMembers[j].Name && j > 0 {\n\t\t\t\tcontinue OUTER\n\t\t\t}\n", Expect: "R3"},
			{Name: "more-than-k", File: "serf/query.go", Func: "func kRandomMembers(", Old: "i < 3*n && len(kMembers) < k", New: "i < 3*n && len(kMembers) <= k", Expect: "R3"},
			{Name: "relay-guard-wraps-at-255", File: "serf/query.go", Func: "func (s *Serf) relayResponse(", Old: "if len(members) < int(relayFactor)+1 {", New: "if len(members) < int(relayFactor+1) {", Expect: "R1|relay:enough-members"},
			{Name: "relay-in-tiny-cluster", File: "serf/query.go", Func: "func (s *Serf) relayResponse(", Old: "if len(members) < int(relayFactor)+1 {", New: "if len(members) < int(relayFactor) {", Expect: "R1"},
			{Name: "k-plus-one", File: "serf/query.go", Func: "func (s *Serf) relayResponse(", Old: "kRandomMembers(int(relayFactor), members,", New: "kRandomMembers(int(relayFactor)+1, members,", Expect: "R1"},
		},
	})
	register(&Rule{
		ID:      "C36",
		Explain: "Decides name-conflict resolution structurally: a reply is counted only when its payload is non-empty, its type byte is the conflict-response type and it decodes; it counts as matching only when additionally address and port equal the local node's; the self-shutdown is reached exactly on the false edge of a strict-majority test in canonical form over those two counters; the responder answers with the member it holds for the queried name and stays silent about itself.",
		Run:     runC36,
		Mutants: []Mutant{
			{Name: "rename-locals", Equivalent: true, Regexp: true, File: "serf/serf.go", Func: "func (s *Serf) resolveNodeConflict(", Old: `\b(member|responses|matching|majority)\b`, New: "${1}Renamed"},
			{Name: "reply-struct-reused", File: "serf/serf.go", Func: "func (s *Serf) resolveNodeConflict(", Old: "\t\tvar member Member\n", New: "", Old2: "\tvar responses, matching int\n", New2: "\tvar responses, matching int\n\tvar member Member\n", Expect: "R4"},
			{Name: "majority-nonstrict", File: "serf/serf.go", Func: "func (s *Serf) resolveNodeConflict(", Old: "majority := (responses / 2) + 1", New: "majority := (responses + 1) / 2", Expect: "R2"},
			{Name: "malformed-counted", File: "serf/serf.go", Func: "func (s *Serf) resolveNodeConflict(", Old: "\t\t\ts.logger.Printf(\"[ERR] serf: Failed to decode conflict query response: %v\", err)\n\t\t\tcontinue", New: "\t\t\ts.logger.Printf(\"[ERR] serf: Failed to decode conflict query response: %v\", err)\n\t\t\tresponses++\n\t\t\tcontinue", Expect: "R1"},
			{Name: "port-ignored", File: "serf/serf.go", Func: "func (s *Serf) resolveNodeConflict(", Old: "member.Addr.Equal(local.Addr) && member.Port == local.Port", New: "member.Addr.Equal(local.Addr)", Expect: "R1"},
			{Name: "responder-answers-about-itself", File: "serf/internal_query.go", Func: "func (s *serfQueries) handleConflict(", Old: "\tif node == s.serf.config.NodeName {\n\t\treturn\n\t}\n", New: "", Expect: "R3"},
			{Name: "shutdown-on-majority", File: "serf/serf.go", Func: "func (s *Serf) resolveNodeConflict(", Old: "if matching >= majority {", New: "if matching < majority {", Expect: "R2"},
		},
	})
}

func runC34(c *an.Ctx) {
	c.Rule("R1 who-may-write Serf.state: Create (init), Leave, Shutdown; non-init stores with stateLock held")
	c.Rule("R2 a store of state K is guarded, in the same critical section, against every state greater than K")
	c.Rule("R3 Shutdown: effects behind state != Shutdown, nil on the other edge; Leave: effects behind state != Left, nil on the other edge; Join: memberlist.Join behind State()==alive")
	locks := an.NewLocks(c.P)
	states := map[string]int{}
	for i, n := range []string{"SerfAlive", "SerfLeaving", "SerfLeft", "SerfShutdown"} {
		v := cv(c, serf, n)
		states[v] = i
		c.Add(v == "c:"+strconv.Itoa(i), "R2", "enum-order:"+n, nil, n+" has ordinal "+strconv.Itoa(i)+" (forward order alive < leaving < left < shutdown)", "constant value")
	}
	acc := an.FieldAccesses(c.P.FuncsIn(serf), "Serf", "state")
	c.Floor("R1", "stores to Serf.state", len(acc), 4)
	for _, a := range acc {
		fn := an.FuncName(a.Fn)
		if a.Init {
			c.Add(fn == "Create" && an.Path(a.Val) == "c:0", "R1", "state-writer:"+fn+":init", a.Instr, "initial state is alive, set by Create", "init store")
			continue
		}
		ok := fn == "(*Serf).Leave" || fn == "(*Serf).Shutdown"
		c.Add(ok, "R1", "state-writer:"+fn, a.Instr, "Serf.state is written only by Leave and Shutdown", "who-may-write")
		c.Add(locks.Held(a.Instr).HasW("Serf.stateLock"), "R1", "state-writer-locked:"+fn+":"+an.Path(a.Val), a.Instr, "state store under stateLock", "must-held lockset")
		k, isState := states[an.Path(a.Val)]
		if !isState {
			c.Add(false, "R2", "state-value:"+fn, a.Instr, "state is set to a non-constant or unknown value "+an.Path(a.Val), "")
			continue
		}
		// the critical section of the store: the latest Lock of stateLock dominating it
		var lock ssa.Instruction
		for _, l := range an.CallsTo(a.Fn, "sync.(*Mutex).Lock") {
			if an.Path(an.CallOf(l).Args[0]) == "&$0.stateLock" && an.Dominates(l, a.Instr) {
				if lock == nil || an.Dominates(lock, l) {
					lock = l
				}
			}
		}
		okSec := lock != nil
		if lock != nil {
			for _, u := range an.CallsTo(a.Fn, "sync.(*Mutex).Unlock") {
				if _, isDefer := u.(*ssa.Defer); isDefer {
					continue
				}
				if an.Reaches(a.Fn, lock, u) && an.Reaches(a.Fn, u, a.Instr) {
					okSec = false
				}
			}
		}
		c.Add(okSec, "R2", fn+":store-in-section:"+an.Path(a.Val), a.Instr, "no unlock lies between the latest Lock dominating the store and the store", "lock/unlock reachability")
		for v, ord := range states {
			if ord <= k {
				continue
			}
			// the guard against the later state v must be evaluated inside that same critical section
			g := false
			if lock != nil {
				for _, e := range an.EdgesImplying(a.Fn, an.Cmp{L: "$0.state", Op: "!=", R: v}) {
					last := e.From.Instrs[len(e.From.Instrs)-1]
					if an.Dominates(lock, last) && an.Guarded(a.Fn, a.Instr, []an.Edge{e}) {
						g = true
					}
				}
			}
			c.Add(g, "R2", fn+":upward:"+an.Path(a.Val)+":not-from:"+v, a.Instr, "state "+an.Path(a.Val)+" is stored only when, in the same critical section, the current state was tested not to be the later state "+v, "edge dominance by a test evaluated after the section's Lock")
		}
	}
	// R3
	shut, left, alive := cv(c, serf, "SerfShutdown"), cv(c, serf, "SerfLeft"), cv(c, serf, "SerfAlive")
	if sd := sm(c, "R3", "Serf", "Shutdown"); sd != nil {
		effs := an.CallsTo(sd, "memberlist.(*Memberlist).Shutdown", "(*Snapshotter).Wait")
		effs = append(effs, an.FindInstrs(sd, func(in ssa.Instruction) bool {
			call, ok := in.(*ssa.Call)
			if !ok {
				return false
			}
			b, ok := call.Call.Value.(*ssa.Builtin)
			return ok && b.Name() == "close"
		})...)
		c.Floor("R3", "effects of Shutdown", len(effs), 2)
		for _, e := range effs {
			c.Add(an.GuardedBy(sd, e, an.Cmp{L: "$0.state", Op: "!=", R: shut}), "R3", "Shutdown:effect-once:"+kindOf(e), e, kindOf(e)+" only when not already shut down", "edge dominance")
		}
		for _, ed := range an.EdgesImplying(sd, an.Cmp{L: "$0.state", Op: "==", R: shut}) {
			bad := an.ReachFromBlock(sd, ed.To(), nil, func(in ssa.Instruction) bool {
				r, ok := in.(*ssa.Return)
				if !ok {
					return false
				}
				v := an.ResultValues(r)
				return len(v) != 1 || !an.IsNilConst(an.Bound(v[0]))
			})
			c.Add(bad == nil, "R3", "Shutdown:repeat-succeeds", sd, "a repeated Shutdown returns nil", "reachability from the already-shut-down edge")
		}
	}
	if lv := sm(c, "R3", "Serf", "Leave"); lv != nil {
		// "a join is refused if a leave had begun before it was called": Leave must publish the leaving
		// state before it can wait for anything — Join decides on the state it reads, so a Leave that
		// first queues on another lock (or blocks on a channel) lets a later Join through
		var pub []ssa.Instruction
		for _, st := range an.StoresTo(lv, ".state") {
			if an.Path(st.Addr) == "&$0.state" && an.Path(st.Val) == cv(c, serf, "SerfLeaving") {
				pub = append(pub, st)
			}
		}
		c.Floor("R3", "stores of SerfLeaving in Leave", len(pub), 1)
		isPub := func(in ssa.Instruction) bool {
			for _, p := range pub {
				if p == in {
					return true
				}
			}
			return false
		}
		isWait := func(in ssa.Instruction) bool {
			if lock, op := an.LockOpOf(in); lock != "" && strings.HasPrefix(op, "+") {
				return lock != "Serf.stateLock"
			}
			switch x := in.(type) {
			case *ssa.Send, *ssa.Select:
				return true
			case *ssa.UnOp:
				return x.Op == token.ARROW
			}
			return false
		}
		// a wait that comes before the store: reachable from entry without crossing the store, and the
		// store still reachable after it
		var wait ssa.Instruction
		for _, w := range an.FindInstrs(lv, isWait) {
			w := w
			before := an.ReachFrom(lv, nil, &an.Cut{Instrs: isPub}, func(in ssa.Instruction) bool { return in == w }) != nil
			if before && an.ReachFrom(lv, w, nil, isPub) != nil {
				wait = w
			}
		}
		c.Add(wait == nil, "R3", "Leave:publishes-leaving-first", lv, "Leave stores SerfLeaving before it acquires any lock other than stateLock or waits on a channel (a Join called after Leave began reads the new state)", "reach/cut from entry to the first wait, cut at the store")
		if wait != nil {
			c.Obs[len(c.Obs)-1].Desc += " — waits first at " + c.P.InstrPos(wait)
		}
		effs := an.CallsTo(lv, "(*Snapshotter).Leave", "(*Serf).handleNodeLeaveIntent", "(*Serf).broadcast", "memberlist.(*Memberlist).Leave")
		c.Floor("R3", "effects of Leave", len(effs), 4)
		for _, e := range effs {
			c.Add(an.GuardedBy(lv, e, an.Cmp{L: "$0.state", Op: "!=", R: left}), "R3", "Leave:effect-not-after-left:"+kindOf(e), e, kindOf(e)+" only when the node has not already left", "edge dominance")
			c.Add(an.GuardedBy(lv, e, an.Cmp{L: "$0.state", Op: "!=", R: shut}), "R3", "Leave:effect-not-after-shutdown:"+kindOf(e), e, kindOf(e)+" only when the node is not shut down", "edge dominance")
		}
		for _, ed := range an.EdgesImplying(lv, an.Cmp{L: "$0.state", Op: "==", R: left}) {
			bad := an.ReachFromBlock(lv, ed.To(), nil, func(in ssa.Instruction) bool {
				r, ok := in.(*ssa.Return)
				if !ok {
					return false
				}
				v := an.ResultValues(r)
				return len(v) != 1 || !an.IsNilConst(an.Bound(v[0]))
			})
			c.Add(bad == nil, "R3", "Leave:repeat-succeeds", lv, "Leave after a completed leave returns nil", "reachability from the already-left edge")
		}
		c.Add(len(an.EdgesImplying(lv, an.Cmp{L: "$0.state", Op: "==", R: left})) > 0, "R3", "Leave:left-edge-exists", lv, "Leave tests for the already-left state", "edge enumeration")
		// a Leave that published "leaving" and reports success has recorded "left" (or saw a shutdown):
		// otherwise the node stays leaving for good and every later Leave fails with "already in progress"
		var leavingStore ssa.Instruction
		var leftStores []ssa.Instruction
		for _, a := range an.FieldAccesses([]*ssa.Function{lv}, "Serf", "state") {
			switch an.Path(a.Val) {
			case cv(c, serf, "SerfLeaving"):
				leavingStore = a.Instr
			case left:
				leftStores = append(leftStores, a.Instr)
			}
		}
		if c.Add(leavingStore != nil && len(leftStores) > 0, "R3", "Leave:completes:anchors", lv, "Leave stores leaving and later left", "store enumeration") {
			isLeft := func(in ssa.Instruction) bool {
				for _, l := range leftStores {
					if in == l {
						return true
					}
				}
				return false
			}
			bad := an.ReachFrom(lv, leavingStore, &an.Cut{Instrs: isLeft, Edges: an.EdgesImplying(lv, an.Cmp{L: "$0.state", Op: "==", R: shut})}, func(in ssa.Instruction) bool {
				r, ok := in.(*ssa.Return)
				if !ok {
					return false
				}
				v := an.ResultValues(r)
				return len(v) == 1 && an.IsNilConst(an.Bound(v[0]))
			})
			c.Add(bad == nil, "R3", "Leave:success-means-left", orInstr(bad, leavingStore), "every successful return of a Leave that published leaving passes the store of left (or saw a shutdown)", "reach/cut from the leaving store to nil returns")
		}
	}
	if jn := sm(c, "R3", "Serf", "Join"); jn != nil {
		for _, e := range an.CallsTo(jn, "memberlist.(*Memberlist).Join", "(*Serf).broadcastJoin") {
			c.Add(an.GuardedBy(jn, e, an.Cmp{L: "(*Serf).State($0)", Op: "==", R: alive}), "R3", "Join:refused-after-leave:"+kindOf(e), e, kindOf(e)+" only if the state read at entry was alive", "edge dominance")
		}
		st := an.CallsTo(jn, "(*Serf).State")
		c.Add(len(st) == 1 && an.Dominates(st[0], firstInstr(jn, "sync.(*Mutex).Lock")), "R3", "Join:state-read-at-entry", jn, "the state is read before anything else happens in Join", "dominance")
	}
	if st := sm(c, "R3", "Serf", "State"); st != nil {
		ok := false
		for _, r := range an.Returns(st) {
			if an.Path(an.ResultValues(r)[0]) == "$0.state" {
				ok = true
			}
		}
		for _, l := range an.FieldReads([]*ssa.Function{st}, "Serf", "state") {
			if !locks.Held(l).HasW("Serf.stateLock") {
				ok = false
			}
		}
		c.Add(ok, "R3", "State:locked-read", st, "State() returns the state read under stateLock", "result path + lockset")
	}
}

func firstInstr(fn *ssa.Function, callee string) ssa.Instruction {
	cs := an.CallsTo(fn, callee)
	if len(cs) == 0 {
		return fn.Blocks[0].Instrs[0]
	}
	return cs[0]
}

// ---------------------------------------------------------------------------

func runC35(c *an.Ctx) {
	c.Rule("R1 relay loop behind relayFactor != 0 and len(members) >= relayFactor+1; iterates kRandomMembers(relayFactor, members, filter)")
	c.Rule("R2 the filter keeps a member only on edges establishing Status == alive, ProtocolMax >= 5, Name != local name")
	c.Rule("R3 selector: append only behind filter-kept, no-equal-name (dedupe scan exit) and len(result) < k")
	c.Rule("R4 the ProtocolMax the filter reads is current: handleNodeJoin and handleNodeUpdate store the notification's PMax into the member on every path that has a member (a rejoin with another version is not left stale)")
	for _, name := range []string{"handleNodeJoin", "handleNodeUpdate"} {
		fn := sm(c, "R4", "Serf", name)
		if fn == nil {
			continue
		}
		isPM := func(in ssa.Instruction) bool {
			st, ok := in.(*ssa.Store)
			if !ok {
				return false
			}
			_, f, okF := an.FieldOf(st.Addr)
			return okF && f == "ProtocolMax" && an.Path(st.Val) == "$1.PMax"
		}
		skipOK := an.EdgesWhere(fn, func(f an.Cmp) bool {
			if strings.Contains(f.L, "config.messageDropper(") && f.Op == "==" && f.R == "c:true" {
				return true
			}
			return name == "handleNodeUpdate" && strings.HasPrefix(f.L, "$0.members[") && strings.HasSuffix(f.L, "#1") && f.Op == "==" && f.R == "c:false"
		})
		skip := an.ReachFrom(fn, nil, &an.Cut{Edges: skipOK, Instrs: isPM}, an.IsExit)
		c.Add(skip == nil, "R4", name+":protocol-max-refreshed", fn, name+" stores the node's current PMax into the member on every path that has a member", "reach/cut must-pass")
		if skip != nil {
			c.Obs[len(c.Obs)-1].Desc += " — exit without it at " + c.P.InstrPos(skip)
		}
	}
	rr := sm(c, "R1", "Serf", "relayResponse")
	if rr == nil {
		return
	}
	sends := an.CallsTo(rr, "memberlist.(*Memberlist).SendToAddress")
	c.Floor("R1", "relay send sites", len(sends), 1)
	sel := an.CallsTo(rr, "kRandomMembers")
	if len(sel) != 1 {
		c.Anchor("R1", "one kRandomMembers call in relayResponse")
		return
	}
	selPath := an.Path(sel[0].(ssa.Value))
	for _, s := range sends {
		c.Add(an.GuardedBy(rr, s, an.Cmp{L: "$1", Op: "!=", R: "c:0"}), "R1", "relay:factor-nonzero", s, "no relay when the relay factor is zero", "edge dominance")
		enough := an.GuardedBy(rr, s, an.Cmp{L: "len((*Serf).Members($0))", Op: ">=", R: "($1+c:1)"}) ||
			an.GuardedBy(rr, s, an.Cmp{L: "len((*Serf).Members($0))", Op: ">", R: "$1"}) // the same bound without the addition
		c.Add(enough, "R1", "relay:enough-members", s, "no relay when fewer than relayFactor+1 members are known", "edge dominance")
		// destination = the selected member
		dst := false
		for _, st := range an.StoresTo(rr, ".Name") {
			if t, _, _ := an.FieldOf(st.Addr); t == "Address" && strings.HasPrefix(an.Path(st.Val), selPath+"[") && strings.HasSuffix(an.Path(st.Val), ".Name") {
				dst = true
			}
		}
		ip := false
		for _, st := range an.StoresTo(rr, ".IP") {
			if strings.HasPrefix(an.Path(st.Val), selPath+"[") && strings.HasSuffix(an.Path(st.Val), ".Addr") {
				ip = true
			}
		}
		c.Add(dst && ip, "R1", "relay:destination", s, "each relayed copy is addressed to a selected member (its own address and name)", "field provenance")
	}
	a := an.CallOf(sel[0]).Args
	c.Add(an.Path(a[0]) == "$1" && an.Path(a[1]) == "(*Serf).Members($0)" && (strings.HasPrefix(an.Path(a[2]), "closure:") || closureOfArg(a[2])), "R1", "relay:selector-args", sel[0], "the selector is asked for relayFactor members out of the member list, with the eligibility filter (k="+an.Path(a[0])+")", "call arguments")

	// R2 filter closure
	// the filter is the closure handed to the selector: written in place, or made by a one-return factory
	var filt *ssa.Function
	var filtBind ssa.Value
	closureOf := func(v ssa.Value) *ssa.MakeClosure {
		if mc, ok := v.(*ssa.MakeClosure); ok {
			return mc
		}
		if call, ok := v.(*ssa.Call); ok {
			if g := an.StaticCallee(&call.Call); g != nil && an.Transparent(g) {
				if rets := an.Returns(g); len(rets) == 1 {
					if mc, ok := an.ResultValues(rets[0])[0].(*ssa.MakeClosure); ok {
						return mc
					}
				}
			}
		}
		return nil
	}
	if mc := closureOf(a[2]); mc != nil {
		filt, _ = mc.Fn.(*ssa.Function)
		if len(mc.Bindings) == 1 {
			filtBind = mc.Bindings[0]
		}
	}
	if filt == nil {
		c.Anchor("R2", "eligibility closure of relayResponse")
	} else {
		f := filt
		alive := cv(c, serf, "StatusAlive")
		// judged by ways: every way the filter can answer false (keep) establishes all three keep
		// conditions, every way it can answer true (skip) establishes one of the three skip conditions —
		// whatever the shape (one disjunction, a switch, early returns)
		keep := []an.Cmp{{L: "$0.Status", Op: "==", R: alive}, {L: "$0.ProtocolMax", Op: ">=", R: "c:5"}, {L: "$0.Name", Op: "!=", R: "*^string"}}
		skip := []an.Cmp{{L: "$0.Status", Op: "!=", R: alive}, {L: "$0.ProtocolMax", Op: "<", R: "c:5"}, {L: "$0.Name", Op: "==", R: "*^string"}}
		has := func(facts []an.Cmp, w an.Cmp) bool {
			for _, x := range facts {
				if x.Implies(w) {
					return true
				}
			}
			return false
		}
		ways := boolWays(f)
		c.Floor("R2", "ways the eligibility filter returns", len(ways), 2)
		nKeep := 0
		for _, w := range ways {
			if !an.IsConstBool(w.v, true) { // can answer false
				nKeep++
				ff := append(append([]an.Cmp{}, w.facts...), an.CondFacts(w.v, false)...)
				okK := has(ff, keep[0]) && has(ff, keep[1]) && has(ff, keep[2])
				c.Add(okK, "R2", "filter:keep-condition", w.ret, "a member is kept (filter false) only if status is alive, ProtocolMax >= 5 and its name differs from the local name (way returning "+short(an.Path(w.v))+")", "ways of the filter + facts on each")
			}
			if !an.IsConstBool(w.v, false) { // can answer true
				ft := append(append([]an.Cmp{}, w.facts...), an.CondFacts(w.v, true)...)
				okS := has(ft, skip[0]) || has(ft, skip[1]) || has(ft, skip[2])
				c.Add(okS, "R2", "filter:shape", w.ret, "a member is skipped (filter true) only when it is not alive, too old or the local node (way returning "+short(an.Path(w.v))+")", "ways of the filter + facts on each")
			}
		}
		c.Add(nKeep >= 1, "R2", "filter:single-keep-path", f, "the filter can keep a member", "way enumeration")
		// localName is the local member's name
		okLN := false
		if al, isAl := filtBind.(*ssa.Alloc); isAl {
			// the captured cell is written once, with the local member's name (possibly through the factory's parameter)
			n := 0
			for _, u := range *al.Referrers() {
				if st, isSt := u.(*ssa.Store); isSt && st.Addr == ssa.Value(al) {
					n++
					okLN = an.Path(an.CallerValue(st.Val)) == "(*Serf).LocalMember($0).Name"
				}
			}
			okLN = okLN && n == 1
		}
		c.Add(okLN, "R2", "filter:local-name", rr, "the name excluded is the local member's name", "store provenance")
	}
	if lm := sm(c, "R2", "Serf", "LocalMember"); lm != nil {
		ok := false
		for _, r := range an.Returns(lm) {
			if an.Path(an.ResultValues(r)[0]) == "$0.members[$0.config.NodeName].Member" {
				ok = true
			}
		}
		c.Add(ok, "R2", "LocalMember:self", lm, "LocalMember returns the entry of the node's own name", "result path")
	}

	// R3 selector
	if km := sf(c, "R3", "kRandomMembers"); km != nil {
		apps := an.FindInstrs(km, func(in ssa.Instruction) bool {
			call, ok := in.(*ssa.Call)
			if !ok {
				return false
			}
			b, ok := call.Call.Value.(*ssa.Builtin)
			return ok && b.Name() == "append"
		})
		c.Floor("R3", "append sites in kRandomMembers", len(apps), 1)
		cand := "$1[rand.Intn(len($1))]"
		for _, ap := range apps {
			res := an.Path(an.CallOf(ap).Args[0])
			c.Add(an.GuardedBy(km, ap, an.Cmp{L: "len(" + res + ")", Op: "<", R: "$0"}), "R3", "selector:at-most-k", ap, "a member is appended only while fewer than k are selected", "edge dominance")
			keep := append(an.EdgesImplying(km, an.Cmp{L: "dyn:$2(" + cand + ")", Op: "==", R: "c:false"}), an.EdgesImplying(km, an.Cmp{L: "$2", Op: "==", R: "c:nil"})...)
			c.Add(an.Guarded(km, ap, keep), "R3", "selector:filter-respected", ap, "a member is appended only if the filter did not exclude it", "edge dominance")
			exit := an.EdgesWhere(km, func(f an.Cmp) bool {
				return strings.HasPrefix(f.L, "phi@") && f.Op == ">=" && f.R == "len("+res+")"
			})
			okScan := an.Guarded(km, ap, exit)
			if !okScan {
				// the scan through the library: slices.ContainsFunc(result, func(p) bool { return p.Name == candidate.Name }) == false
				for _, in := range an.FindInstrs(km, func(in ssa.Instruction) bool { return an.CallOf(in) != nil }) {
					call, isCall := in.(*ssa.Call)
					if !isCall || len(call.Call.Args) != 2 {
						continue
					}
					callee := an.StaticCallee(&call.Call)
					if callee == nil || !strings.HasPrefix(an.CalleeName(callee), "slices.ContainsFunc") || an.Path(call.Call.Args[0]) != res {
						continue
					}
					mc, isMC := call.Call.Args[1].(*ssa.MakeClosure)
					if !isMC {
						continue
					}
					cf, _ := mc.Fn.(*ssa.Function)
					if cf == nil || len(cf.Params) != 1 || len(cf.Blocks) != 1 {
						continue
					}
					all := len(an.Returns(cf)) == 1
					for _, r := range an.Returns(cf) {
						eq, isEq := an.ResultValues(r)[0].(*ssa.BinOp)
						if !isEq || eq.Op != token.EQL {
							all = false
							continue
						}
						l, rr := an.Path(eq.X), an.Path(eq.Y)
						names := strings.HasSuffix(l, ".Name") && strings.HasSuffix(rr, ".Name")
						// one side is the closure's parameter (an already selected member), the other a captured value
						onePar := strings.HasPrefix(l, "$0.") != strings.HasPrefix(rr, "$0.")
						if !names || !onePar {
							all = false
						}
					}
					if all && an.GuardedBy(km, ap, an.Cmp{L: an.Path(call), Op: "==", R: "c:false"}) {
						okScan = true
					}
				}
			}
			c.Add(okScan, "R3", "selector:after-dedupe-scan", ap, "a member is appended only after the whole result was scanned for an equal name", "edge dominance by the scan's exit edge")
			// equal name ⇒ not appended in this iteration
			for _, e := range an.EdgesWhere(km, func(f an.Cmp) bool {
				return f.Op == "==" && strings.HasSuffix(f.L, ".Name") && strings.HasSuffix(f.R, ".Name") && strings.HasPrefix(f.L, cand)
			}) {
				r := an.ReachFromBlock(km, e.To(), &an.Cut{Instrs: func(in ssa.Instruction) bool {
					// stop at the next candidate draw
					return an.IsCallTo(in, "rand.Intn")
				}}, func(in ssa.Instruction) bool { return in == ap })
				c.Add(r == nil, "R3", "selector:equal-name-skipped", ap, "a candidate whose name equals a selected member's is not appended", "reach/cut from the equal-name edge to the append within one iteration")
			}
			// appended element is the candidate
			c.Add(appendedElemMentions(ap.(*ssa.Call), cand) || appendedElemMentions(ap.(*ssa.Call), "local:Member"), "R3", "selector:appends-candidate", ap, "the appended element is the drawn candidate", "append operand")
		}
		// the scan compares every selected element: loop from 0 with step 1 (phi:j shape checked by nonNegIndex)
	}
}

// ---------------------------------------------------------------------------

func runC36(c *an.Ctx) {
	c.Rule("R1 responses++ behind payload non-empty ∧ type byte = conflict response ∧ decode ok; matching++ additionally behind address-equal ∧ port-equal")
	c.Rule("R2 Shutdown is reached exactly on the false edge of a strict-majority test in canonical form over the two counters")
	c.Rule("R3 the responder answers with the member it holds for the queried name and stays silent about itself")
	c.Rule("R4 each reply is decoded into a fresh Member (no field of an earlier reply can leak into a later, sparser one)")
	rn := sm(c, "R1", "Serf", "resolveNodeConflict")
	if rn != nil {
		c.Floor("R4", "decode sites in resolveNodeConflict", decodeTargetsFresh(c, "R4", []*ssa.Function{rn}), 1)
		var incR, incM []ssa.Instruction
		var phiR, phiM *ssa.Phi
		// the counters are found by role: the two integer loop variables that are incremented by one;
		// the reply counter is the one whose increment comes first in an iteration (it dominates the other's)
		type ctr struct {
			phi  *ssa.Phi
			incs []ssa.Instruction
		}
		var ctrs []ctr
		an.Instrs(rn, func(in ssa.Instruction) {
			p, ok := in.(*ssa.Phi)
			if !ok || !isIntType(p.Type()) {
				return
			}
			var incs []ssa.Instruction
			for _, r := range *p.Referrers() {
				if b, ok := r.(*ssa.BinOp); ok && b.Op == token.ADD && b.X == ssa.Value(p) {
					if k, isC := an.ConstInt(b.Y); isC && k == 1 && feeds(b, p) {
						incs = append(incs, b)
					}
				}
			}
			if len(incs) > 0 {
				ctrs = append(ctrs, ctr{p, incs})
			}
		})
		after := func(a, b ctr) bool { // every increment of b comes after an increment of a
			for _, ib := range b.incs {
				ok := false
				for _, ia := range a.incs {
					if an.Dominates(ia, ib) {
						ok = true
					}
				}
				if !ok {
					return false
				}
			}
			return true
		}
		if len(ctrs) == 2 {
			switch {
			case after(ctrs[0], ctrs[1]):
				phiR, phiM = ctrs[0].phi, ctrs[1].phi
			case after(ctrs[1], ctrs[0]):
				phiR, phiM = ctrs[1].phi, ctrs[0].phi
			}
		}
		cname := map[*ssa.Phi]string{phiR: "responses", phiM: "matching"}
		if phiR == nil || phiM == nil {
			c.Anchor("R1", "counters responses/matching in resolveNodeConflict")
		} else {
			an.Instrs(rn, func(in ssa.Instruction) {
				b, ok := in.(*ssa.BinOp)
				if !ok || b.Op.String() != "+" {
					return
				}
				if n, isC := an.ConstInt(b.Y); !isC || n != 1 {
					return
				}
				if b.X == ssa.Value(phiR) {
					incR = append(incR, in)
				}
				if b.X == ssa.Value(phiM) {
					incM = append(incM, in)
				}
			})
			// counters change only by these increments
			for _, p := range []*ssa.Phi{phiR, phiM} {
				for _, e := range p.Edges {
					ok := e == ssa.Value(p) || an.Path(e) == "c:0"
					for _, inc := range append(append([]ssa.Instruction{}, incR...), incM...) {
						if e == inc.(ssa.Value) {
							ok = true
						}
					}
					c.Add(ok, "R1", "counter-update:"+cname[p], p, "counter "+cname[p]+" only starts at 0, stays, or is incremented by one (operand "+an.Path(e)+")", "phi operands")
				}
			}
			c.Floor("R1", "increments of responses", len(incR), 1)
			c.Floor("R1", "increments of matching", len(incM), 1)
			msgT := cv(c, serf, "messageConflictResponseType")
			valid := func(in ssa.Instruction, who string) {
				pl := an.EdgesWhere(rn, func(f an.Cmp) bool {
					return strings.HasPrefix(f.L, "len(") && strings.HasSuffix(f.L, ".Payload)") && (f.Op == ">=" && f.R == "c:1" || f.Op == ">" && f.R == "c:0" || f.Op == "!=" && f.R == "c:0")
				})
				ty := an.EdgesWhere(rn, func(f an.Cmp) bool {
					return strings.HasSuffix(f.L, ".Payload[c:0]") && f.Op == "==" && f.R == msgT
				})
				dec := an.EdgesWhere(rn, func(f an.Cmp) bool {
					return strings.HasPrefix(f.L, "decodeMessage(") && strings.HasSuffix(f.L, ".Payload[c:1:],&local:Member)") && f.Op == "==" && f.R == "c:nil"
				})
				c.Add(an.Guarded(rn, in, pl), "R1", who+":non-empty", in, who+" only for a non-empty payload", "edge dominance")
				c.Add(an.Guarded(rn, in, ty), "R1", who+":type-byte", in, who+" only for the conflict-response type byte", "edge dominance")
				c.Add(an.Guarded(rn, in, dec), "R1", who+":decoded", in, who+" only if the member decoded", "edge dominance")
			}
			for _, in := range incR {
				valid(in, "responses++")
			}
			for _, in := range incM {
				valid(in, "matching++")
				// the reply's member is the decode target or the value a decoding helper returned: whatever
				// it is, the address test and the port test are about the same value
				const localAddr = ".Addr,memberlist.(*Memberlist).LocalNode($0.memberlist).Addr)"
				who := ""
				addr := an.EdgesWhere(rn, func(f an.Cmp) bool {
					if strings.HasPrefix(f.L, "net.(IP).Equal(") && strings.HasSuffix(f.L, localAddr) && f.Op == "==" && f.R == "c:true" {
						who = strings.TrimSuffix(strings.TrimPrefix(f.L, "net.(IP).Equal("), localAddr)
						return true
					}
					return false
				})
				port := an.EdgesImplying(rn, an.Cmp{L: who + ".Port", Op: "==", R: "memberlist.(*Memberlist).LocalNode($0.memberlist).Port"})
				c.Add(an.Guarded(rn, in, addr), "R1", "matching++:address", in, "matching++ only if the reported address equals the local address", "edge dominance")
				c.Add(an.Guarded(rn, in, port), "R1", "matching++:port", in, "matching++ only if the reported port equals the local port", "edge dominance")
				// every matching reply was also counted as a response
				dom := false
				for _, r := range incR {
					if an.Dominates(r, in) {
						dom = true
					}
				}
				c.Add(dom, "R1", "matching++:counted", in, "a matching reply is also counted as a valid reply", "dominance")
			}
			// R2
			sd := an.CallsTo(rn, "(*Serf).Shutdown")
			c.Floor("R2", "self-shutdown sites", len(sd), 1)
			m, r := an.Path(phiM), an.Path(phiR)
			canon := []an.Cmp{
				{L: m, Op: "<", R: "((" + r + "/c:2)+c:1)"},
				{L: m, Op: "<=", R: "(" + r + "/c:2)"},
				{L: "(c:2*" + m + ")", Op: "<=", R: r},
				{L: "(" + m + "*c:2)", Op: "<=", R: r},
				{L: "(c:2*" + m + ")", Op: "<", R: "(" + r + "+c:1)"},
			}
			for _, s := range sd {
				c.Add(anyGuard(rn, s, canon...), "R2", "shutdown:minority-only", s, "the node shuts itself down only when matching is not a strict majority of the valid replies (canonical form m < r/2+1)", "edge dominance, canonical comparison forms")
				// exactly: the other edge never reaches Shutdown
				for _, cm := range canon {
					for _, e := range an.EdgesImplying(rn, an.Cmp{L: cm.L, Op: negate(cm.Op), R: cm.R}) {
						rr := an.ReachFromBlock(rn, e.To(), nil, func(in ssa.Instruction) bool { return in == s })
						c.Add(rr == nil, "R2", "shutdown:not-on-majority", s, "with a strict majority the node keeps running", "reachability from the majority edge")
					}
				}
				for _, f := range necessaryFacts(rn, s) {
					okF := false
					for _, cm := range canon {
						if f.Implies(cm) && cm.Implies(f) {
							okF = true
						}
					}
					if strings.Contains(f.L, "<-") || strings.Contains(f.L, "Query(") {
						okF = true // query started, channel drained
					}
					c.Add(okF, "R2", "shutdown:condition:"+short(f.String()), s, "condition on the way to the self-shutdown: "+short(f.String()), "necessary-edge enumeration")
				}
			}
		}
	}
	// R3 responder
	if hc := sm(c, "R3", "serfQueries", "handleConflict"); hc != nil {
		resp := an.CallsTo(hc, "(*Query).Respond")
		c.Floor("R3", "respond sites in handleConflict", len(resp), 1)
		for _, r := range resp {
			c.Add(an.GuardedBy(hc, r, an.Cmp{L: "$1.Payload", Op: "!=", R: "$0.serf.config.NodeName"}), "R3", "handleConflict:silent-about-self", r, "no answer when the queried name is the node's own", "edge dominance")
			buf := an.Path(an.CallOf(r).Args[1])
			c.Add(strings.HasPrefix(buf, "encodeMessage("+cv(c, serf, "messageConflictResponseType")+","), "R3", "handleConflict:response-type", r, "the answer is encoded as a conflict response", "argument path")
		}
		okM := false
		an.Instrs(hc, func(in ssa.Instruction) {
			if l, ok := in.(*ssa.Lookup); ok && an.Path(l.X) == "$0.serf.members" && an.Path(l.Index) == "$1.Payload" {
				okM = true
			}
		})
		c.Add(okM, "R3", "handleConflict:answers-held-member", hc, "the answer is the member this node holds under the queried name", "lookup path")
	}
}

func negate(op string) string {
	return map[string]string{"<": ">=", "<=": ">", ">": "<=", ">=": "<", "==": "!=", "!=": "=="}[op]
}

func short(s string) string {
	if len(s) > 90 {
		return s[:90] + "…"
	}
	return s
}

// feeds reports whether value v flows back into phi p (directly or through other phis).
func feeds(v ssa.Value, p *ssa.Phi) bool {
	seen := map[*ssa.Phi]bool{}
	var walk func(q *ssa.Phi) bool
	walk = func(q *ssa.Phi) bool {
		if seen[q] {
			return false
		}
		seen[q] = true
		for _, e := range q.Edges {
			if e == v {
				return true
			}
			if eq, ok := e.(*ssa.Phi); ok && walk(eq) {
				return true
			}
		}
		return false
	}
	return walk(p)
}

// closureOfArg: v is the result of a transparent one-return factory that returns a closure.
func closureOfArg(v ssa.Value) bool {
	call, ok := v.(*ssa.Call)
	if !ok {
		return false
	}
	g := an.StaticCallee(&call.Call)
	if g == nil || !an.Transparent(g) {
		return false
	}
	rets := an.Returns(g)
	if len(rets) != 1 {
		return false
	}
	_, isMC := an.ResultValues(rets[0])[0].(*ssa.MakeClosure)
	return isMC
}

func orInstr(a, b ssa.Instruction) ssa.Instruction {
	if a != nil {
		return a
	}
	return b
}
