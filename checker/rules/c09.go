package rules

import (
	"fmt"
	"go/token"
	"go/types"
	"sort"
	"strings"

	"serfcheck/an"

	"golang.org/x/tools/go/ssa"
)

// C09 No network input crashes a node: panic-obligation engine.

func init() {
	register(&Rule{
		ID:      "C09",
		Explain: "Decides C09 as a closed set of proof obligations: starting from every memberlist delegate method serf registers (and the goroutines that consume the data those hand over by channel), it computes the set of module functions reachable on the call graph and enumerates in them every construct that can panic on some input — slice/string/array indexing and slicing, explicit panics, unchecked type assertions, integer division by a non-constant, writes through a possibly-nil map, dereferences of pointers taken out of decoded containers, and make() with a non-constant length. Each obligation must be discharged by one of a fixed list of sound idioms the repository actually uses (dominating length/nil guards on the same access path, range induction variables, comma-ok, LastIndex/!=-1 guards, modulus by the same length, enum who-may-write arguments, caller-established preconditions, ...). Anything no rule decides fails the check. Resource exhaustion, deadlock and panics inside dependencies are not covered; go-msgpack's Decode recovering its own panics is part of the trusted base (re-checked in the thorough tier).",
		Run:     runC09,
		Mutants: []Mutant{
			{Name: "ack-decoded-into-pointer", File: "serf/ping_delegate.go", Func: "func (p *pingDelegate) NotifyPingComplete(", Old: "\tvar coord coordinate.Coordinate\n\tif err := dec.Decode(&coord); err != nil {", New: "\tvar coordp *coordinate.Coordinate\n\tif err := dec.Decode(&coordp); err != nil {", Old2: "\tbefore := p.serf.coordClient.GetCoordinate()\n", New2: "\tcoord := *coordp\n\tbefore := p.serf.coordClient.GetCoordinate()\n", Expect: "P6"},
			{Name: "notifymsg-no-empty-check", File: "serf/delegate.go", Func: "func (d *delegate) NotifyMsg(", Old: "\tif len(buf) == 0 {\n\t\treturn\n\t}\n", New: "", Expect: "P1"},
			{Name: "merge-no-empty-check", File: "serf/delegate.go", Func: "func (d *delegate) MergeRemoteState(", Old: "\tif len(buf) == 0 {\n\t\td.serf.logger.Printf(\"[ERR] serf: Remote state is zero bytes\")\n\t\treturn\n\t}\n", New: "", Expect: "P1"},
			{Name: "merge-nil-events-unchecked", File: "serf/delegate.go", Func: "func (d *delegate) MergeRemoteState(", Old: "\t\tif events == nil {\n\t\t\tcontinue\n\t\t}\n", New: "", Expect: "P6"},
			{Name: "ping-no-empty-check", File: "serf/ping_delegate.go", Func: "func (p *pingDelegate) NotifyPingComplete(", Old: "\tif len(payload) == 0 {\n\t\treturn\n\t}\n", New: "", Expect: "P1"},
			{Name: "conflict-response-no-length-check", File: "serf/serf.go", Func: "func (s *Serf) resolveNodeConflict(", Old: "if len(r.Payload) < 1 || messageType(r.Payload[0]) != messageConflictResponseType {", New: "if messageType(r.Payload[0]) != messageConflictResponseType {", Expect: "P1"},
			{Name: "decodetags-no-empty-check", File: "serf/serf.go", Func: "func (s *Serf) decodeTags(", Old: "if len(buf) == 0 || buf[0] != tagMagicByte {", New: "if buf[0] != tagMagicByte {", Expect: "P1"},
			{Name: "keyresp-no-length-check", File: "serf/keymanager.go", Func: "func (k *KeyManager) streamKeyResp(", Old: "if len(r.Payload) < 1 || messageType(r.Payload[0]) != messageKeyResponseType {", New: "if messageType(r.Payload[0]) != messageKeyResponseType {", Expect: "P1"},
			{Name: "filter-empty-unchecked", File: "serf/query.go", Func: "func (s *Serf) shouldProcessQuery(", Old: "\t\tif len(filter) == 0 {\n", New: "\t\tif len(filter) == 0 && len(filters) > 8 {\n", Expect: "P1"},
			{Name: "key-payload-unchecked", File: "serf/internal_query.go", Func: "func (s *serfQueries) handleUseKey(", Old: "decodeKeyRequest(q.Payload, &req)", New: "decodeMessage(q.Payload[1:], &req)", Expect: "P1"},
			{Name: "coalesce-unchecked-assert", File: "serf/coalesce_user.go", Func: "func (c *userEventCoalescer) Handle(", Old: "\tif e.EventType() != EventUser {\n\t\treturn false\n\t}\n", New: "", Expect: "P3"},
			{Name: "query-name-sliced-without-prefix", File: "serf/internal_query.go", Func: "func (s *serfQueries) stream(", Old: "if q, ok := e.(*Query); ok && strings.HasPrefix(q.Name, InternalQueryPrefix) {", New: "if q, ok := e.(*Query); ok && strings.Contains(q.Name, InternalQueryPrefix) {", Expect: "P1"},
		},
	})
}

type pob struct {
	kind string // P1..P7
	fn   *ssa.Function
	in   ssa.Instruction
	desc string
}

// c09Entries resolves the network entry points.
func c09Entries(c *an.Ctx) []*ssa.Function {
	var out []*ssa.Function
	add := func(typ string, names ...string) {
		for _, n := range names {
			f := c.P.Method(serf, typ, n)
			if c.NeedFunc("entry", f, "serf.("+typ+")."+n) {
				out = append(out, f)
			}
		}
	}
	add("delegate", "NotifyMsg", "MergeRemoteState", "NodeMeta", "LocalState", "GetBroadcasts")
	add("eventDelegate", "NotifyJoin", "NotifyLeave", "NotifyUpdate")
	add("conflictDelegate", "NotifyConflict")
	add("pingDelegate", "AckPayload", "NotifyPingComplete")
	add("mergeDelegate", "NotifyMerge", "NotifyAlive")
	// consumers of data handed over by channel (explicit, checked edges)
	add("Snapshotter", "teeStream", "stream")
	add("serfQueries", "stream", "handleQuery")
	add("Serf", "resolveNodeConflict")
	add("KeyManager", "streamKeyResp")
	if f := c.P.Func(serf, "coalesceLoop"); c.NeedFunc("entry", f, "serf.coalesceLoop") {
		out = append(out, f)
	}
	return out
}

func runC09(c *an.Ctx) {
	c.Rule("entry points: memberlist Delegate/EventDelegate/ConflictDelegate/PingDelegate/MergeDelegate/AliveDelegate methods + channel consumers (pipeline stages, internal-query handler, conflict resolver, key-response reader)")
	c.Rule("obligations P1 index/slice, P2 explicit panic, P3 unchecked type assertion, P4 integer division, P5 nil-map write, P6 nil pointer out of a decoded container, P7 make with non-constant length")
	c.Rule("discharge rules D0..D14 (see evidence samples: each obligation names the rule that discharged it); anything else is undecided and fails")
	entries := c09Entries(c)
	// the delegates are the ones actually registered with memberlist
	if cr := c.P.Func(serf, "Create"); cr != nil {
		reg := map[string]bool{}
		for _, st := range an.FindInstrs(cr, func(in ssa.Instruction) bool { _, ok := in.(*ssa.Store); return ok }) {
			s := st.(*ssa.Store)
			if t, f, ok := an.FieldOf(s.Addr); ok && t == "Config" && (f == "Events" || f == "Conflict" || f == "Delegate" || f == "Ping" || f == "Merge" || f == "Alive") {
				vt := s.Val.Type().String()
				if mi, ok := s.Val.(*ssa.MakeInterface); ok {
					vt = mi.X.Type().String()
				}
				reg[f+"="+vt[strings.LastIndex(vt, ".")+1:]] = true
			}
		}
		want := []string{"Events=eventDelegate", "Conflict=conflictDelegate", "Delegate=delegate", "Ping=pingDelegate", "Merge=mergeDelegate", "Alive=mergeDelegate"}
		for _, w := range want {
			c.Add(reg[w], "entry", "registered:"+w, cr, "Create registers "+w+" with memberlist", "store enumeration on memberlist.Config")
		}
		for k := range reg {
			known := false
			for _, w := range want {
				if w == k {
					known = true
				}
			}
			c.Add(known, "entry", "registered-known:"+k, cr, "delegate registration "+k+" is covered by the entry-point table", "store enumeration")
		}
	}
	cg := an.NewCG(c.P)
	reach := cg.Reachable(entries, func(f *ssa.Function) bool {
		pp := an.PkgPathOf(f)
		return pp != serf && pp != an.PkgCoord
	})
	var fns []*ssa.Function
	for f := range reach {
		if f.Blocks != nil && an.InModule(f) {
			fns = append(fns, f)
		}
	}
	sort.Slice(fns, func(i, j int) bool { return fns[i].Pos() < fns[j].Pos() })
	c.Floor("entry", "functions reachable from network entry points", len(fns), 100)

	var obs []pob
	for _, fn := range fns {
		obs = append(obs, enumPanics(fn)...)
	}
	d := &discharger{c: c, cg: cg, locks: nil, reach: reach}
	counts := map[string]int{}
	for _, o := range obs {
		counts[o.kind]++
		how := d.discharge(o)
		fname := an.FuncName(o.fn)
		ord := an.Ordinal(o.in, func(x ssa.Instruction) bool { return sameKind(x, o.in) })
		key := fmt.Sprintf("%s:%s:%d", fname, o.kind, ord)
		if how != "" {
			c.Add(true, o.kind, key, o.in, o.desc, how)
		} else {
			c.Undecided(o.kind, key, o.in, o.desc+" — no discharge rule applies")
		}
	}
	c.Floor("P1", "index/slice obligations", counts["P1"], 40)
	c.Floor("P3", "type-assertion obligations", counts["P3"], 3)
	c.Floor("P5", "map-update obligations", counts["P5"], 10)
	var names []string
	for _, f := range fns {
		names = append(names, an.QualName(f))
	}
	c.Assumption("Config.EventBuffer >= 1 and Config.QueryBuffer >= 1 (a zero is a local configuration error, not a network input)")
	c.Assumption("coordinate.Config is not modified after NewClient and has Dimensionality >= 1 and AdjustmentWindowSize >= 1")
	c.Assumption("go-msgpack (*Decoder).Decode converts decode panics into errors; memberlist hands delegates non-nil *Node values")
	c.Assumption("reachable set (" + cg.Kind + "): " + fmt.Sprint(len(names)) + " functions")
	if c.P.Full {
		c09Thorough(c, fns, obs)
	}
}

func sameKind(a, b ssa.Instruction) bool {
	return fmt.Sprintf("%T", a) == fmt.Sprintf("%T", b)
}

func isIntType(t types.Type) bool {
	b, ok := t.Underlying().(*types.Basic)
	return ok && b.Info()&types.IsInteger != 0
}

// enumPanics lists the panic obligations of one function.
func enumPanics(fn *ssa.Function) []pob {
	var out []pob
	an.Instrs(fn, func(in ssa.Instruction) {
		switch x := in.(type) {
		case *ssa.IndexAddr:
			out = append(out, pob{"P1", fn, in, "index " + an.Path(x)})
		case *ssa.Index:
			out = append(out, pob{"P1", fn, in, "index " + an.Path(x)})
		case *ssa.Lookup:
			if _, isMap := x.X.Type().Underlying().(*types.Map); !isMap {
				out = append(out, pob{"P1", fn, in, "string index " + an.Path(x)})
			}
		case *ssa.Slice:
			if x.Low == nil && x.High == nil && x.Max == nil {
				return
			}
			out = append(out, pob{"P1", fn, in, "slice " + an.Path(x)})
		case *ssa.Panic:
			if x.Pos().IsValid() {
				out = append(out, pob{"P2", fn, in, "explicit panic(" + an.Path(x.X) + ")"})
			}
		case *ssa.TypeAssert:
			if !x.CommaOk {
				out = append(out, pob{"P3", fn, in, "type assertion " + an.Path(x)})
			}
		case *ssa.BinOp:
			if (x.Op == token.QUO || x.Op == token.REM) && isIntType(x.X.Type()) {
				if n, ok := an.ConstInt(x.Y); ok && n != 0 {
					return
				}
				out = append(out, pob{"P4", fn, in, "integer division " + an.Path(x)})
			}
		case *ssa.MapUpdate:
			out = append(out, pob{"P5", fn, in, "map update " + an.Path(x.Map) + "[" + an.Path(x.Key) + "]"})
		case *ssa.MakeSlice:
			if _, ok := an.ConstInt(x.Len); !ok {
				out = append(out, pob{"P7", fn, in, "make with length " + an.Path(x.Len)})
			}
		case *ssa.FieldAddr:
			if src := decodedPointerSource(x.X); src != "" {
				out = append(out, pob{"P6", fn, in, "field access through pointer " + an.Path(x.X) + " (" + src + ")"})
			}
		case *ssa.UnOp:
			if x.Op == token.MUL {
				if _, isFA := x.X.(*ssa.FieldAddr); isFA {
					return
				}
				// a pointer variable that is itself a decode target (var p *T; Decode(&p)) is nil after
				// decoding a nil: every use of the loaded pointer other than a nil test is an obligation
				if al, ok := x.X.(*ssa.Alloc); ok && decodedPointerVar(al) {
					for _, u := range *x.Referrers() {
						if b, isB := u.(*ssa.BinOp); isB && (b.Op == token.EQL || b.Op == token.NEQ) {
							continue
						}
						if _, isDbg := u.(*ssa.DebugRef); isDbg {
							continue
						}
						out = append(out, pob{"P6", fn, u, "use of pointer variable " + an.Path(x) + " that is a decode target (nil after decoding a nil)"})
					}
					return
				}
				if src := decodedPointerSource(x.X); src != "" {
					out = append(out, pob{"P6", fn, in, "dereference of " + an.Path(x.X) + " (" + src + ")"})
				}
			}
		}
	})
	return out
}

// decodedPointerVar: al is a local of pointer type whose address is handed to a decoder.
func decodedPointerVar(al *ssa.Alloc) bool {
	pt, ok := al.Type().Underlying().(*types.Pointer)
	if !ok {
		return false
	}
	if _, ok := pt.Elem().Underlying().(*types.Pointer); !ok {
		return false
	}
	for _, r := range *al.Referrers() {
		mi, ok := r.(*ssa.MakeInterface)
		if !ok {
			continue
		}
		for _, u := range *mi.Referrers() {
			cc := an.CallOf(u)
			if cc == nil {
				continue
			}
			name := ""
			if f := an.StaticCallee(cc); f != nil {
				name = f.Name()
			} else if cc.IsInvoke() {
				name = cc.Method.Name()
			}
			if strings.Contains(name, "ecode") || strings.Contains(name, "nmarshal") {
				return true
			}
		}
	}
	return false
}

// decodedPointerSource classifies a pointer value that was taken out of a
// container whose elements may be nil: an element of a []*T / [N]*T, a value
// of a map[K]*T, or a pointer-typed field of a struct that is itself decoded
// from the network. It returns "" for pointers that are parameters, fresh
// allocations, address-of expressions and the like.
func decodedPointerSource(v ssa.Value) string {
	if _, ok := v.Type().Underlying().(*types.Pointer); !ok {
		return ""
	}
	switch x := v.(type) {
	case *ssa.UnOp:
		if x.Op != token.MUL {
			return ""
		}
		switch a := x.X.(type) {
		case *ssa.IndexAddr:
			if nilableContainer(a.X) {
				return "element of " + an.Path(a.X)
			}
		case *ssa.FieldAddr:
			// pointer-typed field: only fields of wire structs can be nil by network input
			if t, f, ok := an.FieldOf(a); ok && wireStruct[t] {
				return "pointer field " + t + "." + f + " of a decoded message"
			}
		}
	case *ssa.Extract:
		switch t := x.Tuple.(type) {
		case *ssa.Lookup:
			if nilableContainer(t.X) {
				return "map value of " + an.Path(t.X)
			}
		case *ssa.Next:
			if r, ok := t.Iter.(*ssa.Range); ok && nilableContainer(r.X) {
				return "range element of " + an.Path(t.Iter)
			}
		}
	case *ssa.Lookup:
		if nilableContainer(x.X) {
			return "map value of " + an.Path(x.X)
		}
	case *ssa.Index:
		if nilableContainer(x.X) {
			return "element of " + an.Path(x.X)
		}
	case *ssa.Phi:
		for _, e := range x.Edges {
			if s := decodedPointerSource(e); s != "" {
				return s
			}
		}
	}
	return ""
}

// nilableContainer reports whether a container of pointers can hold nil
// elements for reasons a network peer controls or by construction: it is
// (reachable through fields from) a local decode target of a wire struct type,
// or it is one of the recent-event/recent-query rings, which are made with nil
// slots and indexed by a remote Lamport time. Containers of the node's own
// bookkeeping (members, failed/left lists, coalescer maps) only ever receive
// freshly allocated or already-dereferenced values and are not enumerated.
func nilableContainer(v ssa.Value) bool {
	for depth := 0; depth < 8; depth++ {
		switch x := v.(type) {
		case *ssa.UnOp:
			if x.Op != token.MUL {
				return false
			}
			v = x.X
		case *ssa.FieldAddr:
			if t, f, ok := an.FieldOf(x); ok {
				if t == "Serf" && (f == "eventBuffer" || f == "queryBuffer") {
					return true
				}
				if wireStruct[t] {
					return true
				}
			}
			v = x.X
		case *ssa.Field:
			v = x.X
		case *ssa.IndexAddr:
			v = x.X
		case *ssa.Alloc:
			t := x.Type().Underlying().(*types.Pointer).Elem()
			if n, ok := t.(*types.Named); ok && wireStruct[n.Obj().Name()] {
				return true
			}
			return false
		default:
			return false
		}
	}
	return false
}

// wireStruct lists struct types that are decode targets of network input.
var wireStruct = map[string]bool{"messagePushPull": true, "messageQuery": true, "messageQueryResponse": true, "messageUserEvent": true, "messageJoin": true, "messageLeave": true, "relayHeader": true, "nodeKeyResponse": true, "keyRequest": true, "filterTag": true, "userEvents": true}
