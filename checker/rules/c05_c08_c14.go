package rules

import (
	"go/types"
	"strconv"
	"strings"

	"serfcheck/an"

	"golang.org/x/tools/go/ssa"
)

func init() {
	register(&Rule{
		ID:      "C05",
		Explain: "Decides the structural premises of at-most-once user-event delivery for every delivery history: the application send in handleUserEvent is edge-dominated by the cut-off test, the retention-window test and 'no equal event in the slot'; it is unreachable from the duplicate-found edge; the mark (append to the slot) precedes it inside the eventLock write section; accepted times lie in [clock-len, clock-1] with the slot index LTime mod the same len (so retained marks are never overwritten by another retained time); every exit without delivery is behind one of those guards (so a first-seen in-window event at or above the cut-off is delivered); the cut-off is only raised. The uint64 arithmetic near 2^64 is not decided (see C19).",
		Run:     runC05,
		Mutants: []Mutant{
			{Name: "stale-duplicate-search", File: "serf/serf.go", Func: "func (s *Serf) handleUserEvent(", Old: "\t// Add to recent events\n", New: "\t// Add to recent events\n\ts.eventLock.Unlock()\n\ts.eventLock.Lock()\n", Expect: "R3|(*Serf).handleUserEvent:mark:search-in-same-section"},
			{Name: "window-double", File: "serf/serf.go", Func: "func (s *Serf) handleUserEvent(", Old: "eventMsg.LTime < curTime-LamportTime(len(s.eventBuffer))", New: "eventMsg.LTime < curTime-2*LamportTime(len(s.eventBuffer))", Expect: "W"},
			{Name: "dup-check-skipped", File: "serf/serf.go", Func: "func (s *Serf) handleUserEvent(", Old: "if previous.Equals(&userEvent) {", New: "if previous.Equals(&userEvent) && len(previous.Payload) > 0 {", Expect: "R2"},
			{Name: "send-before-mark", File: "serf/serf.go", Func: "func (s *Serf) handleUserEvent(", Old: "\t// Add to recent events\n\tseen.Events = append(seen.Events, userEvent)\n", New: "\tif s.config.EventCh != nil {\n\t\ts.config.EventCh <- UserEvent{LTime: eventMsg.LTime, Name: eventMsg.Name}\n\t}\n\tseen.Events = append(seen.Events, userEvent)\n", Expect: "R3"},
			{Name: "cutoff-lowered", File: "serf/delegate.go", Func: "func (d *delegate) MergeRemoteState(", Old: "\t\tif pp.EventLTime > d.serf.eventMinTime {\n\t\t\td.serf.eventMinTime = pp.EventLTime\n\t\t}\n", New: "\t\td.serf.eventMinTime = pp.EventLTime\n", Expect: "R6"},
			{Name: "no-cutoff", File: "serf/serf.go", Func: "func (s *Serf) handleUserEvent(", Old: "if eventMsg.LTime < s.eventMinTime {", New: "if eventMsg.LTime+1 < s.eventMinTime {", Expect: "R"},
			{Name: "equals-ignores-payload", File: "serf/serf.go", Func: "func (ue *userEvent) Equals(", Old: "return bytes.Equal(ue.Payload, other.Payload)", New: "return len(ue.Payload) == len(other.Payload)", Expect: "R2"},
			{Name: "slot-always-replaced", File: "serf/serf.go", Func: "func (s *Serf) handleUserEvent(", Old: "if seen != nil && seen.LTime == eventMsg.LTime {", New: "if seen != nil && seen.LTime == eventMsg.LTime && len(seen.Events) < 2 {", Expect: "slot-replaced"},
			{Name: "extra-drop", File: "serf/serf.go", Func: "func (s *Serf) handleUserEvent(", Old: "\t// Check if we've already seen this\n", New: "\tif len(eventMsg.Payload) > 4096 {\n\t\treturn false\n\t}\n", Expect: "R5"},
		},
	})
	register(&Rule{
		ID:      "C08",
		Explain: "Decides C08 structurally for every query: in handleQuery the application send and the ack are edge-dominated by shouldProcessQuery(filters)==true (the ack also by the ack flag), both come after the dedupe mark, and every result past the mark is !NoBroadcast() regardless of filters; shouldProcessQuery returns true only by loop exhaustion and each filter arm continues only on decode-success ∧ (name contained | regexp matched with nil error) with the tag value tags[filt.Tag] (missing ⇒ \"\"), every other arm incl. default returning false; the internal-query stage never forwards a *Query whose name has the internal prefix; Create wires the pipeline snapshotter → internal-query stage → coalescers. Regexp semantics are not decided; the empty-filter crash is C09's.",
		Run:     runC08,
		Mutants: []Mutant{
			{Name: "rename-locals", Equivalent: true, Regexp: true, File: "serf/query.go", Func: "func (s *Serf) shouldProcessQuery(", Old: `\b(filt|nodes|matched|tag)\b`, New: "${1}Renamed"},
			{Name: "deliver-before-filter", File: "serf/serf.go", Func: "func (s *Serf) handleQuery(", Old: "\t// Filter the query\n", New: "\tif s.config.EventCh != nil && query.Name == \"x\" {\n\t\ts.config.EventCh <- &Query{LTime: query.LTime, Name: query.Name}\n\t}\n", Expect: "R1"},
			{Name: "ack-without-flag", File: "serf/serf.go", Func: "func (s *Serf) handleQuery(", Old: "if query.Ack() {", New: "if query.Ack() || query.RelayFactor > 0 {", Expect: "R1"},
			{Name: "filtered-no-rebroadcast", File: "serf/serf.go", Func: "func (s *Serf) handleQuery(", Old: "\t\t// since it is the first time we've seen this.\n\t\treturn rebroadcast", New: "\t\t// since it is the first time we've seen this.\n\t\treturn false", Expect: "R1"},
			{Name: "undecodable-filter-passes", File: "serf/query.go", Func: "func (s *Serf) shouldProcessQuery(", Old: "\t\t\t\ts.logger.Printf(\"[WARN] serf: failed to decode filterTagType: %v\", err)\n\t\t\t\treturn false", New: "\t\t\t\ts.logger.Printf(\"[WARN] serf: failed to decode filterTagType: %v\", err)\n\t\t\t\tcontinue", Expect: "R2"},
			{Name: "unknown-filter-passes", File: "serf/query.go", Func: "func (s *Serf) shouldProcessQuery(", Old: "\t\t\ts.logger.Printf(\"[WARN] serf: query has unrecognized filter type: %d\", filter[0])\n\t\t\treturn false", New: "\t\t\ts.logger.Printf(\"[WARN] serf: query has unrecognized filter type: %d\", filter[0])", Expect: "R2"},
			{Name: "tag-filter-on-role", File: "serf/query.go", Func: "func (s *Serf) shouldProcessQuery(", Old: "regexp.MatchString(filt.Expr, tags[filt.Tag])", New: "regexp.MatchString(filt.Expr, tags[\"role\"])", Expect: "R2"},
			{Name: "internal-forwarded", File: "serf/internal_query.go", Func: "func (s *serfQueries) stream(", Old: "\t\t\t\tgo s.handleQuery(q)\n", New: "\t\t\t\tgo s.handleQuery(q)\n\t\t\t\tif s.outCh != nil && q.Name == internalQueryName(pingQuery) {\n\t\t\t\t\ts.outCh <- e\n\t\t\t\t}\n", Expect: "R3"},
			{Name: "same-time-forgets-ids", File: "serf/serf.go", Func: "func (s *Serf) handleQuery(", Old: "\tif seen != nil && seen.LTime == query.LTime {\n\t\tif slices.Contains(seen.QueryIDs, query.ID) {\n\t\t\t// Seen this ID already\n\t\t\treturn false\n\t\t}\n\t} else {", New: "\tif seen != nil && seen.LTime == query.LTime && slices.Contains(seen.QueryIDs, query.ID) {\n\t\treturn false\n\t} else {", Expect: "slot-replaced"},
			{Name: "queries-bypass-internal-stage", File: "serf/serf.go", Func: "func Create(", Old: "\tconf.EventCh = outCh\n", New: "\tif conf.SnapshotPath == \"\" {\n\t\tconf.EventCh = outCh\n\t}\n", Expect: "R4"},
		},
	})
	register(&Rule{
		ID:      "C14",
		Explain: "Decides C14's structural clauses: Create sets the event/query cut-offs to the matching snapshot clock + 1 and the handlers drop LTime < cut-off (the accepted (op,offset) pairs drop every t <= last); every send of a UserEvent or *Query on the application channel anywhere in the module is in handleUserEvent/handleQuery and edge-dominated by LTime >= cut-off (gossip, state sync and join replay all funnel there); cut-offs are only raised; the snapshotter records the time of every passing user event/query newer than the last recorded one and sits upstream of the application. Not covered: the <=500 ms unflushed tail at a crash.",
		Run:     runC14,
		Mutants: []Mutant{
			{Name: "replay-stops-at-leave", File: "serf/snapshot.go", Func: "func (s *Snapshotter) replay(", Old: "\t\t\ts.lastQueryClock = 0\n", New: "\t\t\ts.lastQueryClock = 0\n\t\t\tbreak\n", Expect: "R6"},
			{Name: "replay-applies-torn-line", File: "serf/snapshot.go", Func: "func (s *Snapshotter) replay(", Old: "\t\tif err != nil {\n\t\t\tbreak\n\t\t}\n", New: "\t\tif err != nil && line == \"\" {\n\t\t\tbreak\n\t\t}\n\t\tif err != nil {\n\t\t\tline += \"\\n\"\n\t\t}\n", Expect: "R6"},
			{Name: "clock-field-after-append", File: "serf/snapshot.go", Func: "func (s *Snapshotter) processQuery(", Old: "\ts.lastQueryClock = q.LTime\n", New: "", Old2: "\ts.tryAppend(fmt.Sprintf(\"query-clock: %d\\n\", q.LTime))\n", New2: "\ts.tryAppend(fmt.Sprintf(\"query-clock: %d\\n\", q.LTime))\n\ts.lastQueryClock = q.LTime\n", Expect: "R5"},
			{Name: "cutoff-no-plus-one", File: "serf/serf.go", Func: "func Create(", Old: "serf.eventMinTime = oldEventClock + 1", New: "serf.eventMinTime = oldEventClock", Expect: "R1"},
			{Name: "cutoff-swapped-clocks", File: "serf/serf.go", Func: "func Create(", Old: "serf.queryMinTime = oldQueryClock + 1", New: "serf.queryMinTime = oldClock + 1", Expect: "R1"},
			{Name: "cutoff-unconditional-assign", File: "serf/delegate.go", Func: "func (d *delegate) MergeRemoteState(", Old: "\t\tif pp.EventLTime > d.serf.eventMinTime {\n\t\t\td.serf.eventMinTime = pp.EventLTime\n\t\t}\n", New: "\t\td.serf.eventMinTime = pp.EventLTime\n", Expect: "R3"},
			{Name: "replay-bypasses-handler", File: "serf/delegate.go", Func: "func (d *delegate) MergeRemoteState(", Old: "\t\t\td.serf.handleUserEvent(&userEvent)\n", New: "\t\t\tif d.serf.config.EventCh != nil && isJoin {\n\t\t\t\td.serf.config.EventCh <- UserEvent{LTime: userEvent.LTime, Name: userEvent.Name, Payload: userEvent.Payload}\n\t\t\t} else {\n\t\t\t\td.serf.handleUserEvent(&userEvent)\n\t\t\t}\n", Expect: "R2"},
			{Name: "snapshot-skips-equal-or-newer", File: "serf/snapshot.go", Func: "func (s *Snapshotter) processQuery(", Old: "if q.LTime <= s.lastQueryClock {", New: "if q.LTime <= s.lastQueryClock+1 {", Expect: "R4"},
			{Name: "snapshot-records-wrong-clock", File: "serf/snapshot.go", Func: "func (s *Snapshotter) processUserEvent(", Old: "\ts.lastEventClock = e.LTime\n", New: "\ts.lastQueryClock = e.LTime\n", Expect: "R4"},
			{Name: "query-cutoff-strict", File: "serf/serf.go", Func: "func (s *Serf) handleQuery(", Old: "if query.LTime < s.queryMinTime {", New: "if query.LTime+1 < s.queryMinTime {", Expect: "R"},
		},
	})
}

// handler vocabulary for handleUserEvent / handleQuery
type msgHandler struct {
	fn         *ssa.Function
	clock, buf string
	minTime    string
	list       string // slot list field
	elem       string // what is appended (path fragment from the message)
	sentType   string // type name sent to the application
	dupFact    func(an.Cmp) bool
}

func userEventHandler(c *an.Ctx, rule string) *msgHandler {
	fn := sm(c, rule, "Serf", "handleUserEvent")
	if fn == nil {
		return nil
	}
	// the duplicate search is either a loop calling Equals on each entry, or slices.ContainsFunc over the
	// slot's entries with a closure that returns that Equals
	viaContains := map[string]bool{}
	an.Instrs(fn, func(in ssa.Instruction) {
		call, ok := in.(*ssa.Call)
		if !ok || len(call.Call.Args) != 2 {
			return
		}
		callee := an.StaticCallee(&call.Call)
		if callee == nil || !strings.HasPrefix(an.CalleeName(callee), "slices.ContainsFunc") {
			return
		}
		mc, ok := call.Call.Args[1].(*ssa.MakeClosure)
		if !ok || !strings.HasSuffix(an.Path(call.Call.Args[0]), ".Events") {
			return
		}
		cf, _ := mc.Fn.(*ssa.Function)
		if cf == nil {
			return
		}
		all := len(an.Returns(cf)) > 0
		for _, r := range an.Returns(cf) {
			if v := an.ResultValues(r); len(v) != 1 || !strings.HasPrefix(an.Path(v[0]), "(*userEvent).Equals(") {
				all = false
			}
		}
		if all {
			viaContains[an.Path(call)] = true
		}
	})
	return &msgHandler{fn: fn, clock: "eventClock", buf: "eventBuffer", minTime: "eventMinTime", list: "Events", elem: "$1.Name", sentType: "UserEvent",
		dupFact: func(f an.Cmp) bool {
			return (strings.HasPrefix(f.L, "(*userEvent).Equals(") || viaContains[f.L]) && f.Op == "==" && f.R == "c:true"
		}}
}

func queryHandler(c *an.Ctx, rule string) *msgHandler {
	fn := sm(c, rule, "Serf", "handleQuery")
	if fn == nil {
		return nil
	}
	return &msgHandler{fn: fn, clock: "queryClock", buf: "queryBuffer", minTime: "queryMinTime", list: "QueryIDs", elem: "$1.ID", sentType: "Query",
		dupFact: func(f an.Cmp) bool {
			if strings.HasPrefix(f.L, "slices.Contains") && strings.HasSuffix(f.L, ".QueryIDs,$1.ID)") && f.Op == "==" && f.R == "c:true" {
				return true
			}
			// or a hand-written scan comparing each recorded id with the query's
			return strings.Contains(f.L, ".QueryIDs[") && strings.HasSuffix(f.L, "]") && f.Op == "==" && f.R == "$1.ID"
		}}
}

// appSends returns the sends on config.EventCh in fn.
func appSends(fn *ssa.Function) []ssa.Instruction {
	return an.FindInstrs(fn, func(in ssa.Instruction) bool {
		s, ok := in.(*ssa.Send)
		return ok && strings.HasSuffix(an.Path(s.Chan), "config.EventCh")
	})
}

func (h *msgHandler) markPred() func(ssa.Instruction) bool {
	return func(in ssa.Instruction) bool {
		s, ok := in.(*ssa.Store)
		if !ok || !strings.HasSuffix(an.Path(s.Addr), "."+h.list) {
			return false
		}
		call, ok := s.Val.(*ssa.Call)
		if !ok {
			return false
		}
		if b, ok := call.Call.Value.(*ssa.Builtin); !ok || b.Name() != "append" {
			return false
		}
		if an.Path(call.Call.Args[0]) != strings.TrimPrefix(an.Path(s.Addr), "&") {
			return false
		}
		return appendedElemMentions(call, h.elem)
	}
}

// deliveryRules are the at-most-once rules common to user events and queries.
func deliveryRules(c *an.Ctx, h *msgHandler, locks *an.Locks, lock string) {
	fn := h.fn
	hn := an.FuncName(fn)
	sends := appSends(fn)
	c.Floor("R2", "application sends in "+hn, len(sends), 1)
	cutoff := an.Cmp{L: ihLTime, Op: ">=", R: "$0." + h.minTime}
	dupEdges := an.EdgesWhere(fn, h.dupFact)
	c.Floor("R2", "duplicate-found edges in "+hn, len(dupEdges), 1)
	mark := h.markPred()
	for _, s := range sends {
		c.Add(an.GuardedBy(fn, s, cutoff), "R2", hn+":send:cutoff", s, "delivery is dominated by LTime >= "+h.minTime, "edge dominance")
		// not reachable from a duplicate-found edge
		for _, e := range dupEdges {
			to := e.To()
			reach := len(to.Instrs) > 0 && (to.Instrs[0] == s || an.ReachFrom(fn, to.Instrs[0], nil, func(in ssa.Instruction) bool { return in == s }) != nil)
			c.Add(!reach, "R2", hn+":send:not-after-duplicate", s, "delivery is unreachable once an equal entry was found in the slot", "reachability from the duplicate-found edge")
		}
		// mark precedes
		pre := an.ReachFrom(fn, nil, &an.Cut{Instrs: mark}, func(in ssa.Instruction) bool { return in == s })
		c.Add(pre == nil, "R3", hn+":send:mark-first", s, "delivery happens only after the entry was appended to the slot's "+h.list, "must-pass")
		c.Add(locks.Held(s).HasW(lock), "R3", hn+":send:locked", s, "delivery happens inside the "+lock+" write section", "must-held lockset")
		// sent value carries the message's identity
		snd := s.(*ssa.Send)
		okT := false
		t := snd.X.Type()
		if p, ok := t.(*types.Pointer); ok {
			t = p.Elem()
		}
		if mi, ok := snd.X.(*ssa.MakeInterface); ok {
			t = mi.X.Type()
			if p, ok := t.(*types.Pointer); ok {
				t = p.Elem()
			}
		}
		if n, ok := t.(*types.Named); ok && n.Obj().Name() == h.sentType {
			okT = true
		}
		c.Add(okT, "R2", hn+":send:type", s, "the value delivered is a "+h.sentType, "type of the sent value")
	}
	for _, m := range an.FindInstrs(fn, mark) {
		c.Add(locks.Held(m).HasW(lock), "R3", hn+":mark:locked", m, "the mark is written inside the "+lock+" write section", "must-held lockset")
		// check-then-act: the duplicate search that lets this mark happen runs in the mark's own
		// critical section (two deliveries of one message racing through a stale search would both mark and deliver)
		for _, e := range dupEdges {
			test := e.From.Instrs[len(e.From.Instrs)-1]
			c.Add(locks.Held(test).HasW(lock) && !releaseBetween(fn, test, m, lock), "R3", hn+":mark:search-in-same-section", m, "the duplicate search and the append of the entry happen in one "+lock+" write section", "must-held lockset + no release between search and append")
		}
		// mark itself not reachable from duplicate edge
		for _, e := range dupEdges {
			to := e.To()
			reach := len(to.Instrs) > 0 && an.ReachFrom(fn, to.Instrs[0], nil, func(in ssa.Instruction) bool { return in == m }) != nil
			c.Add(!reach, "R2", hn+":mark:not-after-duplicate", m, "an entry found equal is not appended again", "reachability")
		}
	}
	// the duplicate test inspects the slot selected by the message time, and only when the slot's time equals the message time
	slot := "$0." + h.buf + "[(" + ihLTime + "%len($0." + h.buf + "))]"
	for _, e := range dupEdges {
		i := e.From.Instrs[len(e.From.Instrs)-1]
		sameT := an.Cmp{L: slot + ".LTime", Op: "==", R: ihLTime}
		c.Add(an.GuardedBy(fn, i, sameT) && an.GuardedBy(fn, i, an.Cmp{L: slot, Op: "!=", R: "c:nil"}), "R2", hn+":dup-test-on-matching-slot", i, "the duplicate search runs on the slot whose recorded time equals the message time", "edge dominance")
	}
	// R5 completeness: with the drop edges cut and the send as a stop, no return is reachable
	var cut []an.Edge
	cur := "(*LamportClock).Time(&$0." + h.clock + ")"
	blen := "len($0." + h.buf + ")"
	cut = append(cut, an.EdgesImplying(fn, an.Cmp{L: ihLTime, Op: "<", R: "$0." + h.minTime})...)
	cut = append(cut, an.EdgesImplying(fn, an.Cmp{L: ihLTime, Op: "<", R: "(" + cur + "-" + blen + ")"})...)
	cut = append(cut, dupEdges...)
	cut = append(cut, an.EdgesImplying(fn, an.Cmp{L: "$0.config.EventCh", Op: "==", R: "c:nil"})...)
	if h.sentType == "Query" {
		cut = append(cut, an.EdgesImplying(fn, an.Cmp{L: "(*Serf).shouldProcessQuery($0,$1.Filters)", Op: "==", R: "c:false"})...)
	}
	isSend := func(in ssa.Instruction) bool {
		for _, s := range sends {
			if s == in {
				return true
			}
		}
		return false
	}
	esc := an.ReachFrom(fn, nil, &an.Cut{Edges: cut, Instrs: isSend}, func(in ssa.Instruction) bool {
		return an.IsExit(in) && in.Block().Comment != "recover"
	})
	c.Add(esc == nil, "R5", hn+":delivered-unless-guarded", fn, "every exit without delivery is behind the cut-off, the too-old test, a duplicate hit"+map[bool]string{true: ", a filter miss", false: ""}[h.sentType == "Query"]+" or a nil application channel", "reach/cut: with those edges removed every path to a return passes the send")
	if esc != nil {
		c.Obs[len(c.Obs)-1].Pos = c.P.InstrPos(esc)
	}
}

func runC05(c *an.Ctx) {
	c.Rule("R2 the application send is dominated by LTime >= eventMinTime and by the window test, and is unreachable from the duplicate-found edge; Equals compares name and payload")
	c.Rule("R3 mark (append to slot.Events) precedes the send; both inside the eventLock write section")
	c.Rule("W/R4 window length = slot modulus = len(eventBuffer); witness precedes the window test; slot record replaced only when stale")
	c.Rule("R5 every exit without a send is behind one of: cut-off, too old, duplicate, nil channel")
	c.Rule("R6 eventMinTime writers: Create (init) and MergeRemoteState under eventLock, guarded by new > old, not reachable from the replay loop")
	locks := an.NewLocks(c.P)
	h := userEventHandler(c, "R2")
	if h == nil {
		return
	}
	deliveryRules(c, h, locks, "Serf.eventLock")
	windowRule(c, "W", h.fn, h.clock, h.buf, h.minTime)
	dupRule(c, h.fn, h.buf, h.list)
	// Equals
	if eq := sm(c, "R2", "userEvent", "Equals"); eq != nil {
		for _, r := range an.Returns(eq) {
			v := an.ResultValues(r)
			if len(v) != 1 || an.IsConstBool(v[0], false) {
				continue
			}
			p := an.Path(v[0])
			ok := (p == "bytes.Equal($0.Payload,$1.Payload)" || p == "bytes.Equal($1.Payload,$0.Payload)") && an.GuardedBy(eq, r, an.Cmp{L: "$0.Name", Op: "==", R: "$1.Name"})
			c.Add(ok, "R2", "userEvent.Equals:name-and-payload", r, "two buffered events are equal only if names are equal and payload bytes are equal (result "+p+")", "result path + edge dominance")
		}
	}
	// the compared candidate is built from the message
	// R6
	minTimeWriters(c, "R6", locks)
}

// minTimeWriters checks who writes Serf.eventMinTime / queryMinTime.
func minTimeWriters(c *an.Ctx, rule string, locks *an.Locks) {
	acc := an.FieldAccesses(c.P.Funcs, "Serf", "eventMinTime")
	c.Floor(rule, "writers of Serf.eventMinTime", len(acc), 2)
	for _, a := range acc {
		fn := an.FuncName(a.Fn)
		switch {
		case fn == "Create" && a.Init:
			c.Add(true, rule, "eventMinTime-writer:Create", a.Instr, "initialised by Create on the Serf it allocates", "init store")
		case fn == "(*delegate).MergeRemoteState":
			nv := an.Path(a.Val)
			g := an.GuardedBy(a.Fn, a.Instr, an.Cmp{L: nv, Op: ">", R: "$0.serf.eventMinTime"})
			c.Add(g, rule, "eventMinTime-writer:MergeRemoteState:raise-only", a.Instr, "the join-ignore branch only raises the cut-off (store of "+nv+" guarded by "+nv+" > eventMinTime)", "edge dominance")
			c.Add(locks.Held(a.Instr).HasW("Serf.eventLock"), rule, "eventMinTime-writer:MergeRemoteState:locked", a.Instr, "written under the eventLock write section", "must-held lockset")
			c.Add(strings.HasSuffix(nv, ".EventLTime"), rule, "eventMinTime-writer:MergeRemoteState:value", a.Instr, "the new cut-off is the peer's event clock", "value path")
			// not reachable from the replay loop
			back := false
			for _, call := range an.CallsTo(a.Fn, "(*Serf).handleUserEvent") {
				if an.Reaches(a.Fn, call, a.Instr) {
					back = true
				}
			}
			c.Add(!back, rule, "eventMinTime-writer:MergeRemoteState:before-replay", a.Instr, "the cut-off is fixed before the replay loop starts", "reachability")
		default:
			c.Add(false, rule, "eventMinTime-writer:"+fn, a.Instr, "unexpected writer of Serf.eventMinTime", "")
		}
	}
	qacc := an.FieldAccesses(c.P.Funcs, "Serf", "queryMinTime")
	c.Floor(rule, "writers of Serf.queryMinTime", len(qacc), 1)
	for _, a := range qacc {
		fn := an.FuncName(a.Fn)
		c.Add(fn == "Create" && a.Init, rule, "queryMinTime-writer:"+fn, a.Instr, "Serf.queryMinTime is written only by Create's initialisation", "who-may-write")
	}
}

// ---------------------------------------------------------------------------

func runC08(c *an.Ctx) {
	c.Rule("R1 handleQuery: application send and ack guarded by shouldProcessQuery==true (ack also by the ack flag); both after the dedupe mark; every result past the mark is !NoBroadcast()")
	c.Rule("R2 shouldProcessQuery: true only from loop exhaustion; each arm continues only on decode ok ∧ (contained | matched ∧ err nil); tag value tags[filt.Tag]; default false")
	c.Rule("R3 the internal-query stage forwards only events that are not *Query with the internal prefix")
	c.Rule("R4 Create wires snapshotter → internal-query stage → coalescers on every successful path")
	locks := an.NewLocks(c.P)
	h := queryHandler(c, "R1")
	if h == nil {
		return
	}
	fn := h.fn
	hn := an.FuncName(fn)
	deliveryRules(c, h, locks, "Serf.queryLock")
	windowRule(c, "W", fn, h.clock, h.buf, h.minTime)
	dupRule(c, fn, h.buf, h.list)
	pass := an.Cmp{L: "(*Serf).shouldProcessQuery($0,$1.Filters)", Op: "==", R: "c:true"}
	ackFlag := an.Cmp{L: "(*messageQuery).Ack($1)", Op: "==", R: "c:true"}
	mark := h.markPred()
	for _, s := range appSends(fn) {
		c.Add(an.GuardedBy(fn, s, pass), "R1", hn+":deliver:filter", s, "delivery requires shouldProcessQuery(query.Filters) == true", "edge dominance")
	}
	acks := an.CallsTo(fn, "memberlist.(*Memberlist).SendToAddress", "(*Serf).relayResponse")
	c.Floor("R1", "ack send sites in handleQuery", len(acks), 2)
	for _, a := range acks {
		c.Add(an.GuardedBy(fn, a, pass), "R1", hn+":ack:filter:"+kindOf(a), a, "ack requires shouldProcessQuery == true", "edge dominance")
		c.Add(an.GuardedBy(fn, a, ackFlag), "R1", hn+":ack:flag:"+kindOf(a), a, "ack only when the query asks for it", "edge dominance")
		pre := an.ReachFrom(fn, nil, &an.Cut{Instrs: mark}, func(in ssa.Instruction) bool { return in == a })
		c.Add(pre == nil, "R1", hn+":ack:mark-first:"+kindOf(a), a, "ack only after the query id was recorded (at most once)", "must-pass")
	}
	// results past the mark
	marks := an.FindInstrs(fn, mark)
	c.Floor("R1", "dedupe marks in handleQuery", len(marks), 1)
	for _, m := range marks {
		bad := an.ReachFrom(fn, m, nil, func(in ssa.Instruction) bool {
			r, ok := in.(*ssa.Return)
			if !ok || r.Block().Comment == "recover" {
				return false
			}
			v := an.ResultValues(r)
			return len(v) != 1 || an.Path(v[0]) != "!(*messageQuery).NoBroadcast($1)"
		})
		c.Add(bad == nil, "R1", hn+":first-sighting-rebroadcasts", m, "every result after the first sighting is !NoBroadcast(), whatever the filters say", "reachability from the mark")
	}
	// NoBroadcast / Ack test the right flag bits
	for name, flag := range map[string]string{"Ack": "queryFlagAck", "NoBroadcast": "queryFlagNoBroadcast"} {
		if m := sm(c, "R1", "messageQuery", name); m != nil {
			fv := cv(c, serf, flag)
			ok := false
			for _, r := range an.Returns(m) {
				p := an.Path(an.ResultValues(r)[0])
				if p == "(($0.Flags&"+fv+")!=c:0)" {
					ok = true
				}
			}
			c.Add(ok, "R1", "messageQuery."+name+":flag-bit", m, name+"() tests "+flag, "result path")
		}
	}

	// ---- R2
	if sp := sm(c, "R2", "Serf", "shouldProcessQuery"); sp != nil {
		sn := an.FuncName(sp)
		// loop header: the block with the range index phi
		var header *ssa.BasicBlock
		for _, b := range sp.Blocks {
			if b.Comment == "rangeindex.loop" {
				header = b
			}
		}
		if header == nil {
			c.Anchor("R2", "range loop over filters in shouldProcessQuery")
		} else {
			exhausted := an.EdgesWhere(sp, func(f an.Cmp) bool {
				return strings.HasPrefix(f.L, "(phi:rangeindex@") && f.Op == ">=" && f.R == "len($1)"
			})
			for _, r := range an.Returns(sp) {
				v := an.ResultValues(r)
				if len(v) == 1 && !an.IsConstBool(v[0], false) {
					c.Add(an.IsConstBool(v[0], true) && an.Guarded(sp, r, exhausted), "R2", sn+":true-only-on-exhaustion", r, "true is returned only when every filter was examined", "edge dominance by the loop-exit edge")
				}
			}
			// continue edges: body → header. With the accept edges cut, the header is unreachable from the body
			nodeT, tagT := cv(c, serf, "filterNodeType"), cv(c, serf, "filterTagType")
			typ := func(t string) an.Cmp {
				return an.Cmp{L: "$1[(phi:rangeindex@" + itoa(header.Index) + "+c:1)][c:0]", Op: "==", R: t}
			}
			contains := an.EdgesWhere(sp, func(f an.Cmp) bool {
				return strings.HasPrefix(f.L, "slices.Contains") && strings.HasSuffix(f.L, ",$0.config.NodeName)") && f.Op == "==" && f.R == "c:true"
			})
			matched := an.EdgesWhere(sp, func(f an.Cmp) bool {
				return strings.HasPrefix(f.L, "regexp.MatchString(") && strings.HasSuffix(f.L, "#0") && f.Op == "==" && f.R == "c:true"
			})
			c.Floor("R2", "accept edges (contained, matched)", len(contains)+len(matched), 2)
			var body *ssa.BasicBlock
			for _, s := range header.Succs {
				if s.Comment == "rangeindex.body" {
					body = s
				}
			}
			if body != nil && len(body.Instrs) > 0 {
				back := an.ReachFrom(sp, body.Instrs[0], &an.Cut{Edges: append(append([]an.Edge{}, contains...), matched...)}, func(in ssa.Instruction) bool {
					return in.Block() == header
				})
				ok := back == nil
				if len(body.Instrs) > 0 && body.Instrs[0].Block() == header {
					ok = false
				}
				c.Add(ok, "R2", sn+":continue-only-on-accept", sp, "the loop continues to the next filter only through 'name contained' or 'pattern matched'", "reach/cut from the loop body to the loop header")
			}
			for _, e := range contains {
				i := e.From.Instrs[len(e.From.Instrs)-1]
				c.Add(an.Guarded(sp, i, an.EdgesImplying(sp, typ(nodeT))), "R2", sn+":node-arm:type", i, "the name test runs in the node-filter arm", "edge dominance")
				ok := an.Guarded(sp, i, an.EdgesWhere(sp, func(f an.Cmp) bool {
					return strings.HasPrefix(f.L, "decodeMessage(") && strings.HasSuffix(f.L, ",&local:filterNode)") && f.Op == "==" && f.R == "c:nil"
				}))
				c.Add(ok, "R2", sn+":node-arm:decoded", i, "the name test runs only after the node list decoded without error", "edge dominance")
			}
			for _, e := range matched {
				i := e.From.Instrs[len(e.From.Instrs)-1]
				c.Add(an.Guarded(sp, i, an.EdgesImplying(sp, typ(tagT))), "R2", sn+":tag-arm:type", i, "the pattern test runs in the tag-filter arm", "edge dominance")
				okD := an.Guarded(sp, i, an.EdgesWhere(sp, func(f an.Cmp) bool {
					return strings.HasPrefix(f.L, "decodeMessage(") && strings.HasSuffix(f.L, ",&local:filterTag)") && f.Op == "==" && f.R == "c:nil"
				}))
				// through a predicate helper the facts of every way it returns true sit on the accepting edge itself
				onEdge := func(pred func(an.Cmp) bool) bool {
					for _, f := range an.EdgeFacts(sp)[e] {
						if pred(f) {
							return true
						}
					}
					return false
				}
				okD = okD || onEdge(func(f an.Cmp) bool {
					return strings.HasPrefix(f.L, "decodeMessage(") && strings.HasSuffix(f.L, ",&local:filterTag)") && f.Op == "==" && f.R == "c:nil"
				})
				c.Add(okD, "R2", sn+":tag-arm:decoded", i, "the pattern test runs only after the tag filter decoded without error", "edge dominance")
				okE := an.Guarded(sp, i, an.EdgesWhere(sp, func(f an.Cmp) bool {
					return strings.HasPrefix(f.L, "regexp.MatchString(") && strings.HasSuffix(f.L, "#1") && f.Op == "==" && f.R == "c:nil"
				}))
				okE = okE || onEdge(func(f an.Cmp) bool {
					return strings.HasPrefix(f.L, "regexp.MatchString(") && strings.HasSuffix(f.L, "#1") && f.Op == "==" && f.R == "c:nil"
				})
				c.Add(okE, "R2", sn+":tag-arm:compiled", i, "a match counts only when the pattern compiled (error nil)", "edge dominance")
			}
			for _, call := range an.CallsTo(sp, "regexp.MatchString") {
				a := an.CallOf(call).Args
				c.Add(an.Path(a[0]) == "local:filterTag.Expr" && an.Path(a[1]) == "$0.config.Tags[local:filterTag.Tag]", "R2", sn+":tag-arm:operands", call, "the pattern is matched against tags[filter.Tag] (missing tag ⇒ empty string); got ("+an.Path(a[0])+", "+an.Path(a[1])+")", "access paths")
			}
			c.Floor("R2", "regexp.MatchString calls", len(an.CallsTo(sp, "regexp.MatchString")), 1)
		}
	}

	// ---- R3
	if st := sm(c, "R3", "serfQueries", "stream"); st != nil {
		outs := an.FindInstrs(st, func(in ssa.Instruction) bool {
			s, ok := in.(*ssa.Send)
			return ok && strings.HasSuffix(an.Path(s.Chan), ".outCh")
		})
		c.Floor("R3", "forward sites in the internal-query stage", len(outs), 1)
		notQ := an.EdgesWhere(st, func(f an.Cmp) bool {
			return strings.HasSuffix(f.L, ".(*serf.Query)#1") && f.Op == "==" && f.R == "c:false"
		})
		notP := an.EdgesWhere(st, func(f an.Cmp) bool {
			return strings.HasPrefix(f.L, "strings.HasPrefix(") && strings.HasSuffix(f.L, ".Name,c:\"_serf_\")") && f.Op == "==" && f.R == "c:false"
		})
		c.Floor("R3", "not-internal edges", len(notQ)+len(notP), 2)
		for _, o := range outs {
			c.Add(an.Guarded(st, o, append(append([]an.Edge{}, notQ...), notP...)), "R3", "serfQueries.stream:forward-not-internal", o, "an event is forwarded to the application only if it is not a *Query whose name has the internal prefix", "edge dominance over {not a *Query, no internal prefix}")
			// forwarded value is the received one
			snd := o.(*ssa.Send)
			c.Add(strings.HasPrefix(an.Path(snd.X), "select@"), "R3", "serfQueries.stream:forward-received", o, "the forwarded value is the event just received ("+an.Path(snd.X)+")", "value path")
		}
		pfx := cv(c, serf, "InternalQueryPrefix")
		c.Add(pfx == `c:"_serf_"`, "R3", "InternalQueryPrefix", st, "internal prefix constant is "+pfx, "constant")
	}

	// ---- R4
	wiringRule(c, "R4")
}

func itoa(i int) string { return strconv.Itoa(i) }

// wiringRule: def-use chain of conf.EventCh in Create.
func wiringRule(c *an.Ctx, rule string) {
	cr := sf(c, rule, "Create")
	if cr == nil {
		return
	}
	nsq := an.CallsTo(cr, "newSerfQueries")
	nsn := an.CallsTo(cr, "NewSnapshotter")
	coal := an.CallsTo(cr, "coalescedEventCh")
	if len(nsq) != 1 || len(nsn) != 1 || len(coal) != 2 {
		c.Anchor(rule, "Create: one newSerfQueries, one NewSnapshotter, two coalescedEventCh calls")
		return
	}
	// each stage receives the current conf.EventCh as its downstream and its input channel is stored back
	chk := func(call ssa.Instruction, argIdx int, res string, what string) {
		a := an.Path(an.CallOf(call).Args[argIdx])
		c.Add(a == "$0.EventCh", rule, "Create:"+what+":downstream", call, what+" forwards to the current application channel (arg "+a+")", "access path")
		stored := false
		var st ssa.Instruction
		for _, s := range an.StoresTo(cr, ".EventCh") {
			if an.Path(s.Addr) == "&$0.EventCh" && an.Path(s.Val) == an.Path(call.(ssa.Value))+res {
				stored = true
				st = s
			}
		}
		c.Add(stored, rule, "Create:"+what+":installed", call, "the channel returned by "+what+" becomes the channel Serf sends on", "store to conf.EventCh")
		if stored && what == "newSerfQueries" {
			// unconditional on every successful path
			okMP := true
			for _, r := range an.Returns(cr) {
				v := an.ResultValues(r)
				if len(v) == 2 && !an.IsNilConst(v[0]) {
					reach := an.ReachFrom(cr, nil, &an.Cut{Instrs: func(in ssa.Instruction) bool { return in == st }}, func(in ssa.Instruction) bool { return in == ssa.Instruction(r) })
					if reach != nil {
						okMP = false
					}
				}
			}
			c.Add(okMP, rule, "Create:newSerfQueries:unconditional", st, "every successful Create installs the internal-query stage", "must-pass")
		}
	}
	chk(nsq[0], 2, "#0", "newSerfQueries")
	chk(nsn[0], 5, "#0", "NewSnapshotter")
	for _, k := range coal {
		chk(k, 0, "", "coalescedEventCh")
	}
	c.Add(an.Dominates(nsq[0], nsn[0]) || !an.Reaches(cr, nsn[0], nsq[0]), rule, "Create:order:snapshotter-upstream", nsn[0], "the snapshotter is created after (hence upstream of) the internal-query stage", "ordering")
	for _, k := range coal {
		c.Add(!an.Reaches(cr, nsq[0], k), rule, "Create:order:coalescer-downstream", k, "coalescers are created before (hence downstream of) the internal-query stage", "ordering")
	}
	// memberlist (which starts delivering) is created after the wiring
	for _, mk := range an.CallsTo(cr, "memberlist.Create") {
		c.Add(!an.Reaches(cr, mk, nsq[0]) && !an.Reaches(cr, mk, nsn[0]), rule, "Create:wiring-before-memberlist", mk, "the pipeline is wired before memberlist starts", "ordering")
	}
}

// ---------------------------------------------------------------------------

func runC14(c *an.Ctx) {
	// R5: the recorded clock must survive a compaction triggered by its own append (shared with C10.R3):
	// otherwise a restart restores an older clock and the newest event/query is accepted again
	c.Rule("R5 (shared with C10) each clock recorder updates its in-memory field before it appends the line, and compaction serialises that field")
	sub10 := an.NewCtx(c.P, "C10", c.Tier)
	runC10(sub10)
	n5 := 0
	for _, o := range sub10.Obs {
		if (o.Rule == "R3" && strings.Contains(o.Key, "clock")) || (o.Rule == "R2" && strings.Contains(o.Key, "compact:covers:") && strings.Contains(o.Key, "Clock")) {
			o.Key = "R5|C10:" + o.Key
			o.Rule = "R5"
			c.Obs = append(c.Obs, o)
			n5++
		}
	}
	c.Floor("R5", "clock state-before-append and compaction-coverage obligations", n5, 4)
	// R6: the clock restored at start is one the snapshot really recorded: a record torn by a crash is not
	// applied (shared with C11.R3) — a shorter prefix of a clock line parses as a much older clock
	c.Rule("R6 (shared with C11) replay changes state only for lines that were read completely")
	sub11 := an.NewCtx(c.P, "C11", c.Tier)
	runC11(sub11)
	n6 := 0
	for _, o := range sub11.Obs {
		if o.Rule == "R3" {
			o.Key = "R6|C11:" + o.Key
			o.Rule = "R6"
			c.Obs = append(c.Obs, o)
			n6++
		}
	}
	c.Floor("R6", "replay complete-lines obligations", n6, 5)
	c.Rule("R1 Create: eventMinTime = snap.LastEventClock()+c, queryMinTime = snap.LastQueryClock()+c with (drop operator, c) ∈ {(<,1), (<=,0)}")
	c.Rule("R2 every send of a UserEvent/*Query on config.EventCh module-wide is in handleUserEvent/handleQuery and dominated by LTime >= min-time")
	c.Rule("R3 min-times are only raised (eventMinTime: guarded new > old; queryMinTime: single writer Create)")
	c.Rule("R4 the snapshotter records the time of each passing user event/query newer than the last recorded, under the matching line kind, and sits upstream of the application")
	locks := an.NewLocks(c.P)
	cr := sf(c, "R1", "Create")
	ue := userEventHandler(c, "R2")
	qh := queryHandler(c, "R2")
	if cr != nil {
		for _, k := range []struct{ field, getter string }{{"eventMinTime", "LastEventClock"}, {"queryMinTime", "LastQueryClock"}} {
			found := false
			for _, st := range an.StoresTo(cr, "."+k.field) {
				p := an.Path(st.Val)
				want := "((*Snapshotter)." + k.getter + "(NewSnapshotter("
				ok := strings.HasPrefix(p, want) && strings.HasSuffix(p, "#1)+c:1)")
				c.Add(ok, "R1", "Create:"+k.field, st, k.field+" is the matching snapshot clock + 1 (got "+p+")", "value path")
				found = true
			}
			c.Add(found, "R1", "Create:"+k.field+":present", cr, k.field+" is initialised from the snapshot", "store enumeration")
		}
	}
	// R2 who-may-send
	n := 0
	for _, fn := range c.P.Funcs {
		if an.PkgPathOf(fn) != serf {
			continue
		}
		for _, s := range appSends(fn) {
			snd := s.(*ssa.Send)
			t := snd.X.Type()
			if mi, ok := snd.X.(*ssa.MakeInterface); ok {
				t = mi.X.Type()
			}
			if p, ok := t.(*types.Pointer); ok {
				t = p.Elem()
			}
			name := ""
			if nt, ok := t.(*types.Named); ok {
				name = nt.Obj().Name()
			}
			if name != "UserEvent" && name != "Query" {
				continue
			}
			n++
			var h *msgHandler
			if name == "UserEvent" && ue != nil && fn == ue.fn {
				h = ue
			}
			if name == "Query" && qh != nil && fn == qh.fn {
				h = qh
			}
			if h == nil {
				c.Add(false, "R2", "app-send:"+an.FuncName(fn)+":"+name, s, "a "+name+" is handed to the application outside its handler (bypasses the restart cut-off)", "")
				continue
			}
			c.Add(an.GuardedBy(fn, s, an.Cmp{L: ihLTime, Op: ">=", R: "$0." + h.minTime}), "R2", "app-send:"+an.FuncName(fn)+":cutoff", s, "delivery of a "+name+" is dominated by LTime >= "+h.minTime, "edge dominance")
			// the delivered LTime is the checked one
			okL := false
			for _, st := range an.StoresTo(fn, ".LTime") {
				if t2, _, _ := an.FieldOf(st.Addr); t2 == name && an.Path(st.Val) == ihLTime {
					okL = true
				}
			}
			c.Add(okL, "R2", "app-send:"+an.FuncName(fn)+":ltime", s, "the delivered "+name+" carries the checked Lamport time", "field provenance")
		}
	}
	c.Floor("R2", "sends of UserEvent/*Query to the application in package serf", n, 2)
	// R3
	minTimeWriters(c, "R3", locks)
	// R4 snapshotter
	for _, k := range []struct{ fn, last, line, typ string }{{"processUserEvent", "lastEventClock", "event-clock: %d\n", "UserEvent"}, {"processQuery", "lastQueryClock", "query-clock: %d\n", "Query"}} {
		f := sm(c, "R4", "Snapshotter", k.fn)
		if f == nil {
			continue
		}
		sts := an.StoresTo(f, "."+k.last)
		c.Floor("R4", "stores to "+k.last+" in "+k.fn, len(sts), 1)
		newer := an.Cmp{L: "$1.LTime", Op: ">", R: "$0." + k.last}
		for _, st := range sts {
			c.Add(an.Path(st.Val) == "$1.LTime" && an.GuardedBy(f, st, newer), "R4", k.fn+":record-newer", st, k.last+" takes the event's time when it is newer", "value path + edge dominance")
		}
		for _, o := range an.StoresTo(f, "Clock") {
			if !strings.HasSuffix(an.Path(o.Addr), "."+k.last) {
				c.Add(false, "R4", k.fn+":wrong-clock", o, k.fn+" writes "+an.Path(o.Addr)+" instead of "+k.last, "")
			}
		}
		// every exit is behind "not newer" or passes the record + append
		app := an.CallsTo(f, "(*Snapshotter).tryAppend")
		okApp := false
		for _, a := range app {
			p := an.Path(an.CallOf(a).Args[1])
			if strings.HasPrefix(p, "fmt.Sprintf(c:"+quote(k.line)) && an.GuardedBy(f, a, newer) {
				okApp = true
			}
		}
		c.Add(okApp, "R4", k.fn+":append-line", f, "a newer time is appended as a "+strings.TrimSpace(k.line)+" line", "call + constant format")
		cut := an.EdgesImplying(f, an.Cmp{L: "$1.LTime", Op: "<=", R: "$0." + k.last})
		isRec := func(in ssa.Instruction) bool {
			for _, st := range sts {
				if st == in {
					return true
				}
			}
			return false
		}
		esc := an.ReachFrom(f, nil, &an.Cut{Edges: cut, Instrs: isRec}, an.IsExit)
		c.Add(esc == nil, "R4", k.fn+":records-every-newer", f, "every event newer than the last recorded one is recorded (no other early exit)", "reach/cut")
	}
	// dispatch in the stream goroutine
	if st := c.P.Method(serf, "Snapshotter", "stream"); st != nil {
		var anon []*ssa.Function
		anon = append(anon, st)
		anon = append(anon, st.AnonFuncs...)
		nu, nq := 0, 0
		for _, f := range anon {
			for _, call := range an.CallsTo(f, "(*Snapshotter).processUserEvent") {
				if strings.Contains(an.Path(an.CallOf(call).Args[1]), ".(serf.UserEvent)") {
					nu++
				}
			}
			for _, call := range an.CallsTo(f, "(*Snapshotter).processQuery") {
				if strings.Contains(an.Path(an.CallOf(call).Args[1]), ".(*serf.Query)") {
					nq++
				}
			}
		}
		c.Add(nu >= 1 && nq >= 1, "R4", "Snapshotter.stream:dispatch", st, "the snapshot goroutine dispatches UserEvent and *Query to their recorders", "call enumeration")
	} else {
		c.Anchor("R4", "serf.(*Snapshotter).stream")
	}
	wiringRule(c, "R4")
}

func quote(s string) string {
	return strings.ReplaceAll(strings.ReplaceAll("\""+s, "\n", "\\n"), "\t", "\\t")
}
