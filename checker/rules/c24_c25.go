package rules

import (
	"go/token"
	"go/types"
	"strings"

	"serfcheck/an"

	"golang.org/x/tools/go/ssa"
)

func init() {
	register(&Rule{
		ID:      "C24",
		Explain: "Decides RPC gating for every request sequence as shape facts of the dispatcher: every handler call in AgentIPC.handleRequest except the handshake is unreachable once the edges establishing 'version != 0' (and 'command == handshake') are cut, and every handler call except handshake and auth is unreachable once the edges establishing 'no auth key configured', 'didAuth', 'command == auth' and 'command == handshake' are cut; each call sits in the switch arm of its own command constant (the command is never written); handlers are called from nowhere else and the dispatcher only from the client loop; IPCClient.version is written only by the handshake handler behind version-in-range ∧ not-yet-set, didAuth only by the auth handler behind key equality; both reject paths send a header carrying the request's sequence number and a non-empty constant error before returning; the dispatcher itself touches no agent state.",
		Run:     runC24,
		Mutants: []Mutant{
			{Name: "reply-left-in-buffer", File: "cmd/serf/command/agent/ipc.go", Func: "func (c *IPCClient) Send(", Old: "\tif err := c.writer.Flush(); err != nil {\n", New: "\tif c.reader.Buffered() > 0 {\n\t\treturn nil\n\t}\n\tif err := c.writer.Flush(); err != nil {\n", Expect: "R4|Send:flushes-before-success"},
			{Name: "auth-key-normalised", File: "cmd/serf/command/agent/ipc.go", Func: "func NewAgentIPC(", Old: "authKey:                 authKey,", New: "authKey:                 strings.TrimSpace(authKey),", Expect: "R6"},
			{Name: "gate-discards-body", File: "cmd/serf/command/agent/ipc.go", Func: "func (i *AgentIPC) handleRequest(", Old: "\t\trespHeader := responseHeader{Seq: seq, Error: authRequired}\n\t\tclient.Send(&respHeader, nil)\n\t\treturn nil\n", New: "\t\trespHeader := responseHeader{Seq: seq, Error: authRequired}\n\t\tclient.Send(&respHeader, nil)\n\t\tvar skipped any\n\t\t_ = client.dec.Decode(&skipped)\n\t\treturn nil\n", Expect: "R5"},
			{Name: "rename-locals", Equivalent: true, Regexp: true, File: "cmd/serf/command/agent/ipc.go", Func: "func (i *AgentIPC) handleHandshake(", Old: `\b(req|resp)\b`, New: "${1}Renamed"},
			{Name: "stats-before-auth", File: "cmd/serf/command/agent/ipc.go", Func: "func (i *AgentIPC) handleRequest(", Old: "\t// Ensure the client has authenticated after the handshake if necessary\n", New: "\tif command == statsCommand {\n\t\treturn i.handleStats(client, seq)\n\t}\n", Expect: "R1"},
			{Name: "auth-gate-or", File: "cmd/serf/command/agent/ipc.go", Func: "func (i *AgentIPC) handleRequest(", Old: "i.authKey != \"\" && !client.didAuth && command != authCommand && command != handshakeCommand", New: "i.authKey != \"\" && !client.didAuth && command != authCommand && command != handshakeCommand && command != membersCommand", Expect: "R1"},
			{Name: "handshake-gate-skips-members", File: "cmd/serf/command/agent/ipc.go", Func: "func (i *AgentIPC) handleRequest(", Old: "if command != handshakeCommand && client.version == 0 {", New: "if command != handshakeCommand && command != statsCommand && client.version == 0 {", Expect: "R1"},
			{Name: "didauth-on-wrong-edge", File: "cmd/serf/command/agent/ipc.go", Func: "func (i *AgentIPC) handleAuth(", Old: "\tif req.AuthKey == i.authKey {\n\t\tclient.didAuth = true\n\t} else {\n\t\tresp.Error = invalidAuthToken\n\t}\n", New: "\tclient.didAuth = true\n\tif req.AuthKey != i.authKey {\n\t\tresp.Error = invalidAuthToken\n\t}\n", Expect: "R3"},
			{Name: "version-overwritten", File: "cmd/serf/command/agent/ipc.go", Func: "func (i *AgentIPC) handleHandshake(", Old: "\t} else if client.version != 0 {\n\t\tresp.Error = duplicateHandshake\n\t} else {\n\t\tclient.version = req.Version\n\t}\n", New: "\t} else {\n\t\tclient.version = req.Version\n\t}\n", Expect: "R3"},
			{Name: "reject-without-reply", File: "cmd/serf/command/agent/ipc.go", Func: "func (i *AgentIPC) handleRequest(", Old: "\t\trespHeader := responseHeader{Seq: seq, Error: authRequired}\n\t\tclient.Send(&respHeader, nil)\n\t\treturn nil\n", New: "\t\treturn nil\n", Expect: "R4"},
			{Name: "handler-called-elsewhere", File: "cmd/serf/command/agent/ipc.go", Func: "func (i *AgentIPC) handleClient(", Old: "\t\t// Evaluate the command\n", New: "\t\tif reqHeader.Command == statsCommand {\n\t\t\t_ = i.handleStats(client, reqHeader.Seq)\n\t\t\tcontinue\n\t\t}\n", Expect: "R2"},
		},
	})
	register(&Rule{
		ID:      "C25",
		Explain: "Decides reply correlation and stream well-formedness structurally: every responseHeader built anywhere in the agent package takes Seq from the handler's seq parameter (which at every call site is the request header's Seq) or from a stream's seq field (written only by its constructor from the seq argument); an event stream enqueues an event only behind some filter's Invoke(e)==true, non-blockingly, and has one consumer goroutine; a query stream emits an ack/response record only for a value actually received from the query's channels (receives from closable channels are comma-ok with the not-ok edge leaving the case without emitting), builds records only from received values, and sends the completion record only from the timer case, after which it returns.",
		Run:     runC25,
		Mutants: []Mutant{
			{Name: "handler-list-reused", File: "cmd/serf/command/agent/agent.go", Func: "func (a *Agent) RegisterEventHandler(", Old: "\ta.eventHandlerList = nil\n", New: "\ta.eventHandlerList = a.eventHandlerList[:0]\n", Expect: "R8"},
			{Name: "flush-outside-write-lock", File: "cmd/serf/command/agent/ipc.go", Func: "func (c *IPCClient) Send(", Old: "\tif err := c.writer.Flush(); err != nil {\n\t\treturn err\n\t}\n\n\treturn nil\n", New: "\tc.writeLock.Unlock()\n\terr := c.writer.Flush()\n\tc.writeLock.Lock()\n\treturn err\n", Expect: "R7"},
			{Name: "expired-query-not-streamed", File: "cmd/serf/command/agent/ipc_event_stream.go", Func: "func (es *eventStream) sendQuery(", Old: "\tid := es.client.RegisterQuery(q)\n", New: "\tid := es.client.RegisterQuery(q)\n\tif id == 0 {\n\t\treturn nil\n\t}\n", Expect: "R6|sendQuery:always-sends"},
			{Name: "request-header-reused", File: "cmd/serf/command/agent/ipc.go", Func: "func (i *AgentIPC) handleClient(", Old: "\tfor {\n", New: "\tvar reqHeader requestHeader\n\tfor {\n", Old2: "\t\tvar reqHeader requestHeader\n", New2: "", Expect: "R5"},
			{Name: "reply-with-zero-seq", File: "cmd/serf/command/agent/ipc.go", Func: "func (i *AgentIPC) handleStats(", Old: "\t\tSeq:   seq,\n", New: "\t\tSeq:   0,\n", Expect: "R1"},
			{Name: "stream-seq-from-counter", File: "cmd/serf/command/agent/ipc_query_response_stream.go", Func: "func newQueryResponseStream(", Old: "\t\tseq:    seq,\n", New: "\t\tseq:    seq + 1,\n", Expect: "R1"},
			{Name: "event-stream-ignores-filter", File: "cmd/serf/command/agent/ipc_event_stream.go", Func: "func (es *eventStream) HandleEvent(", Old: "\treturn\n\n\t// Do a non-blocking send\n", New: "\tif e.EventType() != serf.EventQuery {\n\t\treturn\n\t}\n\n\t// Do a non-blocking send\n", Expect: "R2"},
			{Name: "bare-receive-on-closed-channel", File: "cmd/serf/command/agent/ipc_query_response_stream.go", Func: "func (qs *queryResponseStream) Stream(", Old: "\t\t\tif !ok {\n\t\t\t\trespCh = nil\n\t\t\t\tcontinue\n\t\t\t}\n", New: "\t\t\t_ = ok\n", Expect: "R3"},
			{Name: "done-then-continue", File: "cmd/serf/command/agent/ipc_query_response_stream.go", Func: "func (qs *queryResponseStream) Stream(", Old: "\t\t\t\tqs.logger.Printf(\"[ERR] agent.ipc: Failed to stream query end to %v: %v\", qs.client, err)\n\t\t\t}\n\t\t\treturn\n", New: "\t\t\t\tqs.logger.Printf(\"[ERR] agent.ipc: Failed to stream query end to %v: %v\", qs.client, err)\n\t\t\t\treturn\n\t\t\t}\n\t\t\tdone = nil\n", Expect: "R4"},
			{Name: "ack-record-with-constant-sender", File: "cmd/serf/command/agent/ipc_query_response_stream.go", Func: "func (qs *queryResponseStream) sendAck(", Old: "\t\tFrom: from,\n", New: "\t\tFrom: \"\",\n", Expect: "R4"},
			{Name: "blocking-enqueue", File: "cmd/serf/command/agent/ipc_event_stream.go", Func: "func (es *eventStream) HandleEvent(", Old: "\tselect {\n\tcase es.eventCh <- e:\n\tdefault:\n\t\tes.logger.Printf(\"[WARN] agent.ipc: Dropping event to %v\", es.client)\n\t}\n", New: "\tes.eventCh <- e\n", Expect: "R2"},
		},
	})
}

// ipcHandlers returns the handler call sites in the dispatcher.
func ipcHandlerCalls(disp *ssa.Function) []ssa.Instruction {
	return an.FindInstrs(disp, func(in ssa.Instruction) bool {
		call, ok := in.(*ssa.Call)
		if !ok {
			return false
		}
		f := an.StaticCallee(&call.Call)
		if f == nil || f.Signature.Recv() == nil {
			return false
		}
		return strings.HasSuffix(f.Signature.Recv().Type().String(), "AgentIPC") && strings.HasPrefix(f.Name(), "handle") && f != disp
	})
}

func runC24(c *an.Ctx) {
	c.Rule("R6 the key the gate compares with is the configured key as given: AgentIPC.authKey is written only at construction, with the constructor's parameter unchanged")
	{
		nK := 0
		for _, a := range an.FieldAccesses(c.P.FuncsIn(agent), "AgentIPC", "authKey") {
			if a.Kind != "store" {
				continue
			}
			nK++
			_, isParam := an.Strip(a.Val).(*ssa.Parameter)
			c.Add(a.Init && isParam && an.FuncName(a.Fn) == "NewAgentIPC", "R6", "authKey-writer:"+an.FuncName(a.Fn), a.Instr, "authKey is the constructor's key parameter, stored unmodified at construction (stores "+short(an.Path(a.Val))+")", "who-may-write + value provenance")
		}
		c.Floor("R6", "stores of AgentIPC.authKey", nK, 1)
	}
	c.Rule("R5 the gate itself reads nothing from the connection: only the command handlers decode (their own body); a rejection must not consume bytes of the next request")
	if hr := am(c, "R5", "AgentIPC", "handleRequest"); hr != nil {
		nDec := 0
		an.Instrs(hr, func(in ssa.Instruction) {
			cc := an.CallOf(in)
			if cc == nil || len(cc.Args) == 0 {
				return
			}
			if f := an.StaticCallee(cc); f != nil && an.CalleeName(f) == "codec.(*Decoder).Decode" {
				nDec++
				c.Add(false, "R5", "gate:reads-nothing", in, "handleRequest decodes from the connection itself ("+short(an.Path(cc.Args[0]))+"): a rejected or unknown command can swallow the next request", "call enumeration")
			}
		})
		c.Add(nDec == 0, "R5", "gate:no-decode", hr, "handleRequest (and its helpers) never read from the connection", "call enumeration")
	}
	c.Rule("R1 every handler call except handshake is cut off by removing edges {version != 0, command == handshake}; every handler call except handshake/auth by removing edges {authKey == \"\", didAuth, command == auth, command == handshake}; each call is in the arm of its own command constant")
	c.Rule("R2 handlers are called only from the dispatcher; the dispatcher only from the client loop")
	c.Rule("R3 IPCClient.version written only in handleHandshake behind version in range ∧ version == 0; didAuth only in handleAuth behind key equality")
	c.Rule("R4 each reject path sends a header with the request's seq and a non-empty constant error before returning")
	c.Rule("R5 the dispatcher touches no agent state itself")
	disp := am(c, "R1", "AgentIPC", "handleRequest")
	if disp == nil {
		return
	}
	locks := an.NewLocks(c.P)
	calls := ipcHandlerCalls(disp)
	c.Floor("R1", "handler dispatch arms", len(calls), 19)
	hs := cv(c, agent, "handshakeCommand")
	au := cv(c, agent, "authCommand")
	cmd := "$2.Command"
	gate1 := []an.Cmp{{L: "$1.version", Op: "!=", R: "c:0"}, {L: cmd, Op: "==", R: hs}}
	gate2 := []an.Cmp{{L: "$0.authKey", Op: "==", R: `c:""`}, {L: "$1.didAuth", Op: "==", R: "c:true"}, {L: cmd, Op: "==", R: au}, {L: cmd, Op: "==", R: hs}}
	handlers := map[*ssa.Function]bool{}
	for _, call := range calls {
		f := an.StaticCallee(an.CallOf(call))
		handlers[f] = true
		name := f.Name()
		// own arm
		var arms []string
		for _, fct := range necessaryFacts(disp, call) {
			if fct.L == cmd && fct.Op == "==" && strings.HasPrefix(fct.R, "c:") {
				arms = append(arms, fct.R)
			}
		}
		ownArm := len(arms) >= 1
		if name == "handleMembers" {
			// two constants share the arm: guarded by the union
			u := append(an.EdgesImplying(disp, an.Cmp{L: cmd, Op: "==", R: cv(c, agent, "membersCommand")}), an.EdgesImplying(disp, an.Cmp{L: cmd, Op: "==", R: cv(c, agent, "membersFilteredCommand")})...)
			ownArm = an.Guarded(disp, call, u)
		}
		c.Add(ownArm, "R1", "dispatch:own-arm:"+name, call, name+" is called only in the arm of its own command constant(s) "+strings.Join(arms, ","), "necessary-edge enumeration")
		isHS := len(arms) == 1 && arms[0] == hs
		isAU := len(arms) == 1 && arms[0] == au
		if name == "handleHandshake" {
			c.Add(isHS, "R1", "dispatch:handshake-arm", call, "the handshake handler runs only for the handshake command", "necessary-edge enumeration")
			continue
		}
		c.Add(!isHS && an.GuardedAny(disp, call, gate1...), "R1", "gate:handshake-first:"+name, call, name+" is unreachable without passing 'version != 0' (a completed handshake)", "reach/cut over {version != 0, command == handshake}")
		if name == "handleAuth" {
			c.Add(isAU, "R1", "dispatch:auth-arm", call, "the auth handler runs only for the auth command", "necessary-edge enumeration")
			continue
		}
		c.Add(!isAU && an.GuardedAny(disp, call, gate2...), "R1", "gate:auth-first:"+name, call, name+" is unreachable without passing 'no key configured' or 'didAuth'", "reach/cut over {authKey == \"\", didAuth, command == auth, command == handshake}")
	}
	// the command and the gate state are not written by the dispatcher
	an.Instrs(disp, func(in ssa.Instruction) {
		if s, ok := in.(*ssa.Store); ok {
			p := an.Path(s.Addr)
			if strings.HasPrefix(p, "&$2.") || strings.HasPrefix(p, "&$1.") || strings.HasPrefix(p, "&$0.") {
				c.Add(false, "R5", "dispatcher:writes:"+p, in, "the dispatcher writes "+p, "")
			}
		}
	})
	// R2
	for f := range handlers {
		for _, s := range locks.Callers(f) {
			c.Add(s.Parent() == disp, "R2", "handler-caller:"+f.Name(), s, f.Name()+" is called only by the dispatcher", "who-may-call")
		}
		c.Add(!locks.Escapes(f), "R2", "handler-not-a-value:"+f.Name(), f, f.Name()+" is never used as a function value", "reference enumeration")
	}
	// every handle* method of AgentIPC (other than the client loop) is dispatched
	for _, f := range c.P.FuncsIn(agent) {
		if f.Parent() != nil || f.Signature.Recv() == nil || !strings.HasSuffix(f.Signature.Recv().Type().String(), "AgentIPC") {
			continue
		}
		if strings.HasPrefix(f.Name(), "handle") && f != disp && f.Name() != "handleClient" {
			c.Add(handlers[f], "R2", "handler-dispatched:"+f.Name(), f, f.Name()+" is reachable only through the gated dispatcher", "method enumeration")
		}
	}
	for _, s := range locks.Callers(disp) {
		c.Add(an.FuncName(s.Parent()) == "(*AgentIPC).handleClient", "R2", "dispatcher-caller", s, "the dispatcher is called only by the client loop", "who-may-call")
	}
	// R3
	for _, a := range an.FieldAccesses(c.P.FuncsIn(agent), "IPCClient", "version") {
		if a.Init {
			continue
		}
		fn := a.Fn
		ok := an.FuncName(fn) == "(*AgentIPC).handleHandshake" &&
			an.GuardedBy(fn, a.Instr, an.Cmp{L: "$1.version", Op: "==", R: "c:0"}) &&
			an.GuardedBy(fn, a.Instr, an.Cmp{L: "local:handshakeRequest.Version", Op: ">=", R: cv(c, agent, "MinIPCVersion")}) &&
			an.GuardedBy(fn, a.Instr, an.Cmp{L: "local:handshakeRequest.Version", Op: "<=", R: cv(c, agent, "MaxIPCVersion")}) &&
			an.Path(a.Val) == "local:handshakeRequest.Version"
		c.Add(ok, "R3", "version-writer:"+an.FuncName(fn), a.Instr, "the connection's version is set only by the handshake handler, once, to a supported version", "who-may-write + edge dominance")
	}
	nA := 0
	for _, a := range an.FieldAccesses(c.P.FuncsIn(agent), "IPCClient", "didAuth") {
		if a.Init {
			continue
		}
		nA++
		fn := a.Fn
		ok := an.FuncName(fn) == "(*AgentIPC).handleAuth" && an.IsConstBool(a.Val, true) &&
			an.GuardedBy(fn, a.Instr, an.Cmp{L: "local:authRequest.AuthKey", Op: "==", R: "$0.authKey"})
		c.Add(ok, "R3", "didAuth-writer:"+an.FuncName(fn), a.Instr, "didAuth is set only by the auth handler, only when the presented key equals the configured key", "who-may-write + edge dominance")
	}
	c.Floor("R3", "writers of didAuth", nA, 1)
	// R4 reject paths
	rejects := []struct {
		name string
		edge an.Cmp
	}{
		{"handshake-required", an.Cmp{L: "$1.version", Op: "==", R: "c:0"}},
		{"auth-required", an.Cmp{L: cmd, Op: "!=", R: hs}},
	}
	sends := an.CallsTo(disp, "(*IPCClient).Send")
	nRej := 0
	for _, s := range sends {
		// header fields
		okSeq, okErr := false, ""
		hdr := strings.TrimPrefix(an.Path(an.CallOf(s).Args[1]), "&")
		an.Instrs(disp, func(in ssa.Instruction) {
			st, ok := in.(*ssa.Store)
			if !ok || st.Block() != s.Block() {
				return
			}
			if t, f, ok := an.FieldOf(st.Addr); ok && t == "responseHeader" {
				// a reply helper shared by several reject sites is judged once per call site
				switch f {
				case "Seq":
					okSeq = true
					for _, v := range an.SiteValues(st.Val) {
						okSeq = okSeq && an.Path(v) == "$2.Seq"
					}
				case "Error":
					all := true
					var names []string
					for _, v := range an.SiteValues(st.Val) {
						if cs, isC := an.ConstString(v); isC && cs != "" {
							names = append(names, cs)
						} else {
							all = false
						}
					}
					if all && len(names) > 0 {
						okErr = strings.Join(names, " / ")
						nRej += len(names) - 1
					}
				}
			}
		})
		_ = hdr
		nRej++
		c.Add(okSeq && okErr != "", "R4", "reject:header:"+okErr, s, "a rejected command is answered with the request's sequence number and the error "+quoteS(okErr), "field provenance in the reject block")
		// nothing but a return follows
		after := an.ReachFrom(disp, s, nil, func(in ssa.Instruction) bool {
			for _, h := range calls {
				if h == in {
					return true
				}
			}
			return false
		})
		c.Add(after == nil, "R4", "reject:no-dispatch-after:"+okErr, s, "no handler runs after a reject reply", "reachability")
	}
	c.Floor("R4", "reject replies in the dispatcher", nRej, 3)
	sendAlwaysFlushes(c, "R4")
	_ = rejects
	// every path that skips all handlers passes a Send (no silent drop)
	isHandlerOrSend := func(in ssa.Instruction) bool {
		for _, h := range calls {
			if h == in {
				return true
			}
		}
		for _, s := range sends {
			if s == in {
				return true
			}
		}
		return false
	}
	esc := an.ReachFrom(disp, nil, &an.Cut{Instrs: isHandlerOrSend}, an.IsExit)
	c.Add(esc == nil, "R4", "dispatcher:always-answers", disp, "every path through the dispatcher reaches a handler or sends a reject reply", "reach/cut")
	// R5
	touches := false
	an.Instrs(disp, func(in ssa.Instruction) {
		if fa, ok := in.(*ssa.FieldAddr); ok {
			if t, f, ok := an.FieldOf(fa); ok && t == "AgentIPC" && (f == "agent" || f == "logWriter" || f == "clients") {
				touches = true
			}
		}
	})
	c.Add(!touches, "R5", "dispatcher:no-agent-access", disp, "the dispatcher does not touch the agent, the log writer or the client table", "field-access enumeration")
}

// seqOK decides whether v is a legitimate source of a reply's sequence number.
func seqOK(c *an.Ctx, d *discharger, fn *ssa.Function, v ssa.Value, depth int) bool {
	if depth > 4 {
		return false
	}
	switch x := an.Strip(v).(type) {
	case *ssa.Parameter:
		k := -1
		for i, p := range fn.Params {
			if p == x {
				k = i
			}
		}
		if k < 0 {
			return false
		}
		sites := d.allCallSites(fn)
		if len(sites) == 0 {
			return false
		}
		for _, s := range sites {
			a := an.CallOf(s).Args
			if k >= len(a) {
				return false
			}
			if an.Path(a[k]) == "$2.Seq" && an.FuncName(s.Parent()) == "(*AgentIPC).handleRequest" {
				continue
			}
			if !seqOK(c, d, s.Parent(), a[k], depth+1) {
				return false
			}
		}
		return true
	case *ssa.UnOp:
		t, f, ok := an.LoadedField(x)
		if !ok || f != "seq" {
			return false
		}
		// every store to T.seq is an init store in the constructor from a seq-OK value
		acc := an.FieldAccesses(c.P.FuncsIn(agent), t, "seq")
		if len(acc) == 0 {
			return false
		}
		for _, a := range acc {
			if !a.Init || !seqOK(c, d, a.Fn, a.Val, depth+1) {
				return false
			}
		}
		return true
	}
	return false
}

// handlerListFresh: the agent's handler list is only replaced by a fresh slice (shared by C25 and C27).
func handlerListFresh(c *an.Ctx, rule string) {
	c.Rule(rule + " the agent's handler list is read as a snapshot outside the lock by the event loop, so it is only ever replaced by a fresh slice (nil, then appends): never re-sliced or written element-wise in place")
	{
		nL := 0
		for _, f := range c.P.FuncsIn(agent) {
			an.Instrs(f, func(in ssa.Instruction) {
				switch x := in.(type) {
				case *ssa.Slice:
					if t, fld, ok := an.LoadedField(x.X); ok && t == "Agent" && fld == "eventHandlerList" {
						c.Add(false, rule, "handler-list:resliced:"+an.FuncName(f), in, "the handler list is re-sliced in place ("+short(an.Path(x))+"): an event loop iterating its snapshot can see handlers twice or not at all", "slice enumeration")
					}
				case *ssa.Store:
					if t, fld, ok := an.FieldOf(x.Addr); ok && t == "Agent" && fld == "eventHandlerList" {
						nL++
						p := an.Path(x.Val)
						ok := an.IsNilConst(x.Val) || strings.HasPrefix(p, "append($0.eventHandlerList,") || strings.HasPrefix(p, "append(c:nil")
						c.Add(ok, rule, "handler-list:fresh:"+an.FuncName(f), in, "the handler list is reset to nil and rebuilt by appends (stores "+short(p)+")", "store value shape")
					}
				}
			})
		}
		c.Floor(rule, "stores of Agent.eventHandlerList", nL, 4)
		// and each rebuild starts from nil in the same function
		for _, name := range []string{"RegisterEventHandler", "DeregisterEventHandler"} {
			if f := am(c, rule, "Agent", name); f != nil {
				var reset ssa.Instruction
				for _, st := range an.StoresTo(f, ".eventHandlerList") {
					if an.IsNilConst(st.Val) {
						reset = st
					}
				}
				okAll := reset != nil
				for _, st := range an.StoresTo(f, ".eventHandlerList") {
					if !an.IsNilConst(st.Val) && (reset == nil || !an.Dominates(reset, st)) {
						okAll = false
					}
				}
				c.Add(okAll, rule, "handler-list:rebuilt-from-nil:"+name, f, name+" resets the list to nil before it appends the handlers (the old backing array is never reused)", "dominance")
			}
		}
	}
}

func runC25(c *an.Ctx) {
	handlerListFresh(c, "R8")
	sendAlwaysFlushes(c, "R7")
	c.Rule("R7 a record is written atomically: every Encode on the connection's encoder and the Flush of its writer happen with writeLock held, the Flush in the section of the Encodes (two senders on one connection cannot interleave or duplicate bytes)")
	{
		locks7 := an.NewLocks(c.P)
		n7 := 0
		var flushes, encodes []ssa.Instruction
		for _, f := range c.P.FuncsIn(agent) {
			an.Instrs(f, func(in ssa.Instruction) {
				cc := an.CallOf(in)
				if cc == nil || len(cc.Args) == 0 {
					return
				}
				callee := an.StaticCallee(cc)
				if callee == nil {
					return
				}
				recv := an.Path(cc.Args[0])
				switch {
				case an.CalleeName(callee) == "bufio.(*Writer).Flush" && strings.HasSuffix(recv, ".writer"):
					if t, _, ok := an.LoadedField(cc.Args[0]); ok && t == "IPCClient" {
						flushes = append(flushes, in)
					}
				case an.CalleeName(callee) == "codec.(*Encoder).Encode" && strings.HasSuffix(recv, ".enc"):
					if t, _, ok := an.LoadedField(cc.Args[0]); ok && t == "IPCClient" {
						encodes = append(encodes, in)
					}
				}
			})
		}
		for _, in := range append(append([]ssa.Instruction{}, flushes...), encodes...) {
			n7++
			c.Add(locks7.Held(in).HasW("IPCClient.writeLock"), "R7", "write-locked:"+an.FuncName(in.Parent())+":"+kindOf(in), in, "the connection is written with writeLock held", "must-held lockset")
		}
		for _, fl := range flushes {
			for _, en := range encodes {
				if en.Parent() == fl.Parent() || an.FuncName(en.Parent()) == an.FuncName(fl.Parent()) {
					c.Add(!releaseBetween(fl.Parent(), en, fl, "IPCClient.writeLock"), "R7", "flush-in-encode-section:"+an.FuncName(fl.Parent()), fl, "the Flush happens in the critical section of the Encodes it flushes", "no release between encode and flush")
				}
			}
		}
		c.Floor("R7", "encoder/writer uses on IPC connections", n7, 3)
	}
	c.Rule("R1 Seq provenance of every responseHeader: handler seq parameter (== request header Seq at every call site) or a stream's seq field (constructor-only, from the seq argument)")
	c.Rule("R2 event stream: enqueue behind some filter's Invoke(e)==true, non-blocking; one consumer goroutine per stream")
	c.Rule("R3 closed-channel discipline: ack/response records are emitted only behind receive-ok of the query's channels")
	c.Rule("R4 completion record only from the timer case, followed by return; records are built from received values")
	c.Rule("R5 the request header is decoded into a fresh value for every request (the decoder leaves absent fields untouched: a reused header answers a request that omits Seq with the previous request's number and re-runs the previous command when Command is omitted)")
	if hc := am(c, "R5", "AgentIPC", "handleClient"); hc != nil {
		c.Floor("R5", "request-header decode sites", decodeTargetsFresh(c, "R5", []*ssa.Function{hc}), 1)
	}
	c.Rule("R6 consumer side of an event stream: the stream goroutine hands every dequeued event (all implementations of serf.Event) to a send method, and each send method returns only the result of the client's Send of a record built from that event (no path skips the record)")
	if st := am(c, "R6", "eventStream", "stream"); st != nil {
		handed := map[string]bool{}
		for _, call := range an.FindInstrs(st, func(in ssa.Instruction) bool {
			cc := an.CallOf(in)
			if cc == nil {
				return false
			}
			f := an.StaticCallee(cc)
			return f != nil && strings.HasPrefix(an.CalleeName(f), "(*eventStream).send")
		}) {
			a := an.CallOf(call).Args
			p := an.Path(a[1])
			if strings.HasPrefix(p, "<-$0.eventCh#0.(") && strings.HasSuffix(p, ")#0") {
				t := strings.TrimSuffix(strings.TrimPrefix(p, "<-$0.eventCh#0.("), ")#0")
				t = strings.TrimPrefix(strings.TrimPrefix(t, "*"), "serf.")
				handed[t] = true
				// nothing but the type of the event decides whether it is sent
				extra := ""
				for _, f := range necessaryFacts(st, call) {
					if strings.HasPrefix(f.L, "<-$0.eventCh#") {
						continue
					}
					extra += f.String() + "; "
				}
				c.Add(extra == "", "R6", "stream:sends-every-dequeued:"+t, call, "a dequeued "+t+" is always handed to its send method (other conditions: "+extra+")", "necessary-edge enumeration")
			}
		}
		for _, impl := range eventImpls(c) {
			c.Add(handed[impl], "R6", "stream:covers:"+impl, st, "the stream goroutine sends events of type "+impl, "type-switch arm enumeration over the implementations of serf.Event")
		}
	}
	nSend := 0
	for _, name := range []string{"sendMemberEvent", "sendUserEvent", "sendQuery"} {
		f := am(c, "R6", "eventStream", name)
		if f == nil {
			continue
		}
		for _, r := range an.Returns(f) {
			if r.Block().Comment == "recover" {
				continue
			}
			nSend++
			p := an.Path(an.ResultValues(r)[0])
			c.Add(strings.HasPrefix(p, "invoke:Send($0.client,"), "R6", name+":always-sends", r, name+" returns only the result of sending the record to the client (got "+short(p)+")", "result provenance of every return")
		}
	}
	c.Floor("R6", "returns of the event-stream send methods", nSend, 3)
	d := &discharger{c: c}
	n := 0
	for _, fn := range c.P.FuncsIn(agent) {
		for _, st := range an.StoresTo(fn, ".Seq") {
			if t, _, ok := an.FieldOf(st.Addr); !ok || t != "responseHeader" {
				continue
			}
			n++
			ok := seqOK(c, d, fn, st.Val, 0)
			if an.FuncName(fn) == "(*AgentIPC).handleRequest" {
				ok = an.Path(st.Val) == "$2.Seq"
			}
			c.Add(ok, "R1", "seq:"+an.FuncName(fn), st, "the reply header's Seq is the request's (or the stream's) sequence number (got "+an.Path(st.Val)+")", "value provenance through parameters and constructor-only fields")
		}
	}
	c.Floor("R1", "responseHeader literals in the agent package", n, 20)

	// R2
	if he := am(c, "R2", "eventStream", "HandleEvent"); he != nil {
		var enq []ssa.Instruction
		an.Instrs(he, func(in ssa.Instruction) {
			switch x := in.(type) {
			case *ssa.Send:
				if strings.HasSuffix(an.Path(x.Chan), ".eventCh") {
					enq = append(enq, in)
					c.Add(false, "R2", "HandleEvent:blocking-enqueue", in, "the event stream enqueues with a blocking send (a slow client would stall the agent's event loop)", "")
				}
			case *ssa.Select:
				for _, st := range x.States {
					if st.Dir == types.SendOnly && strings.HasSuffix(an.Path(st.Chan), ".eventCh") {
						enq = append(enq, in)
						c.Add(!x.Blocking && an.Path(st.Send) == "$1", "R2", "HandleEvent:non-blocking", in, "the event is enqueued with a non-blocking send (the only drop is a full buffer)", "select shape")
					}
				}
			}
		})
		c.Floor("R2", "enqueue sites in HandleEvent", len(enq), 1)
		// the search may also be slices.ContainsFunc over the stream's filters with a closure that returns
		// the filter's verdict on this event
		viaContains := map[string]bool{}
		an.Instrs(he, func(in ssa.Instruction) {
			call, ok := in.(*ssa.Call)
			if !ok || len(call.Call.Args) != 2 {
				return
			}
			callee := an.StaticCallee(&call.Call)
			if callee == nil || !strings.HasPrefix(an.CalleeName(callee), "slices.ContainsFunc") || an.Path(call.Call.Args[0]) != "$0.filters" {
				return
			}
			mc, ok := call.Call.Args[1].(*ssa.MakeClosure)
			if !ok || len(mc.Bindings) != 1 {
				return
			}
			// the captured variable is the event (captured by reference: a cell holding $1, stored once)
			if al, isAl := mc.Bindings[0].(*ssa.Alloc); isAl {
				nSt, okSt := 0, false
				for _, u := range *al.Referrers() {
					if st, isSt := u.(*ssa.Store); isSt && st.Addr == ssa.Value(al) {
						nSt++
						okSt = an.Path(st.Val) == "$1"
					}
				}
				if nSt != 1 || !okSt {
					return
				}
			} else if an.Path(mc.Bindings[0]) != "$1" {
				return
			}
			cf, _ := mc.Fn.(*ssa.Function)
			if cf == nil || len(cf.Params) != 1 {
				return
			}
			all := len(an.Returns(cf)) > 0
			for _, r := range an.Returns(cf) {
				v := an.ResultValues(r)
				inv, isCall := v[0].(*ssa.Call)
				if len(v) != 1 || !isCall || !an.IsCallTo(inv, "(*EventFilter).Invoke") || len(inv.Call.Args) != 2 {
					all = false
					continue
				}
				// receiver: the closure's own parameter (the filter under test); argument: the captured event
				_, argIsFree := inv.Call.Args[1].(*ssa.FreeVar)
				if ld, isLd := inv.Call.Args[1].(*ssa.UnOp); isLd && ld.Op == token.MUL {
					_, argIsFree = ld.X.(*ssa.FreeVar)
				}
				recvOK := false
				if al, isAl := inv.Call.Args[0].(*ssa.Alloc); isAl {
					for _, u := range *al.Referrers() {
						if st, isSt := u.(*ssa.Store); isSt && st.Addr == ssa.Value(al) && st.Val == ssa.Value(cf.Params[0]) {
							recvOK = true
						}
					}
				}
				if !argIsFree || !recvOK {
					all = false
				}
			}
			if all {
				viaContains[an.Path(call)] = true
			}
		})
		matched := an.EdgesWhere(he, func(f an.Cmp) bool {
			if viaContains[f.L] && f.Op == "==" && f.R == "c:true" {
				return true
			}
			return strings.HasPrefix(f.L, "(*EventFilter).Invoke(") && strings.HasSuffix(f.L, ",$1)") && f.Op == "==" && f.R == "c:true"
		})
		c.Floor("R2", "filter-match edges", len(matched), 1)
		for _, e := range enq {
			c.Add(an.Guarded(he, e, matched), "R2", "HandleEvent:filter-first", e, "an event is enqueued only if one of the stream's filters matched it", "edge dominance")
		}
		// the filters consulted are the stream's own
		okF := len(viaContains) > 0
		for _, call := range an.CallsTo(he, "(*EventFilter).Invoke") {
			recv := an.Path(an.CallOf(call).Args[0])
			okF = strings.HasPrefix(recv, "&$0.filters[")
			if !okF && strings.HasPrefix(recv, "&local:") {
				// range copy of an element of the stream's filter list
				for _, st := range an.FindInstrs(he, func(in ssa.Instruction) bool { s, ok := in.(*ssa.Store); return ok && an.Path(s.Addr) == recv }) {
					okF = strings.HasPrefix(an.Path(st.(*ssa.Store).Val), "$0.filters[")
				}
			}
		}
		c.Add(okF, "R2", "HandleEvent:own-filters", he, "the filters consulted are the stream's own", "argument path")
	}
	if ne := c.P.Func(agent, "newEventStream"); c.NeedFunc("R2", ne, "agent.newEventStream") {
		gos := an.FindInstrs(ne, func(in ssa.Instruction) bool { _, ok := in.(*ssa.Go); return ok })
		ok := len(gos) == 1
		if ok {
			f := an.StaticCallee(an.CallOf(gos[0]))
			ok = f != nil && an.CalleeName(f) == "(*eventStream).stream"
		}
		c.Add(ok, "R2", "newEventStream:one-consumer", ne, "each event stream has exactly one consumer goroutine", "go-statement enumeration")
	}
	if st := am(c, "R2", "eventStream", "stream"); st != nil {
		// events are sent in the order received: a range over the channel, sends in the same goroutine
		isRange := false
		an.Instrs(st, func(in ssa.Instruction) {
			if u, ok := in.(*ssa.UnOp); ok && u.Op.String() == "<-" && u.CommaOk && strings.HasSuffix(an.Path(u.X), ".eventCh") {
				isRange = true
			}
		})
		gos := an.FindInstrs(st, func(in ssa.Instruction) bool { _, ok := in.(*ssa.Go); return ok })
		c.Add(isRange && len(gos) == 0 && len(st.AnonFuncs) == 0, "R2", "stream:in-order", st, "the consumer ranges over the buffer and sends synchronously (arrival order preserved)", "receive/go-statement enumeration")
	}

	// R3 / R4 query stream
	if qs := am(c, "R3", "queryResponseStream", "Stream"); qs != nil {
		var sel *ssa.Select
		an.Instrs(qs, func(in ssa.Instruction) {
			if s, ok := in.(*ssa.Select); ok {
				sel = s
			}
		})
		if sel == nil {
			c.Anchor("R3", "select in queryResponseStream.Stream")
			return
		}
		sp := an.Path(sel)
		recvOK := an.Cmp{L: sp + "#1", Op: "==", R: "c:true"}
		closable := 0
		for i, stt := range sel.States {
			if stt.Dir != types.RecvOnly {
				continue
			}
			src := chanSource(stt.Chan)
			if !(strings.HasPrefix(src, "(*QueryResponse).AckCh(") || strings.HasPrefix(src, "(*QueryResponse).ResponseCh(")) {
				continue
			}
			closable++
			emit := "(*queryResponseStream).sendAck"
			if strings.HasPrefix(src, "(*QueryResponse).ResponseCh(") {
				emit = "(*queryResponseStream).sendResponse"
			}
			caseEdge := an.EdgesImplying(qs, an.Cmp{L: sp + "#0", Op: "==", R: "c:" + itoa(i)})
			for _, e := range an.CallsTo(qs, emit) {
				c.Add(an.Guarded(qs, e, caseEdge), "R3", "Stream:emit-in-own-case:"+emit, e, emit+" runs only in the case that received from its channel", "edge dominance")
				c.Add(an.GuardedBy(qs, e, recvOK), "R3", "Stream:emit-only-if-received:"+emit, e, "a record is emitted only for a value actually received (receive-ok is true): a closed channel yields no record", "edge dominance on the select's recvOk")
				// the record is built from the received value
				okV := false
				for _, a := range an.CallOf(e).Args[1:] {
					if strings.HasPrefix(an.Path(a), sp+"#") {
						okV = true
					}
				}
				c.Add(okV, "R4", "Stream:record-from-received:"+emit, e, "the record is built from the received value", "argument path")
			}
			c.Floor("R3", "emit sites for "+emit, len(an.CallsTo(qs, emit)), 1)
		}
		c.Floor("R3", "closable channels in the query stream's select", closable, 2)
		// R4 completion
		dones := an.CallsTo(qs, "(*queryResponseStream).sendDone")
		c.Floor("R4", "completion record sites", len(dones), 1)
		for _, dn := range dones {
			timerCase := -1
			for i, stt := range sel.States {
				if strings.HasPrefix(an.Path(stt.Chan), "time.After(") || strings.HasPrefix(chanSource(stt.Chan), "time.After(") {
					timerCase = i
				}
			}
			c.Add(timerCase >= 0 && an.GuardedBy(qs, dn, an.Cmp{L: sp + "#0", Op: "==", R: "c:" + itoa(timerCase)}), "R4", "Stream:done-on-timer", dn, "the completion record is sent only when the query's deadline timer fired", "edge dominance")
			again := an.ReachFrom(qs, dn, nil, func(in ssa.Instruction) bool {
				_, isSel := in.(*ssa.Select)
				return isSel || an.IsCallTo(in, "(*queryResponseStream).sendAck", "(*queryResponseStream).sendResponse", "(*queryResponseStream).sendDone")
			})
			c.Add(again == nil, "R4", "Stream:nothing-after-done", dn, "nothing more is sent for the stream after the completion record", "reachability")
		}
	}
	for m, typ := range map[string]string{"sendAck": "queryRecordAck", "sendResponse": "queryRecordResponse", "sendDone": "queryRecordDone"} {
		f := am(c, "R4", "queryResponseStream", m)
		if f == nil {
			continue
		}
		okT, okF := false, m == "sendDone"
		for _, st := range an.StoresTo(f, ".Type") {
			okT = an.Path(st.Val) == cv(c, agent, typ)
		}
		for _, st := range an.StoresTo(f, ".From") {
			okF = an.Path(st.Val) == "$1"
		}
		c.Add(okT && okF, "R4", m+":record", f, m+" builds a "+typ+" record from its arguments", "field provenance")
	}
}

// chanSource resolves a channel value in a select state to the expression it
// was initialised from (looking through the loop phi that a `ch = nil`
// assignment introduces).
func chanSource(v ssa.Value) string {
	if phi, ok := v.(*ssa.Phi); ok {
		for _, e := range phi.Edges {
			if an.IsNilConst(e) || e == ssa.Value(phi) {
				continue
			}
			if p2, ok := e.(*ssa.Phi); ok && p2 != phi {
				if s := chanSource(p2); s != "" && !strings.HasPrefix(s, "phi") {
					return s
				}
				continue
			}
			return an.Path(e)
		}
	}
	return an.Path(v)
}

// sendAlwaysFlushes: IPCClient.Send hands the record to the connection before it reports success — every
// path to a nil result passes the writer's Flush (a reply left in the buffer is lost when the connection is
// torn down). Shared by C24 (a rejected command gets its reply) and C25.
func sendAlwaysFlushes(c *an.Ctx, rule string) {
	snd := am(c, rule, "IPCClient", "Send")
	if snd == nil {
		return
	}
	isFlush := func(in ssa.Instruction) bool {
		return an.IsCallTo(in, "bufio.(*Writer).Flush") && an.Path(an.CallOf(in).Args[0]) == "$0.writer"
	}
	bad := an.ReachFrom(snd, nil, &an.Cut{Instrs: isFlush}, func(in ssa.Instruction) bool {
		r, ok := in.(*ssa.Return)
		if !ok {
			return false
		}
		v := an.ResultValues(r)
		return len(v) == 1 && an.IsNilConst(v[0])
	})
	c.Add(bad == nil, rule, "Send:flushes-before-success", snd, "Send returns nil only after the writer was flushed (no reply is left behind in the buffer)", "reach/cut must-pass of Flush before every nil return")
	if bad != nil {
		c.Obs[len(c.Obs)-1].Desc += " — nil return without a flush at " + c.P.InstrPos(bad)
	}
}
