package rules

import (
	"go/types"
	"sort"
	"strings"

	"serfcheck/an"

	"golang.org/x/tools/go/ssa"
)

const clientPkg = an.PkgClient

func init() {
	register(&Rule{
		ID:      "C28",
		Explain: "Decides the RPC client's subscriber-channel safety for every interleaving of incoming records with Stop/Close as lock-discipline facts: for each stream handler type (monitor, event stream, query) every send on a subscriber channel and the close of it happen while the handler's own mutex is held, the send is behind closed==false read in that critical section, the close is behind !closed with closed=true stored in the same section (exactly once, never a send after close); Cleanup is invoked only by the two deregistration functions, each only for entries it removed from the dispatch table under the dispatch lock; the handler's flags are only accessed under its mutex; and the record path from the connection (listen → respondSeq → Handle) contains no undischarged panic obligation.",
		Run:     runC28,
		Mutants: []Mutant{
			{Name: "deregister-skipped-when-closed", File: "client/rpc_client.go", Func: "func (c *RPCClient) deregisterHandler(", Old: "\tc.dispatchLock.Lock()\n", New: "\tif c.IsClosed() {\n\t\treturn\n\t}\n\tc.dispatchLock.Lock()\n", Expect: "R2|deregisterHandler:always-removes"},
			{Name: "close-check-outside-section", File: "client/rpc_client.go", Func: "func (c *RPCClient) Close(", Old: "\tc.shutdownLock.Lock()\n\tdefer c.shutdownLock.Unlock()\n\n\tif !c.shutdown {\n", New: "\tif c.IsClosed() {\n\t\treturn nil\n\t}\n\tc.shutdownLock.Lock()\n\tdefer c.shutdownLock.Unlock()\n\n\tif true {\n", Expect: "R2|RPCClient:shutdownCh-closed-once"},
			{Name: "cleanup-skips-close-before-init", File: "client/rpc_client.go", Func: "func (mh *monitorHandler) Cleanup(", Old: "\tmh.l.Lock()\n\tdefer mh.l.Unlock()\n", New: "\tmh.l.Lock()\n\tdefer mh.l.Unlock()\n\tif !mh.closed && !mh.init {\n\t\tmh.closed = true\n\t\treturn\n\t}\n", Expect: "R2|monitorHandler:cleanup-always-closes"},
			{Name: "monitor-send-unlocked", File: "client/rpc_client.go", Func: "func (mh *monitorHandler) Handle(", Old: "\tmh.l.Lock()\n\tdefer mh.l.Unlock()\n\tif mh.closed {\n\t\treturn\n\t}\n", New: "\tif mh.closed {\n\t\treturn\n\t}\n", Expect: "R1"},
			{Name: "stream-send-ignores-closed", File: "client/rpc_client.go", Func: "func (sh *streamHandler) Handle(", Old: "\tif sh.closed {\n\t\treturn\n\t}\n", New: "", Expect: "R1"},
			{Name: "query-cleanup-unlocked", File: "client/rpc_client.go", Func: "func (qh *queryHandler) Cleanup(", Old: "\tqh.l.Lock()\n\tdefer qh.l.Unlock()\n", New: "", Expect: "R"},
			{Name: "cleanup-closes-twice", File: "client/rpc_client.go", Func: "func (sh *streamHandler) Cleanup(", Old: "\t\tsh.closed = true\n", New: "", Expect: "R2"},
			{Name: "cleanup-without-removal", File: "client/rpc_client.go", Func: "func (c *RPCClient) deregisterHandler(", Old: "\tdelete(c.dispatch, seq)\n", New: "", Expect: "R2"},
			{Name: "query-ack-after-close", File: "client/rpc_client.go", Func: "func (qh *queryHandler) Handle(", Old: "\t\tqh.l.Lock()\n\t\tif !qh.closed {\n\t\t\tselect {\n\t\t\tcase qh.ackCh <- rec.From:", New: "\t\tqh.l.Lock()\n\t\tif !qh.closed || rec.From != \"\" {\n\t\t\tselect {\n\t\t\tcase qh.ackCh <- rec.From:", Expect: "R1"},
			{Name: "handle-calls-cleanup-directly", File: "client/rpc_client.go", Func: "func (mh *monitorHandler) Handle(", Old: "\t\tmh.client.deregisterHandler(mh.seq)\n", New: "\t\tmh.Cleanup()\n", Expect: "R2"},
		},
	})
}

func runC28(c *an.Ctx) {
	c.Rule("R1 per handler type: every send on a subscriber channel and its close happen with the handler's mutex held; the send is behind closed==false in that section; closed/init only accessed under the mutex")
	c.Rule("R2 exactly-once cleanup: close behind !closed with closed=true stored in the same section; Cleanup invoked only by deregisterHandler/deregisterAll, for entries removed from dispatch under dispatchLock")
	c.Rule("R3 panic obligations (C09's engine) on listen → respondSeq → Handle with the connection bytes as input")
	locks := an.NewLocks(c.P)
	fns := c.P.FuncsIn(clientPkg)
	// every failing or finishing call path relies on deregisterHandler to run the handler's Cleanup: it must
	// look the entry up on every path (no state of the client lets it return early)
	if dh := c.P.Method(clientPkg, "RPCClient", "deregisterHandler"); c.NeedFunc("R2", dh, "client.(*RPCClient).deregisterHandler") {
		isDel := func(in ssa.Instruction) bool {
			call, ok := in.(*ssa.Call)
			if !ok {
				return false
			}
			b, ok := call.Call.Value.(*ssa.Builtin)
			return ok && b.Name() == "delete" && an.Path(call.Call.Args[0]) == "$0.dispatch"
		}
		okAlways, ex := an.MustPass(dh, nil, isDel)
		c.Add(okAlways, "R2", "deregisterHandler:always-removes", dh, "deregisterHandler removes (and then cleans up) the entry on every path: a handler registered around Close is still closed exactly once", "must-pass")
		if !okAlways && ex != nil {
			c.Obs[len(c.Obs)-1].Desc += " — exit without it at " + c.P.InstrPos(ex)
		}
	}
	handlers := map[string][]string{"monitorHandler": {"logCh"}, "streamHandler": {"eventCh"}, "queryHandler": {"ackCh", "respCh"}}
	for typ, chans := range handlers {
		lk := typ + ".l"
		cl := c.P.Method(clientPkg, typ, "Cleanup")
		hd := c.P.Method(clientPkg, typ, "Handle")
		if !c.NeedFunc("R1", cl, "client.("+typ+").Cleanup") || !c.NeedFunc("R1", hd, "client.("+typ+").Handle") {
			continue
		}
		notClosed := an.Cmp{L: "$0.closed", Op: "==", R: "c:false"}
		for _, ch := range chans {
			nS, nC := 0, 0
			for _, a := range an.FieldAccesses(fns, typ, ch) {
				fn := an.FuncName(a.Fn)
				switch a.Kind {
				case "send":
					nS++
					c.Add(locks.Held(a.Instr).HasW(lk), "R1", typ+":send-locked:"+ch, a.Instr, "send on "+typ+"."+ch+" with the handler's mutex held", "must-held lockset")
					c.Add(an.GuardedBy(a.Fn, a.Instr, notClosed), "R1", typ+":send-not-closed:"+ch, a.Instr, "send on "+typ+"."+ch+" only when closed is false", "edge dominance")
					// closed is read inside the section that contains the send
					okSec := true
					for _, e := range an.EdgesImplying(a.Fn, notClosed) {
						last := e.From.Instrs[len(e.From.Instrs)-1]
						if an.Guarded(a.Fn, a.Instr, []an.Edge{e}) && !locks.Held(last).HasW(lk) {
							okSec = false
						}
					}
					why := guardReadInSection(a.Fn, a.Instr, notClosed, lk)
					c.Add(okSec && why == "", "R1", typ+":closed-read-in-section:"+ch, a.Instr, "the closed flag is read inside the critical section of the send "+why, "lockset at the test + no release between test and send")
					if sel, ok := a.Instr.(*ssa.Select); ok {
						c.Add(!sel.Blocking, "R1", typ+":send-non-blocking:"+ch, a.Instr, "the send never blocks while the mutex is held", "select shape")
					}
				case "close":
					nC++
					c.Add(fn == "(*"+typ+").Cleanup", "R2", typ+":close-owner:"+ch, a.Instr, typ+"."+ch+" is closed only by Cleanup", "who-may-close")
					c.Add(locks.Held(a.Instr).HasW(lk), "R1", typ+":close-locked:"+ch, a.Instr, "close of "+typ+"."+ch+" with the handler's mutex held", "must-held lockset")
					c.Add(an.GuardedBy(a.Fn, a.Instr, notClosed), "R2", typ+":close-once:"+ch, a.Instr, "close only when not yet closed", "edge dominance")
					ok, _ := an.MustPass(a.Fn, a.Instr, func(in ssa.Instruction) bool {
						s, isS := in.(*ssa.Store)
						return isS && an.Path(s.Addr) == "&$0.closed" && an.IsConstBool(s.Val, true)
					})
					c.Add(ok, "R2", typ+":close-sets-flag:"+ch, a.Instr, "after the close, closed=true is stored on every path (same critical section)", "must-pass")
				case "store":
					c.Add(a.Init, "R1", typ+":chan-assigned:"+ch, a.Instr, ch+" is only assigned at construction", "init store")
				}
			}
			// exactly once also means: not zero times. Every way through Cleanup that finds the handler
			// not yet closed closes this channel (an early return would leave the subscriber blocked for ever)
			isClose := func(in ssa.Instruction) bool {
				call, ok := in.(*ssa.Call)
				if !ok {
					return false
				}
				b, ok := call.Call.Value.(*ssa.Builtin)
				return ok && b.Name() == "close" && an.Path(call.Call.Args[0]) == "$0."+ch
			}
			already := an.EdgesImplying(cl, an.Cmp{L: "$0.closed", Op: "==", R: "c:true"})
			already = append(already, an.EdgesImplying(cl, an.Cmp{L: "$0." + ch, Op: "==", R: "c:nil"})...) // no channel was requested
			esc := an.ReachFrom(cl, nil, &an.Cut{Edges: already, Instrs: isClose}, func(in ssa.Instruction) bool {
				return an.IsExit(in) && in.Block().Comment != "recover"
			})
			c.Add(esc == nil, "R2", typ+":cleanup-always-closes:"+ch, cl, "every path through Cleanup on a not-yet-closed handler closes "+typ+"."+ch, "must-pass (reach/cut) from entry to the exits")
			c.Floor("R1", "sends on "+typ+"."+ch, nS, 1)
			c.Floor("R2", "closes of "+typ+"."+ch, nC, 1)
		}
		for _, f := range []string{"closed", "init"} {
			for _, a := range an.FieldAccesses(fns, typ, f) {
				if a.Init {
					continue
				}
				c.Add(locks.Held(a.Instr).HasW(lk), "R1", typ+":flag-write-locked:"+f+":"+an.FuncName(a.Fn), a.Instr, "write of "+typ+"."+f+" under the handler's mutex", "must-held lockset")
			}
			for _, r := range an.FieldReads(fns, typ, f) {
				c.Add(locks.Held(r).HasW(lk), "R1", typ+":flag-read-locked:"+f+":"+an.FuncName(r.Parent()), r, "read of "+typ+"."+f+" under the handler's mutex", "must-held lockset")
			}
		}
		// the mutex is not held across the re-entrant deregistration (which calls Cleanup)
		for _, call := range an.CallsTo(hd, "(*RPCClient).deregisterHandler") {
			c.Add(!locks.Held(call).HasW(lk), "R2", typ+":no-self-deadlock", call, "Handle does not hold its mutex when it deregisters itself (Cleanup takes the same mutex)", "lockset")
		}
	}
	// the client's own shutdown channel: closed behind shutdown == false read in the very critical section that
	// closes it (two racing Close calls must not both see "not yet shut down")
	nSh := 0
	for _, a := range an.FieldAccesses(fns, "RPCClient", "shutdownCh") {
		if a.Kind != "close" {
			continue
		}
		nSh++
		why := guardReadInSection(a.Fn, a.Instr, an.Cmp{L: "$0.shutdown", Op: "==", R: "c:false"}, "RPCClient.shutdownLock")
		c.Add(locks.Held(a.Instr).HasW("RPCClient.shutdownLock") && why == "", "R2", "RPCClient:shutdownCh-closed-once", a.Instr, "shutdownCh is closed under shutdownLock, behind shutdown == false tested in that same section "+why, "lockset + check-then-act in one section")
		ok, _ := an.MustPassTo(a.Fn, nil, func(in ssa.Instruction) bool {
			st, isS := in.(*ssa.Store)
			return isS && an.Path(st.Addr) == "&$0.shutdown" && an.IsConstBool(st.Val, true)
		}, func(in ssa.Instruction) bool { return in == a.Instr })
		c.Add(ok, "R2", "RPCClient:shutdown-flag-before-close", a.Instr, "shutdown = true is stored before the channel is closed (in the same section)", "must-pass")
	}
	c.Floor("R2", "closes of RPCClient.shutdownCh", nSh, 1)
	// R2 who invokes Cleanup
	nInv := 0
	for _, fn := range fns {
		an.Instrs(fn, func(in ssa.Instruction) {
			cc := an.CallOf(in)
			if cc == nil {
				return
			}
			isCleanup := cc.IsInvoke() && cc.Method.Name() == "Cleanup"
			if f := an.StaticCallee(cc); f != nil && f.Name() == "Cleanup" && an.PkgPathOf(f) == clientPkg {
				isCleanup = true
			}
			if !isCleanup {
				return
			}
			nInv++
			name := an.FuncName(fn)
			switch name {
			case "(*RPCClient).deregisterHandler":
				// the entry was deleted from dispatch under the lock before
				var del ssa.Instruction
				an.Instrs(fn, func(x ssa.Instruction) {
					if call, ok := x.(*ssa.Call); ok {
						if b, ok := call.Call.Value.(*ssa.Builtin); ok && b.Name() == "delete" && an.Path(call.Call.Args[0]) == "$0.dispatch" && an.Path(call.Call.Args[1]) == "$1" {
							del = x
						}
					}
				})
				ok := del != nil && an.Dominates(del, in) && locks.Held(del).HasW("RPCClient.dispatchLock") &&
					an.GuardedBy(fn, in, an.Cmp{L: "$0.dispatch[$1]#1", Op: "==", R: "c:true"}) && an.Path(cc.Value) == "$0.dispatch[$1]#0"
				c.Add(ok, "R2", "Cleanup-caller:deregisterHandler", in, "deregisterHandler cleans up exactly the entry it removed from the dispatch table under dispatchLock", "dominance + lockset + receiver path")
			case "(*RPCClient).deregisterAll":
				held := locks.Held(in).HasW("RPCClient.dispatchLock")
				repl := false
				for _, a := range an.FieldAccesses([]*ssa.Function{fn}, "RPCClient", "dispatch") {
					if a.Kind == "store" {
						if _, isMk := a.Val.(*ssa.MakeMap); isMk && locks.Held(a.Instr).HasW("RPCClient.dispatchLock") {
							okMP, _ := an.MustPass(fn, nil, func(x ssa.Instruction) bool { return x == a.Instr })
							repl = okMP
						}
					}
				}
				c.Add(held && repl && strings.HasPrefix(an.Path(cc.Value), "next(range($0.dispatch))"), "R2", "Cleanup-caller:deregisterAll", in, "deregisterAll cleans up every entry and replaces the table inside one dispatchLock section", "lockset + must-pass")
			default:
				c.Add(false, "R2", "Cleanup-caller:"+name, in, "Cleanup invoked outside the deregistration functions (an entry still in the dispatch table could be cleaned up twice)", "")
			}
		})
	}
	c.Floor("R2", "Cleanup invocation sites", nInv, 2)
	// dispatch table only under its lock
	for _, a := range an.FieldAccesses(fns, "RPCClient", "dispatch") {
		if a.Init {
			continue
		}
		c.Add(locks.Held(a.Instr).HasW("RPCClient.dispatchLock"), "R2", "dispatch-write-locked:"+an.FuncName(a.Fn)+":"+a.Kind, a.Instr, a.Kind+" on the dispatch table under dispatchLock", "must-held lockset")
	}

	// R3 panic obligations on the record path
	ls := c.P.Method(clientPkg, "RPCClient", "listen")
	if c.NeedFunc("R3", ls, "client.(*RPCClient).listen") {
		cg := an.NewCG(c.P)
		reach := cg.Reachable([]*ssa.Function{ls}, func(f *ssa.Function) bool { return an.PkgPathOf(f) != clientPkg })
		var rf []*ssa.Function
		for f := range reach {
			if f.Blocks != nil {
				rf = append(rf, f)
			}
		}
		sort.Slice(rf, func(i, j int) bool { return rf[i].Pos() < rf[j].Pos() })
		c.Floor("R3", "functions on the record path", len(rf), 8)
		d := &discharger{c: c, cg: cg, reach: reach}
		for _, fn := range rf {
			for _, o := range enumPanics(fn) {
				how := d.discharge(o)
				if how == "" && o.kind == "P8" {
					continue
				}
				key := an.FuncName(fn) + ":" + o.kind
				if how == "" {
					how = clientDischarge(c, o)
				}
				if how != "" {
					c.Add(true, "R3", key, o.in, o.desc, how)
				} else {
					c.Undecided("R3", key, o.in, o.desc+" — no discharge rule applies")
				}
			}
		}
	}
}

// clientDischarge holds the few extra idioms of the client package.
func clientDischarge(c *an.Ctx, o pob) string {
	switch o.kind {
	case "P5":
		mu := o.in.(*ssa.MapUpdate)
		if t, f, ok := an.LoadedField(mu.Map); ok && t == "RPCClient" && f == "dispatch" {
			all := true
			for _, a := range an.FieldAccesses(c.P.FuncsIn(clientPkg), t, f) {
				if a.Kind == "store" {
					if _, isMk := a.Val.(*ssa.MakeMap); !isMk {
						all = false
					}
				}
			}
			if all {
				return "D13 every store to RPCClient.dispatch is a freshly made map"
			}
		}
	case "P3":
		ta := o.in.(*ssa.TypeAssert)
		_ = ta
	case "P1":
		if ia, ok := o.in.(*ssa.IndexAddr); ok {
			if al, ok := ia.X.(*ssa.Alloc); ok {
				if _, isArr := al.Type().Underlying().(*types.Pointer).Elem().Underlying().(*types.Array); isArr {
					return ""
				}
			}
		}
	}
	return ""
}
