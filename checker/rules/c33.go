package rules

import (
	"strings"

	"serfcheck/an"

	"golang.org/x/tools/go/ssa"
)

// C33 Nothing larger than the configured limits is ever sent.
func init() {
	register(&Rule{
		ID:      "C33",
		Explain: "Decides the structural clause of C33: every effect of UserEvent (local handling, broadcast enqueue), of Query (registration, local handling, enqueue) and every SendToAddress of a locally built response is edge-dominated by the size comparisons the property names, on the value that is actually sent (same access path / SSA value), and Create rejects a configured user-event limit above the hard limit. Holds for every input because it is a statement about all CFG paths. Does not decide what memberlist does with the bytes.",
		Run:     runC33,
		Mutants: []Mutant{
			{Name: "rename-locals", Equivalent: true, Regexp: true, File: "serf/serf.go", Func: "func (s *Serf) handleQuery(", Old: `\b(ack|raw|rebroadcast|seen)\b`, New: "${1}Renamed"},
			{Name: "userevent-drop-hard-limit-after", File: "serf/serf.go", Func: "func (s *Serf) UserEvent(", Old: "if len(raw) > UserEventSizeLimit {", New: "if false && len(raw) > UserEventSizeLimit {", Expect: "R1"},
			{Name: "userevent-drop-config-limit-before", File: "serf/serf.go", Func: "func (s *Serf) UserEvent(", Old: "if payloadSizeBeforeEncoding > s.config.UserEventSizeLimit {", New: "if payloadSizeBeforeEncoding > s.config.UserEventSizeLimit*2 {", Expect: "R1"},
			{Name: "userevent-handle-before-check", File: "serf/serf.go", Func: "func (s *Serf) UserEvent(", Old: "\tif len(raw) > s.config.UserEventSizeLimit {", New: "\ts.handleUserEvent(&msg)\n\tif len(raw) > s.config.UserEventSizeLimit {", Expect: "R1"},
			{Name: "query-strictness", File: "serf/serf.go", Func: "func (s *Serf) Query(", Old: "if len(raw) > s.config.QuerySizeLimit {", New: "if len(raw) > s.config.QuerySizeLimit+1 {", Expect: "R2"},
			{Name: "query-register-before-check", File: "serf/serf.go", Func: "func (s *Serf) Query(", Old: "\t// Check the size\n", New: "\ts.registerQueryResponse(params.Timeout, newQueryResponse(1, &q))\n", Expect: "R2"},
			{Name: "respond-skip-size-check", File: "serf/event.go", Func: "func (q *Query) respondWithMessageAndResponse(", Old: "if err := q.checkResponseSize(raw); err != nil {", New: "if err := q.checkResponseSize(raw); err != nil && len(raw) == 0 {", Expect: "R3"},
			{Name: "checkResponseSize-wrong-limit", File: "serf/event.go", Func: "func (q *Query) checkResponseSize(", Old: "len(resp) > q.serf.config.QueryResponseSizeLimit", New: "len(resp) > q.serf.config.QuerySizeLimit", Expect: "R3"},
			{Name: "relay-drop-size-check", File: "serf/query.go", Func: "func (s *Serf) relayResponse(", Old: "if len(raw) > s.config.QueryResponseSizeLimit {", New: "if len(raw) > s.config.QueryResponseSizeLimit && relayFactor > 200 {", Expect: "R3"},
			{Name: "create-accepts-large-limit", File: "serf/serf.go", Func: "func Create(", Old: "if conf.UserEventSizeLimit > UserEventSizeLimit {", New: "if conf.UserEventSizeLimit > UserEventSizeLimit*2 {", Expect: "R4"},
			{Name: "equiv-userevent-nested", File: "serf/serf.go", Func: "func (s *Serf) UserEvent(", Equivalent: true,
				Old: "\t// Process update locally\n\ts.handleUserEvent(&msg)\n\n\ts.eventBroadcasts.QueueBroadcast(&broadcast{\n\t\tmsg: raw,\n\t})\n\treturn nil",
				New: "\tif n := len(raw); n <= UserEventSizeLimit {\n\t\ts.handleUserEvent(&msg)\n\t\ts.eventBroadcasts.QueueBroadcast(&broadcast{\n\t\t\tmsg: raw,\n\t\t})\n\t}\n\treturn nil"},
		},
	})
}

const hardLimit = "c:9216"

func runC33(c *an.Ctx) {
	c.Rule("R1 UserEvent: handleUserEvent and QueueBroadcast are edge-dominated by (len(name)+len(payload)) <= {config.UserEventSizeLimit, 9216} and len(raw) <= {config.UserEventSizeLimit, 9216}; raw is the encoding of the handled message and the enqueued bytes")
	c.Rule("R2 Query: registerQueryResponse, handleQuery, QueueBroadcast dominated by len(raw) <= config.QuerySizeLimit on the enqueued raw")
	c.Rule("R3 every SendToAddress of a locally built response sends a buffer that passed <= config.QueryResponseSizeLimit (helper summary for checkResponseSize)")
	c.Rule("R4 Create rejects conf.UserEventSizeLimit > 9216 before constructing anything")

	// ---- R1
	if fn := sm(c, "R1", "Serf", "UserEvent"); fn != nil {
		handle := an.CallsTo(fn, "(*Serf).handleUserEvent")
		enq := an.CallsTo(fn, "memberlist.(*TransmitLimitedQueue).QueueBroadcast")
		c.Floor("R1", "effects in UserEvent", len(handle)+len(enq), 2)
		enc := an.CallsTo(fn, "encodeMessage")
		if len(enc) != 1 {
			c.Anchor("R1", "exactly one encodeMessage call in UserEvent")
		} else {
			raw := an.Path(enc[0].(*ssa.Call)) + "#0"
			sum := "(len($1)+len($2))"
			sum2 := "(len($2)+len($1))"
			lim := "$0.config.UserEventSizeLimit"
			for _, eff := range append(append([]ssa.Instruction{}, handle...), enq...) {
				name := an.CalleeName(an.StaticCallee(an.CallOf(eff)))
				c.Add(anyGuard(fn, eff, an.Cmp{sum, "<=", lim}, an.Cmp{sum2, "<=", lim}), "R1", "UserEvent:"+name+":pre<=config", eff, "name+payload length within configured limit before "+name, "edge dominance")
				c.Add(anyGuard(fn, eff, an.Cmp{sum, "<=", hardLimit}, an.Cmp{sum2, "<=", hardLimit}), "R1", "UserEvent:"+name+":pre<=hard", eff, "name+payload length within 9216 before "+name, "edge dominance")
				c.Add(anyGuard(fn, eff, an.Cmp{"len(" + raw + ")", "<=", lim}), "R1", "UserEvent:"+name+":raw<=config", eff, "encoded length within configured limit before "+name, "edge dominance")
				c.Add(anyGuard(fn, eff, an.Cmp{"len(" + raw + ")", "<=", hardLimit}), "R1", "UserEvent:"+name+":raw<=hard", eff, "encoded length within 9216 before "+name, "edge dominance")
			}
			// identity: handled message == encoded message; enqueued bytes == raw
			encMsg := an.Path(enc[0].(*ssa.Call).Call.Args[1])
			for _, h := range handle {
				got := an.Path(an.CallOf(h).Args[1])
				c.Add(got == encMsg, "R1", "UserEvent:handled==encoded", h, "the message handled locally is the message that was encoded and size-checked ("+got+" vs "+encMsg+")", "same access path")
			}
			checkBroadcastMsg(c, "R1", fn, enq, raw)
		}
	}

	// ---- R2
	if fn := sm(c, "R2", "Serf", "Query"); fn != nil {
		effs := an.CallsTo(fn, "(*Serf).registerQueryResponse", "(*Serf).handleQuery", "memberlist.(*TransmitLimitedQueue).QueueBroadcast")
		c.Floor("R2", "effects in Query", len(effs), 3)
		enc := an.CallsTo(fn, "encodeMessage")
		if len(enc) != 1 {
			c.Anchor("R2", "exactly one encodeMessage call in Query")
		} else {
			raw := an.Path(enc[0].(*ssa.Call)) + "#0"
			for _, eff := range effs {
				name := an.CalleeName(an.StaticCallee(an.CallOf(eff)))
				c.Add(anyGuard(fn, eff, an.Cmp{"len(" + raw + ")", "<=", "$0.config.QuerySizeLimit"}), "R2", "Query:"+name, eff, "encoded query within QuerySizeLimit before "+name, "edge dominance")
			}
			checkBroadcastMsg(c, "R2", fn, an.CallsTo(fn, "memberlist.(*TransmitLimitedQueue).QueueBroadcast"), raw)
			encMsg := an.Path(enc[0].(*ssa.Call).Call.Args[1])
			for _, h := range an.CallsTo(fn, "(*Serf).handleQuery") {
				got := an.Path(an.CallOf(h).Args[1])
				c.Add(got == encMsg, "R2", "Query:handled==encoded", h, "the query handled locally is the one encoded and size-checked", "same access path")
			}
		}
	}

	// ---- R3: all SendToAddress sites in package serf
	var sites []ssa.Instruction
	for _, fn := range c.P.FuncsIn(serf) {
		sites = append(sites, an.CallsTo(fn, "memberlist.(*Memberlist).SendToAddress")...)
	}
	c.Floor("R3", "SendToAddress sites in package serf", len(sites), 4)
	// summary of the helper: checkResponseSize(x) returns nil only when len(x) <= limit
	helperOK := false
	if h := sm(c, "R3", "Query", "checkResponseSize"); h != nil {
		helperOK = true
		for _, r := range an.Returns(h) {
			vals := an.ResultValues(r)
			if len(vals) == 1 && an.IsNilConst(vals[0]) {
				ok := anyGuard(h, r, an.Cmp{"len($1)", "<=", "$0.serf.config.QueryResponseSizeLimit"})
				c.Add(ok, "R3", "checkResponseSize:nil-result", r, "checkResponseSize returns nil only when len(resp) <= config.QueryResponseSizeLimit", "edge dominance on the nil return")
				helperOK = helperOK && ok
			}
		}
	}
	for _, s := range sites {
		fn := s.Parent()
		fname := an.FuncName(fn)
		buf := an.Path(an.CallOf(s).Args[2])
		switch fname {
		case "(*Query).respondWithMessageAndResponse":
			// direct reply: raw ($1) passed the helper
			ok := buf == "$1" && anyGuard(fn, s, an.Cmp{"(*Query).checkResponseSize($0,$1)", "==", "c:nil"})
			c.Add(ok && helperOK, "R3", fname+":direct-reply", s, "direct reply buffer passed checkResponseSize on the same value", "helper summary + edge dominance")
		case "(*Serf).relayResponse":
			ok := anyGuard(fn, s, an.Cmp{"len(" + buf + ")", "<=", "$0.config.QueryResponseSizeLimit"}) && strings.HasPrefix(buf, "encodeRelayMessage(")
			c.Add(ok, "R3", fname+":relay-copy", s, "relayed copy within QueryResponseSizeLimit (same value as sent: "+buf+")", "edge dominance")
		case "(*Serf).handleQuery":
			c.Exemption("(*Serf).handleQuery SendToAddress", "direct ack carries no payload; the property's response clause is about Respond")
			c.Add(strings.HasPrefix(buf, "encodeMessage(c:5,&local:messageQueryResponse"), "R3", fname+":ack-exempt", s, "exempt site is the ack built in handleQuery (buffer "+buf+")", "named exemption")
		case "(*delegate).NotifyMsg":
			c.Exemption("(*delegate).NotifyMsg SendToAddress", "relay forwarder re-sends bytes that arrived in one packet; it builds nothing")
			c.Add(strings.HasPrefix(buf, "make:slice("), "R3", fname+":forwarder-exempt", s, "exempt site forwards the remainder of the received buffer ("+buf+")", "named exemption")
		default:
			c.Undecided("R3", fname+":unknown-send", s, "SendToAddress site not covered by the rule table")
		}
	}
	// Respond goes through respondWithMessageAndResponse only
	if fn := sm(c, "R3", "Query", "Respond"); fn != nil {
		calls := an.CallsTo(fn, "(*Query).respondWithMessageAndResponse")
		c.Add(len(calls) == 1 && len(an.CallsTo(fn, "memberlist.(*Memberlist).SendToAddress")) == 0, "R3", "Respond:via-checked-path", fn, "Respond sends only through respondWithMessageAndResponse", "call enumeration")
	}

	// ---- R4
	if fn := sf(c, "R4", "Create"); fn != nil {
		// every successful return (non-nil *Serf) is guarded by conf.UserEventSizeLimit <= 9216
		n := 0
		for _, r := range an.Returns(fn) {
			vals := an.ResultValues(r)
			if len(vals) == 2 && !an.IsNilConst(vals[0]) {
				n++
				c.Add(anyGuard(fn, r, an.Cmp{"$0.UserEventSizeLimit", "<=", hardLimit}), "R4", "Create:success-return", r, "successful Create implies conf.UserEventSizeLimit <= 9216", "edge dominance")
			}
		}
		c.Floor("R4", "successful returns of Create", n, 1)
		for _, mk := range an.CallsTo(fn, "memberlist.Create") {
			c.Add(anyGuard(fn, mk, an.Cmp{"$0.UserEventSizeLimit", "<=", hardLimit}), "R4", "Create:memberlist.Create", mk, "memberlist is only created after the limit check", "edge dominance")
		}
	}
}

// checkBroadcastMsg checks that the broadcast enqueued carries exactly raw.
func checkBroadcastMsg(c *an.Ctx, rule string, fn *ssa.Function, enq []ssa.Instruction, raw string) {
	for _, e := range enq {
		arg := an.CallOf(e).Args[1] // &broadcast{...}
		base := an.Path(arg)
		found := false
		for _, st := range an.StoresTo(fn, ".msg") {
			if strings.HasPrefix(an.Path(st.Addr), base) {
				found = an.Path(st.Val) == raw
			}
		}
		c.Add(found, rule, an.FuncName(fn)+":enqueued==checked", e, "the enqueued broadcast carries the size-checked buffer "+raw, "same access path stored into broadcast.msg")
	}
}
