package rules

import (
	"go/types"
	"sort"
	"strings"

	"serfcheck/an"

	"golang.org/x/tools/go/ssa"
)

func init() {
	register(&Rule{
		ID:      "C29",
		Explain: "Decides the locking discipline that makes agent log delivery complete and ordered for any number of concurrent writers: GatedWriter's buffer and gate flag are written only with its lock held exclusively and read only with it held; opening the gate and draining the buffer to the underlying writer happen inside one exclusive critical section, so no later line can overtake a buffered one and no buffered append can race with another; the pass-through write happens with the lock held behind flush==true. The log ring (logs, index, handlers) is accessed only under its mutex; a new monitor is registered and replayed (oldest first: index..end when wrapped, then 0..index) inside one critical section that Write also takes. The monitor's own 512-entry channel dropping is not covered.",
		Run:     runC29,
		Mutants: []Mutant{
			{Name: "flush-aborts-on-write-error", File: "cmd/serf/command/agent/gated_writer.go", Func: "func (w *GatedWriter) Flush(", Old: "\t\t_, _ = w.Writer.Write(p)\n", New: "\t\tif _, err := w.Writer.Write(p); err != nil {\n\t\t\tw.flush = false\n\t\t\treturn\n\t\t}\n", Expect: "R1|Flush:clears-buffer-on-every-exit"},
			{Name: "no-backlog-when-index-zero", File: "cmd/serf/command/agent/log_writer.go", Func: "func (l *logWriter) RegisterHandler(", Old: "\tif l.logs[l.index] != \"\" {\n", New: "\tif l.index == 0 {\n\t\treturn\n\t}\n\tif l.logs[l.index] != \"\" {\n", Expect: "R2|RegisterHandler:replay-unconditional"},
			{Name: "gated-write-under-rlock", File: "cmd/serf/command/agent/gated_writer.go", Func: "func (w *GatedWriter) Write(", Old: "\tw.lock.Lock()\n\tdefer w.lock.Unlock()\n", New: "\tw.lock.RLock()\n\tdefer w.lock.RUnlock()\n", Expect: "R1"},
			{Name: "flush-drains-after-unlock", File: "cmd/serf/command/agent/gated_writer.go", Func: "func (w *GatedWriter) Flush(", Old: "\tw.lock.Lock()\n\tdefer w.lock.Unlock()\n\n\tw.flush = true\n", New: "\tw.lock.Lock()\n\tw.flush = true\n\tw.lock.Unlock()\n", Expect: "R1"},
			{Name: "stale-gate-check", File: "cmd/serf/command/agent/gated_writer.go", Func: "func (w *GatedWriter) Write(", Old: "\tw.lock.Lock()\n\tdefer w.lock.Unlock()\n\n\tif w.flush {\n\t\treturn w.Writer.Write(p)\n\t}\n", New: "\tw.lock.RLock()\n\tif w.flush {\n\t\tdefer w.lock.RUnlock()\n\t\treturn w.Writer.Write(p)\n\t}\n\tw.lock.RUnlock()\n\tw.lock.Lock()\n\tdefer w.lock.Unlock()\n", Expect: "R1|Write:buffers-only-while-closed"},
			{Name: "fast-path-with-recheck", Equivalent: true, File: "cmd/serf/command/agent/gated_writer.go", Func: "func (w *GatedWriter) Write(", Old: "\tw.lock.Lock()\n\tdefer w.lock.Unlock()\n\n\tif w.flush {\n", New: "\tw.lock.RLock()\n\tif w.flush {\n\t\tdefer w.lock.RUnlock()\n\t\treturn w.Writer.Write(p)\n\t}\n\tw.lock.RUnlock()\n\tw.lock.Lock()\n\tdefer w.lock.Unlock()\n\n\tif w.flush {\n"},
			{Name: "logwriter-unlocked-register", File: "cmd/serf/command/agent/log_writer.go", Func: "func (l *logWriter) RegisterHandler(", Old: "\tl.Lock()\n\tdefer l.Unlock()\n\n\t// Do nothing if already registered\n", New: "\t// Do nothing if already registered\n", Expect: "R"},
			{Name: "replay-newest-first", File: "cmd/serf/command/agent/log_writer.go", Func: "func (l *logWriter) RegisterHandler(", Old: "\tif l.logs[l.index] != \"\" {\n\t\tfor i := l.index; i < len(l.logs); i++ {\n\t\t\tlh.HandleLog(l.logs[i])\n\t\t}\n\t}\n\tfor i := 0; i < l.index; i++ {\n\t\tlh.HandleLog(l.logs[i])\n\t}\n", New: "\tfor i := 0; i < l.index; i++ {\n\t\tlh.HandleLog(l.logs[i])\n\t}\n\tif l.logs[l.index] != \"\" {\n\t\tfor i := l.index; i < len(l.logs); i++ {\n\t\t\tlh.HandleLog(l.logs[i])\n\t\t}\n\t}\n", Expect: "R2"},
			{Name: "register-after-replay-unlocked", File: "cmd/serf/command/agent/log_writer.go", Func: "func (l *logWriter) RegisterHandler(", Old: "\t// Register\n\tl.handlers[lh] = struct{}{}\n", New: "\t// Register\n\tdefer func() { l.handlers[lh] = struct{}{} }()\n", Expect: "R2"},
			{Name: "ring-index-not-advanced", File: "cmd/serf/command/agent/log_writer.go", Func: "func (l *logWriter) Write(", Old: "l.index = (l.index + 1) % len(l.logs)", New: "l.index = (l.index + 1) % (len(l.logs) - 1)", Expect: "R2"},
		},
	})
	register(&Rule{
		ID:      "C30",
		Explain: "Decides the tag-edit and persistence clauses structurally: the RPC tags handler builds a fresh map (no alias of the live tags), copies an old tag only behind 'key not among the deleted keys' (the flag is only ever raised by key equality over the whole delete list), and copies the set keys after the old-tag loop (set wins), then hands that map to SetTags; the agent persists what is in effect: the value written to the tags file is read back from the Serf configuration after Serf's SetTags ran (so after a rejected edit the file still equals the effective tags), or the write is behind SetTags' nil result; loader and writer agree on a JSON object of strings.",
		Run:     runC30,
		Mutants: []Mutant{
			{Name: "persist-before-validation", File: "cmd/serf/command/agent/agent.go", Func: "func (a *Agent) SetTags(", Old: "a.writeTagsFile(a.conf.Tags)", New: "a.writeTagsFile(tags)", Expect: "R2"},
			{Name: "no-persist-when-serf-errs", File: "cmd/serf/command/agent/agent.go", Func: "func (a *Agent) SetTags(", Old: "\terr := a.serf.SetTags(tags)\n", New: "\terr := a.serf.SetTags(tags)\n\tif err != nil {\n\t\treturn err\n\t}\n", Expect: "R2|SetTags:persists-on-every-exit"},
			{Name: "delete-only-last-key", File: "cmd/serf/command/agent/ipc.go", Func: "func (i *AgentIPC) handleTags(", Old: "delTag = (delTag || delkey == key)", New: "delTag = (delkey == key)", Expect: "R1"},
			{Name: "old-tags-win", File: "cmd/serf/command/agent/ipc.go", Func: "func (i *AgentIPC) handleTags(", Old: "\ttags := make(map[string]string)\n\n", New: "\ttags := make(map[string]string)\n\tmaps.Copy(tags, req.Tags)\n\n", Expect: "R1"},
			{Name: "edit-live-map", File: "cmd/serf/command/agent/ipc.go", Func: "func (i *AgentIPC) handleTags(", Old: "\ttags := make(map[string]string)\n", New: "\ttags := i.agent.SerfConfig().Tags\n", Expect: "R1"},
			{Name: "empty-tags-not-persisted", File: "cmd/serf/command/agent/agent.go", Func: "func (a *Agent) writeTagsFile(", Old: "\tencoded, err := json.MarshalIndent(tags, \"\", \"  \")\n", New: "\tif len(tags) == 0 {\n\t\treturn nil\n\t}\n\tencoded, err := json.MarshalIndent(tags, \"\", \"  \")\n", Expect: "R3|writeTagsFile:nil-means-written"},
			{Name: "loader-different-shape", File: "cmd/serf/command/agent/agent.go", Func: "func (a *Agent) writeTagsFile(", Old: "json.MarshalIndent(tags, \"\", \"  \")", New: "json.MarshalIndent(MarshalTags(tags), \"\", \"  \")", Expect: "R3"},
		},
	})
	register(&Rule{
		ID:      "C31",
		Explain: "Decides configuration layering structurally: MergeConfig assigns every field of Config (and of the nested MDNS block) except the raw duration strings whose parsed twins are merged; each merge statement reads b.F and writes result.F of the same field and belongs to an associative class — later-wins-if-set (guard a predicate of b.F alone), OR for switches, always-later (the compression switch only), concatenation a-then-b into a fresh slice, right-biased union into a fresh map — hence the merge is associative; no store, map update, element store or library copy writes through anything reachable from the inputs (the shallow copy shares a's maps and slices); the file reader folds MergeConfig(acc, next) with the accumulator first, directories in sorted order.",
		Run:     runC31,
		Mutants: []Mutant{
			{Name: "field-dropped", File: "cmd/serf/command/agent/config.go", Func: "func MergeConfig(", Old: "\tif b.SnapshotPath != \"\" {\n\t\tresult.SnapshotPath = b.SnapshotPath\n\t}\n", New: "", Expect: "R1"},
			{Name: "cross-wired", File: "cmd/serf/command/agent/config.go", Func: "func MergeConfig(", Old: "\t\tresult.StatsdAddr = b.StatsdAddr\n", New: "\t\tresult.StatsdAddr = b.StatsiteAddr\n", Expect: "R2"},
			{Name: "input-map-mutated", File: "cmd/serf/command/agent/config.go", Func: "func MergeConfig(", Old: "\t\ttags := make(map[string]string, len(a.Tags)+len(b.Tags))\n\t\tmaps.Copy(tags, a.Tags)\n\t\tmaps.Copy(tags, b.Tags)\n\t\tresult.Tags = tags\n", New: "\t\tif result.Tags == nil {\n\t\t\tresult.Tags = make(map[string]string)\n\t\t}\n\t\tmaps.Copy(result.Tags, b.Tags)\n", Expect: "R3"},
			{Name: "lists-b-then-a", File: "cmd/serf/command/agent/config.go", Func: "func MergeConfig(", Old: "\tresult.StartJoin = append(result.StartJoin, a.StartJoin...)\n\tresult.StartJoin = append(result.StartJoin, b.StartJoin...)\n", New: "\tresult.StartJoin = append(result.StartJoin, b.StartJoin...)\n\tresult.StartJoin = append(result.StartJoin, a.StartJoin...)\n", Expect: "R2"},
			{Name: "earlier-wins", File: "cmd/serf/command/agent/config.go", Func: "func MergeConfig(", Old: "\tif b.Profile != \"\" {\n", New: "\tif b.Profile != \"\" && a.Profile == \"\" {\n", Expect: "R2"},
			{Name: "dirwalk-skips-symlinks", File: "cmd/serf/command/agent/config.go", Func: "func ReadConfigPaths(", Old: "\t\t\tif fi.IsDir() {\n\t\t\t\tcontinue", New: "\t\t\tif !fi.Mode().IsRegular() {\n\t\t\t\tcontinue", Expect: "R4|dirwalk"},
			{Name: "fold-acc-second", File: "cmd/serf/command/agent/config.go", Func: "func ReadConfigPaths(", Old: "\t\t\tresult = MergeConfig(result, config)\n\t\t\tcontinue", New: "\t\t\tresult = MergeConfig(config, result)\n\t\t\tcontinue", Expect: "R4"},
			{Name: "list-appended-in-place", File: "cmd/serf/command/agent/config.go", Func: "func MergeConfig(", Old: "\tresult.RetryJoin = make([]string, 0, len(a.RetryJoin)+len(b.RetryJoin))\n\tresult.RetryJoin = append(result.RetryJoin, a.RetryJoin...)\n", New: "", Expect: "R"},
		},
	})
}

// ---------------------------------------------------------------------------

func runC29(c *an.Ctx) {
	c.Rule("R1 GatedWriter.buf/flush: written only with lock held exclusively, read only with it held; gate opening and buffer drain in one exclusive section; pass-through behind flush==true under the lock. logWriter.logs/index/handlers only under its mutex")
	c.Rule("R2 RegisterHandler registers and replays oldest-first inside one critical section also taken by Write; Write stores at index, advances it modulo the ring size and notifies every handler")
	locks := an.NewLocks(c.P)
	fns := c.P.FuncsIn(agent)
	const gl = "GatedWriter.lock"
	n := 0
	for _, f := range []string{"buf", "flush"} {
		for _, a := range an.FieldAccesses(fns, "GatedWriter", f) {
			n++
			c.Add(locks.Held(a.Instr).HasW(gl), "R1", "GatedWriter."+f+":write-exclusive:"+an.FuncName(a.Fn)+":"+a.Kind, a.Instr, a.Kind+" on GatedWriter."+f+" with the lock held exclusively", "must-held lockset")
		}
		for _, r := range an.FieldReads(fns, "GatedWriter", f) {
			n++
			c.Add(locks.Held(r).HasAny(gl), "R1", "GatedWriter."+f+":read-locked:"+an.FuncName(r.Parent()), r, "read of GatedWriter."+f+" with the lock held", "must-held lockset")
		}
	}
	c.Floor("R1", "accesses of the gate's buffer and flag", n, 6)
	if fl := am(c, "R1", "GatedWriter", "Flush"); fl != nil {
		// gate opening and drain share the section: every write to the underlying writer and the flag store
		var open ssa.Instruction
		for _, a := range an.FieldAccesses([]*ssa.Function{fl}, "GatedWriter", "flush") {
			if an.IsConstBool(a.Val, true) {
				open = a.Instr
			}
		}
		c.Add(open != nil, "R1", "Flush:opens-gate", fl, "Flush opens the gate", "store enumeration")
		// ... on every way out, and on every way out the buffer is empty: a Flush that can return with the
		// gate closed or with delivered lines still buffered loses later lines or delivers a prefix twice
		isOpen := func(in ssa.Instruction) bool {
			st, ok := in.(*ssa.Store)
			return ok && an.Path(st.Addr) == "&$0.flush" && an.IsConstBool(st.Val, true)
		}
		isClear := func(in ssa.Instruction) bool {
			st, ok := in.(*ssa.Store)
			return ok && an.Path(st.Addr) == "&$0.buf" && an.IsNilConst(st.Val)
		}
		okOpen, _ := an.MustPass(fl, nil, isOpen)
		okClear, _ := an.MustPass(fl, nil, isClear)
		c.Add(okOpen, "R1", "Flush:opens-gate-on-every-exit", fl, "every return of Flush leaves the gate open (also after a write error)", "must-pass from entry to the exits")
		c.Add(okClear, "R1", "Flush:clears-buffer-on-every-exit", fl, "every return of Flush leaves the buffer empty (no delivered line can be delivered again)", "must-pass from entry to the exits")
		drains := an.FindInstrs(fl, func(in ssa.Instruction) bool {
			call, ok := in.(*ssa.Call)
			if !ok {
				return false
			}
			if call.Call.IsInvoke() && call.Call.Method.Name() == "Write" {
				return true
			}
			return an.IsCallTo(in, "(*GatedWriter).Write")
		})
		c.Floor("R1", "drain writes in Flush", len(drains), 1)
		for _, d := range drains {
			call := d.(*ssa.Call)
			direct := call.Call.IsInvoke() && an.Path(call.Call.Value) == "$0.Writer"
			c.Add(direct && locks.Held(d).HasW(gl), "R1", "Flush:drain-in-section", d, "buffered lines are written to the underlying writer inside Flush's exclusive critical section (not through Write after unlocking)", "lockset + callee")
			if open != nil {
				unl := false
				for _, u := range an.CallsTo(fl, "sync.(*RWMutex).Unlock") {
					if _, isDefer := u.(*ssa.Defer); isDefer {
						continue
					}
					if an.Reaches(fl, open, u) && an.Reaches(fl, u, d) {
						unl = true
					}
				}
				c.Add(!unl, "R1", "Flush:no-unlock-between", d, "the lock is not released between opening the gate and draining the buffer", "reachability of explicit unlocks")
			}
		}
		// buffer cleared in the same section
		for _, a := range an.FieldAccesses([]*ssa.Function{fl}, "GatedWriter", "buf") {
			c.Add(an.IsNilConst(a.Val) && locks.Held(a.Instr).HasW(gl), "R1", "Flush:buffer-cleared", a.Instr, "the buffer is cleared inside the same critical section", "lockset")
		}
	}
	if wr := am(c, "R1", "GatedWriter", "Write"); wr != nil {
		pass := an.FindInstrs(wr, func(in ssa.Instruction) bool {
			call, ok := in.(*ssa.Call)
			return ok && call.Call.IsInvoke() && call.Call.Method.Name() == "Write" && an.Path(call.Call.Value) == "$0.Writer"
		})
		c.Floor("R1", "pass-through writes", len(pass), 1)
		for _, p := range pass {
			c.Add(an.GuardedBy(wr, p, an.Cmp{L: "$0.flush", Op: "==", R: "c:true"}) && locks.Held(p).HasAny(gl), "R1", "Write:pass-through", p, "a line goes straight to the underlying writer only when the gate is open, with the lock held", "edge dominance + lockset")
			c.Add(an.Path(an.CallOf(p).Args[0]) == "$1", "R1", "Write:pass-through-bytes", p, "the bytes passed through are the caller's", "argument path")
		}
		// check-then-act: a line is buffered only when the gate was seen closed in the very
		// critical section that buffers it (otherwise a Flush in between drains first and the line is lost)
		nb := 0
		for _, a := range an.FieldAccesses([]*ssa.Function{wr}, "GatedWriter", "buf") {
			if a.Kind != "store" {
				continue
			}
			nb++
			why := guardReadInSection(wr, a.Instr, an.Cmp{L: "$0.flush", Op: "==", R: "c:false"}, gl)
			c.Add(why == "", "R1", "Write:buffers-only-while-closed", a.Instr, "a line is appended to the buffer only when the gate is closed, tested in the same exclusive section as the append "+why, "edge dominance + no release between test and append")
		}
		c.Floor("R1", "buffer appends in Write", nb, 1)
		for _, p := range pass {
			why := guardReadInSection(wr, p, an.Cmp{L: "$0.flush", Op: "==", R: "c:true"}, gl)
			c.Add(why == "", "R1", "Write:pass-through-in-section", p, "the gate is tested in the section that passes the line through "+why, "edge dominance + no release between test and write")
		}
		// the buffered copy is a private copy of the caller's bytes
		okCopy := false
		for _, cp := range an.FindInstrs(wr, func(in ssa.Instruction) bool {
			call, ok := in.(*ssa.Call)
			if !ok {
				return false
			}
			b, ok := call.Call.Value.(*ssa.Builtin)
			return ok && b.Name() == "copy"
		}) {
			a := an.CallOf(cp).Args
			okCopy = an.Path(a[0]) == "make:slice(len($1))" && an.Path(a[1]) == "$1"
		}
		c.Add(okCopy, "R1", "Write:buffers-copy", wr, "a buffered line is a private copy of the caller's bytes", "call arguments")
	}
	// logWriter
	const ll = "logWriter.Mutex"
	m := 0
	for _, f := range []string{"logs", "index", "handlers"} {
		for _, a := range an.FieldAccesses(fns, "logWriter", f) {
			if a.Init {
				continue
			}
			m++
			c.Add(locks.Held(a.Instr).HasW(ll), "R1", "logWriter."+f+":write-locked:"+an.FuncName(a.Fn)+":"+a.Kind, a.Instr, a.Kind+" on logWriter."+f+" under its mutex", "must-held lockset")
		}
		for _, r := range an.FieldReads(fns, "logWriter", f) {
			if an.FuncName(r.Parent()) == "NewLogWriter" {
				continue
			}
			m++
			c.Add(locks.Held(r).HasW(ll), "R1", "logWriter."+f+":read-locked:"+an.FuncName(r.Parent()), r, "read of logWriter."+f+" under its mutex", "must-held lockset")
		}
	}
	c.Floor("R1", "accesses of the log ring", m, 10)

	// R2
	if rh := am(c, "R2", "logWriter", "RegisterHandler"); rh != nil {
		var reg ssa.Instruction
		an.Instrs(rh, func(in ssa.Instruction) {
			if mu, ok := in.(*ssa.MapUpdate); ok && an.Path(mu.Map) == "$0.handlers" && an.Path(mu.Key) == "$1" {
				reg = in
			}
		})
		c.Add(reg != nil && locks.Held(reg).HasW(ll), "R2", "RegisterHandler:registers-locked", rh, "the handler is registered under the mutex", "map update + lockset")
		var replays []*ssa.Call
		an.Instrs(rh, func(in ssa.Instruction) {
			if call, ok := in.(*ssa.Call); ok && call.Call.IsInvoke() && call.Call.Method.Name() == "HandleLog" {
				replays = append(replays, call)
			}
		})
		c.Floor("R2", "replay sites", len(replays), 2)
		// classify the two loops by their induction variable's start
		var older, newer *ssa.Call
		for _, r := range replays {
			c.Add(locks.Held(r).HasW(ll) && an.Path(r.Call.Value) == "$1", "R2", "RegisterHandler:replay-locked", r, "buffered lines are replayed to the new handler inside the same critical section", "lockset")
			arg := r.Call.Args[0]
			p := an.Path(arg)
			// the two parts written as ranges over sub-slices of the ring: logs[index:] and logs[:index]
			if strings.HasPrefix(p, "$0.logs[$0.index:][(phi:rangeindex@") && strings.HasSuffix(p, "+c:1)]") {
				older = r
				c.Add(an.GuardedBy(rh, r, an.Cmp{L: "$0.logs[$0.index]", Op: "!=", R: `c:""`}), "R2", "RegisterHandler:older-part", r, "when the ring has wrapped the older part index..end is replayed", "loop shape + guard")
				continue
			}
			if strings.HasPrefix(p, "$0.logs[:$0.index][(phi:rangeindex@") && strings.HasSuffix(p, "+c:1)]") {
				newer = r
				c.Add(true, "R2", "RegisterHandler:newer-part", r, "the newer part 0..index is replayed", "loop shape")
				continue
			}
			if !strings.HasPrefix(p, "$0.logs[phi@") {
				c.Add(false, "R2", "RegisterHandler:replay-element", r, "the replayed value is an element of the ring (got "+p+")", "")
				continue
			}
			// the index phi
			var phi *ssa.Phi
			if u, ok := arg.(*ssa.UnOp); ok {
				if ia, ok := u.X.(*ssa.IndexAddr); ok {
					phi, _ = ia.Index.(*ssa.Phi)
				}
			}
			if phi == nil {
				continue
			}
			start := ""
			for _, e := range phi.Edges {
				ep := an.Path(e)
				if ep != "("+an.Path(phi)+"+c:1)" {
					start = ep
				}
			}
			switch start {
			case "$0.index":
				older = r
				okB := an.GuardedBy(rh, r, an.Cmp{L: an.Path(phi), Op: "<", R: "len($0.logs)"}) && an.GuardedBy(rh, r, an.Cmp{L: "$0.logs[$0.index]", Op: "!=", R: `c:""`})
				c.Add(okB, "R2", "RegisterHandler:older-part", r, "when the ring has wrapped the older part index..end is replayed", "loop shape + guard")
			case "c:0":
				newer = r
				c.Add(an.GuardedBy(rh, r, an.Cmp{L: an.Path(phi), Op: "<", R: "$0.index"}), "R2", "RegisterHandler:newer-part", r, "the newer part 0..index is replayed", "loop shape")
			default:
				c.Add(false, "R2", "RegisterHandler:replay-start", r, "unexpected replay start "+start, "")
			}
		}
		c.Add(older != nil && newer != nil && !an.Reaches(rh, newer, older), "R2", "RegisterHandler:oldest-first", rh, "the older part is replayed before the newer part", "ordering (reachability)")
		// nothing else decides whether the backlog is replayed (index == 0 also means "full ring just wrapped")
		for _, r := range replays {
			extra := ""
			for _, f := range necessaryFacts(rh, r) {
				switch {
				case strings.HasPrefix(f.L, "phi@") && f.Op == "<" && (f.R == "len($0.logs)" || f.R == "$0.index"):
				case strings.HasPrefix(f.L, "(phi:rangeindex@") && f.Op == "<" && (f.R == "len($0.logs[$0.index:])" || f.R == "len($0.logs[:$0.index])"):
				case f.L == "$0.logs[$0.index]" && f.Op == "!=" && f.R == `c:""`:
				case strings.HasPrefix(f.L, "$0.handlers[$1]"):
				default:
					extra += f.String() + "; "
				}
			}
			c.Add(extra == "", "R2", "RegisterHandler:replay-unconditional", r, "a new handler's replay depends only on the ring's own bounds and the wrapped-marker (other conditions: "+extra+")", "necessary-edge enumeration")
		}
		if reg != nil {
			for _, r := range replays {
				c.Add(an.Dominates(reg, r), "R2", "RegisterHandler:register-then-replay", r, "registration precedes the replay in the same critical section (no line falls between them)", "dominance")
			}
		}
	}
	if lw := am(c, "R2", "logWriter", "Write"); lw != nil {
		okS, okI, okN := false, false, false
		an.Instrs(lw, func(in ssa.Instruction) {
			switch x := in.(type) {
			case *ssa.Store:
				ap := an.Path(x.Addr)
				if ap == "&$0.logs[$0.index]" {
					okS = true
				}
				if ap == "&$0.index" {
					okI = an.Path(x.Val) == "(($0.index+c:1)%len($0.logs))"
				}
			case *ssa.Call:
				if x.Call.IsInvoke() && x.Call.Method.Name() == "HandleLog" && strings.HasPrefix(an.Path(x.Call.Value), "next(range($0.handlers))") {
					okN = locks.Held(in).HasW(ll)
				}
			}
		})
		if !okI {
			// the same step as increment-and-wrap: index++ unconditionally, then index = 0 exactly when it
			// reached the ring size
			var inc, zero []*ssa.Store
			other := false
			for _, st := range an.StoresTo(lw, ".index") {
				if an.Path(st.Addr) != "&$0.index" {
					continue
				}
				switch an.Path(st.Val) {
				case "($0.index+c:1)":
					inc = append(inc, st)
				case "c:0":
					zero = append(zero, st)
				default:
					other = true
				}
			}
			if !other && len(inc) == 1 && len(zero) == 1 && an.Dominates(inc[0], zero[0]) {
				base := map[string]bool{}
				for _, f := range necessaryFacts(lw, inc[0]) {
					base[f.String()] = true
				}
				n, wrap := 0, false
				for _, f := range necessaryFacts(lw, zero[0]) {
					if base[f.String()] {
						continue
					}
					n++
					for _, g := range []an.Cmp{f, f.Swap()} {
						if g.L == "$0.index" && g.R == "len($0.logs)" && (g.Op == "==" || g.Op == ">=") {
							wrap = true
						}
					}
				}
				// and nothing but that test decides: the wrap is taken whenever the size is reached
				okI = wrap && n == 1
			}
		}
		c.Add(okS, "R2", "Write:stores-at-index", lw, "a new line is stored at the ring's current index", "store path")
		c.Add(okI, "R2", "Write:advances-index", lw, "the index advances by one modulo the ring size", "store value path")
		c.Add(okN, "R2", "Write:notifies-handlers", lw, "every registered handler receives the line under the mutex", "invoke enumeration + lockset")
	}
}

// ---------------------------------------------------------------------------

func runC30(c *an.Ctx) {
	c.Rule("R1 handleTags: fresh map; old tag copied only behind !deleted (flag raised only by key equality over the whole delete list); set keys copied after the old-tag loop; that map goes to SetTags")
	c.Rule("R2 Agent.SetTags persists the tags in effect: file content = configuration tags read after Serf's SetTags ran, or the write is behind SetTags == nil")
	c.Rule("R3 tags file: writer and loader agree on a JSON object of strings")
	if ht := am(c, "R1", "AgentIPC", "handleTags"); ht != nil {
		set := an.CallsTo(ht, "(*Agent).SetTags")
		if len(set) != 1 {
			c.Anchor("R1", "one Agent.SetTags call in handleTags")
		} else {
			arg := an.CallOf(set[0]).Args[1]
			mk, isMake := arg.(*ssa.MakeMap)
			c.Add(isMake, "R1", "handleTags:fresh-map", set[0], "the map handed to SetTags is made in the handler (no alias of the live tags)", "value is a MakeMap")
			if isMake {
				var oldCopies, setCopies []ssa.Instruction
				an.Instrs(ht, func(in ssa.Instruction) {
					if mu, ok := in.(*ssa.MapUpdate); ok && mu.Map == ssa.Value(mk) {
						oldCopies = append(oldCopies, in)
					}
					if call, ok := in.(*ssa.Call); ok && strings.HasPrefix(an.CalleeName0(call), "maps.Copy") && call.Call.Args[0] == ssa.Value(mk) {
						setCopies = append(setCopies, in)
					}
				})
				c.Floor("R1", "old-tag copy sites", len(oldCopies), 1)
				for _, oc := range oldCopies {
					mu := oc.(*ssa.MapUpdate)
					rng := "next(range((*Agent).SerfConfig($0.agent).Tags))"
					c.Add(an.Path(mu.Key) == rng+"#1" && an.Path(mu.Value) == rng+"#2", "R1", "handleTags:copies-old-pair", oc, "an old tag is copied with its own key and value", "map update path")
					// guard: phi:delTag == false; the phi is only raised by key equality
					var flag *ssa.Phi
					for e, facts := range an.EdgeFacts(ht) {
						for _, f := range facts {
							if strings.HasPrefix(f.L, "phi@") && f.Op == "==" && f.R == "c:false" && an.Guarded(ht, oc, []an.Edge{e}) {
								if iff, ok := e.From.Instrs[len(e.From.Instrs)-1].(*ssa.If); ok {
									flag, _ = iff.Cond.(*ssa.Phi)
								}
							}
						}
					}
					// the same test through the library: slices.Contains(req.DeleteTags, key) == false
					viaLib := false
					for _, f := range necessaryFacts(ht, oc) {
						if strings.HasPrefix(f.L, "slices.Contains") && strings.HasSuffix(f.L, "(local:tagsRequest.DeleteTags,"+rng+"#1)") && f.Op == "==" && f.R == "c:false" {
							viaLib = true
						}
					}
					c.Add(flag != nil || viaLib, "R1", "handleTags:kept-only-if-not-deleted", oc, "an old tag is kept only when the deleted flag is false", "edge dominance")
					if flag != nil {
						c.Add(delFlagShape(flag, rng+"#1"), "R1", "handleTags:deleted-flag-shape", flag, "the deleted flag starts false for each tag and is only ever raised by 'a delete key equals this tag's key' (never lowered), scanning the whole delete list", "phi operand analysis")
					}
				}
				c.Add(len(setCopies) == 1, "R1", "handleTags:set-copy-site", ht, "the set keys are copied into the new map", "call enumeration")
				for _, sc := range setCopies {
					c.Add(an.Path(an.CallOf(sc).Args[1]) == "local:tagsRequest.Tags", "R1", "handleTags:set-copy-source", sc, "the set keys come from the request", "argument path")
					late := false
					for _, oc := range oldCopies {
						if an.Reaches(ht, sc, oc) {
							late = true
						}
					}
					c.Add(!late && an.Dominates(sc, set[0]), "R1", "handleTags:set-wins", sc, "the set keys are copied after every old tag (set wins) and before SetTags", "ordering")
				}
			}
		}
	}
	// R2
	if st := am(c, "R2", "Agent", "SetTags"); st != nil {
		ser := an.CallsTo(st, "(*Serf).SetTags")
		wr := an.CallsTo(st, "(*Agent).writeTagsFile")
		c.Floor("R2", "tags-file writes in Agent.SetTags", len(wr), 1)
		c.Add(len(ser) == 1 && an.Path(an.CallOf(ser[0]).Args[1]) == "$1", "R2", "SetTags:applies-to-serf", st, "the edit is applied through Serf's SetTags", "call enumeration")
		for _, w := range wr {
			arg := an.Path(an.CallOf(w).Args[1])
			ok := false
			if len(ser) == 1 {
				if arg == "$0.conf.Tags" && an.Dominates(ser[0], w) {
					ok = true // reads back what is in effect
				}
				if arg == "$1" && an.GuardedBy(st, w, an.Cmp{L: an.Path(ser[0].(ssa.Value)), Op: "==", R: "c:nil"}) {
					ok = true
				}
			}
			c.Add(ok, "R2", "SetTags:persists-effective-tags", w, "the tags file receives the tags in effect: the configuration's tags read after Serf's SetTags ran, or the edit only once Serf accepted it (writes "+arg+")", "argument path + dominance/edge dominance")
			c.Add(an.GuardedBy(st, w, an.Cmp{L: "$0.agentConf.TagsFile", Op: "!=", R: `c:""`}), "R2", "SetTags:only-with-file", w, "the file is written only when one is configured", "edge dominance")
		}
		// the file is rewritten on every way out after Serf's SetTags ran, unless no file is configured.
		// Leaving early on Serf's error is allowed only if Serf's SetTags cannot fail after it changed
		// the tags (it can: the broadcast may time out after config.Tags was assigned).
		if len(ser) == 1 {
			cut := an.EdgesImplying(st, an.Cmp{L: "$0.agentConf.TagsFile", Op: "==", R: `c:""`})
			errAfterEffect := true
			if sst := c.P.Method(serf, "Serf", "SetTags"); c.NeedFunc("R2", sst, "serf.(*Serf).SetTags") {
				errAfterEffect = false
				for _, s := range an.StoresTo(sst, ".config.Tags") {
					bad := an.ReachFrom(sst, s, nil, func(in ssa.Instruction) bool {
						r, ok := in.(*ssa.Return)
						return ok && !an.IsNilConst(an.ResultValues(r)[0])
					})
					if bad != nil {
						errAfterEffect = true
					}
				}
			}
			if !errAfterEffect {
				cut = append(cut, an.EdgesImplying(st, an.Cmp{L: an.Path(ser[0].(ssa.Value)), Op: "!=", R: "c:nil"})...)
			}
			isW := func(in ssa.Instruction) bool { return an.IsCallTo(in, "(*Agent).writeTagsFile") }
			ex := an.ReachFrom(st, ser[0], &an.Cut{Edges: cut, Instrs: isW}, an.IsExit)
			c.Add(ex == nil, "R2", "SetTags:persists-on-every-exit", st, "after Serf's SetTags ran (it may fail after the new tags took effect: error-after-effect="+bstr(errAfterEffect)+") every way out rewrites the tags file when one is configured", "must-pass (reach/cut) from the Serf call to the exits")
		}
		// a.conf is the configuration Serf was created with
		if cr := am(c, "R2", "Agent", "Start"); cr != nil {
			ok := false
			for _, call := range an.CallsTo(cr, "Create") {
				if f := an.StaticCallee(an.CallOf(call)); f != nil && an.PkgPathOf(f) == serf {
					ok = an.Path(an.CallOf(call).Args[0]) == "$0.conf"
				}
			}
			c.Add(ok, "R2", "Agent:conf-is-serf-config", cr, "the agent's conf is the configuration object Serf runs with (so conf.Tags are the effective tags)", "call argument")
		}
	}
	// R3
	wf := am(c, "R3", "Agent", "writeTagsFile")
	lf := am(c, "R3", "Agent", "loadTagsFile")
	if wf != nil && lf != nil {
		wt, lt := "", ""
		for _, call := range an.CallsTo(wf, "json.MarshalIndent", "json.Marshal") {
			if mi, ok := an.CallOf(call).Args[0].(*ssa.MakeInterface); ok {
				wt = mi.X.Type().String()
			}
		}
		for _, call := range an.CallsTo(lf, "json.Unmarshal") {
			if mi, ok := an.CallOf(call).Args[1].(*ssa.MakeInterface); ok {
				if p, ok := mi.X.Type().(*types.Pointer); ok {
					lt = p.Elem().String()
				}
				c.Add(an.Path(mi.X) == "&$0.conf.Tags", "R3", "loadTagsFile:target", call, "the loader decodes into the Serf configuration's tags", "argument path")
			}
		}
		c.Add(wt != "" && wt == lt, "R3", "tagsfile:same-shape", wf, "writer encodes a "+wt+", loader decodes a "+lt, "argument types")
		okP := false
		for _, call := range an.CallsTo(wf, "os.WriteFile") {
			okP = an.Path(an.CallOf(call).Args[0]) == "$0.agentConf.TagsFile"
		}
		c.Add(okP, "R3", "writeTagsFile:target", wf, "the writer writes the configured tags file", "argument path")
		// a nil result means the file was written: every nil return lies behind os.WriteFile == nil
		// (an "empty map: nothing to persist" shortcut leaves the deleted tags in the file)
		wcalls := an.CallsTo(wf, "os.WriteFile")
		nNil := 0
		for _, r := range an.Returns(wf) {
			v := an.ResultValues(r)
			if len(v) != 1 || !an.IsNilConst(an.Bound(v[0])) {
				continue
			}
			nNil++
			ok := false
			for _, w := range wcalls {
				if wv, isV := w.(ssa.Value); isV && an.GuardedBy(wf, r, an.Cmp{L: an.Path(wv), Op: "==", R: "c:nil"}) {
					ok = true
				}
			}
			c.Add(ok, "R3", "writeTagsFile:nil-means-written", r, "the writer returns nil only after os.WriteFile succeeded, for every tag map (the empty one included)", "edge dominance per nil return")
		}
		c.Floor("R3", "nil returns of writeTagsFile", nNil, 1)
	}
}

// delFlagShape: phi := [false | phi2] where phi2's operands are only true /
// (delkey == key) / the flag itself, i.e. delTag = delTag || delkey == key.
func delFlagShape(flag *ssa.Phi, key string) bool {
	seen := map[*ssa.Phi]bool{}
	sawEq, sawInit := false, false
	var walk func(v ssa.Value) bool
	walk = func(v ssa.Value) bool {
		switch x := v.(type) {
		case *ssa.Const:
			if an.IsConstBool(x, false) {
				sawInit = true
				return true
			}
			return an.IsConstBool(x, true)
		case *ssa.Phi:
			if seen[x] {
				return true
			}
			seen[x] = true
			hasEq, hasKeep := false, false
			for i, e := range x.Edges {
				if !walk(e) {
					return false
				}
				if b, ok := e.(*ssa.BinOp); ok && b.Op.String() == "==" {
					hasEq = true
				}
				if an.IsConstBool(e, true) {
					// the short-circuit arm of `flag || ...`: taken when the flag is already true
					pred := x.Block().Preds[i]
					if iff, ok := pred.Instrs[len(pred.Instrs)-1].(*ssa.If); ok {
						if p, ok := iff.Cond.(*ssa.Phi); ok && (p == flag || seen[p]) {
							hasKeep = true
						}
					}
				}
			}
			if hasEq && !hasKeep {
				return false // the comparison replaces the flag instead of being OR-ed into it
			}
			return true
		case *ssa.BinOp:
			if x.Op.String() == "==" {
				l, r := an.Path(x.X), an.Path(x.Y)
				if (r == key && strings.Contains(l, ".DeleteTags[")) || (l == key && strings.Contains(r, ".DeleteTags[")) {
					sawEq = true
					return true
				}
			}
		}
		return false
	}
	return walk(flag) && sawEq && sawInit
}

// ---------------------------------------------------------------------------

func structFields(t types.Type, prefix string, out *[]string) {
	st, ok := t.Underlying().(*types.Struct)
	if !ok {
		return
	}
	for i := 0; i < st.NumFields(); i++ {
		f := st.Field(i)
		if n, isN := f.Type().(*types.Named); isN {
			if _, isS := n.Underlying().(*types.Struct); isS && n.Obj().Pkg() != nil && n.Obj().Pkg().Path() == agent {
				structFields(n, prefix+f.Name()+".", out)
				continue
			}
		}
		*out = append(*out, prefix+f.Name())
	}
}

func runC31(c *an.Ctx) {
	c.Rule("R1 exhaustiveness: every field of Config (incl. nested MDNS) except *Raw duration strings is assigned in MergeConfig")
	c.Rule("R2 same field + associative class: later-if-set(b.F) | OR | always-later (EnableCompression only) | concat a-then-b into a fresh slice | right-biased union into a fresh map")
	c.Rule("R3 inputs untouched: no store/map update/element store/maps.Copy/append-in-place through anything reachable from a or b")
	c.Rule("R4 ReadConfigPaths folds MergeConfig(acc, next), accumulator first, directory entries sorted")
	mc := c.P.Func(agent, "MergeConfig")
	if !c.NeedFunc("R1", mc, "agent.MergeConfig") {
		return
	}
	cfg := c.P.NamedType(agent, "Config")
	if cfg == nil {
		c.Anchor("R1", "type agent.Config")
		return
	}
	var fields []string
	structFields(cfg, "", &fields)
	c.Floor("R1", "fields of Config", len(fields), 40)
	// stores to result.F
	stores := map[string][]*ssa.Store{}
	an.Instrs(mc, func(in ssa.Instruction) {
		if s, ok := in.(*ssa.Store); ok {
			p := an.Path(s.Addr)
			if strings.HasPrefix(p, "&local:Config.") {
				f := strings.TrimPrefix(p, "&local:Config.")
				stores[f] = append(stores[f], s)
			}
		}
	})
	for _, f := range fields {
		if strings.HasSuffix(f, "Raw") {
			twin := strings.TrimSuffix(f, "Raw")
			c.Exemption("Config."+f, "raw duration string; its parsed twin "+twin+" is merged")
			c.Add(len(stores[twin]) > 0, "R1", "merged:"+f+"(twin)", mc, "the parsed twin of "+f+" is merged", "store enumeration")
			continue
		}
		c.Add(len(stores[f]) > 0, "R1", "merged:"+f, mc, "setting "+f+" is merged (a later source's value is not silently dropped)", "store enumeration over all struct fields")
	}
	// R2 per store
	for f, sts := range stores {
		ft := fieldType(cfg, f)
		for _, s := range sts {
			v := an.Path(s.Val)
			bF := "$1." + f
			guardsOnB := func() bool {
				for _, fct := range necessaryFacts(mc, s) {
					if fct.L != bF && fct.R != bF {
						if fct.L == "local:Config."+f && fct.R == "c:nil" {
							continue
						}
						return false
					}
				}
				return len(necessaryFacts(mc, s)) > 0
			}
			switch tt := ft.Underlying().(type) {
			case *types.Slice:
				// three stores: make, append a, append b — checked as a group below
				_ = tt
			case *types.Map:
			default:
				switch {
				case v == bF && len(necessaryFacts(mc, s)) == 0:
					c.Add(f == "EnableCompression", "R2", "class:always-later:"+f, s, f+" always takes the later source's value (allowed for the compression switch only)", "unguarded store of b.F")
				case v == bF && guardsOnB():
					c.Add(true, "R2", "class:later-if-set:"+f, s, f+": later source wins when it sets it (guard depends on b."+f+" only)", "necessary-edge enumeration")
				case v == "c:true" && an.GuardedBy(mc, s, an.Cmp{L: bF, Op: "==", R: "c:true"}) && guardsOnB():
					c.Add(true, "R2", "class:or:"+f, s, f+": switch is on if either source turns it on", "edge dominance")
				default:
					c.Add(false, "R2", "class:"+f, s, "merge of "+f+" (stores "+v+") is not later-if-set(b."+f+"), OR, or always-later: cross-wired field or non-associative rule", "")
				}
			}
		}
	}
	for _, f := range fields {
		ft := fieldType(cfg, f)
		switch ft.Underlying().(type) {
		case *types.Slice:
			sts := stores[f]
			ok := len(sts) == 3
			if ok {
				sort.Slice(sts, func(i, j int) bool { return an.Dominates(sts[i], sts[j]) })
				_, isMk := sts[0].Val.(*ssa.MakeSlice)
				ok = isMk && an.Path(sts[1].Val) == "append(local:Config."+f+",$0."+f+")" && an.Path(sts[2].Val) == "append(local:Config."+f+",$1."+f+")" &&
					an.Dominates(sts[0], sts[1]) && an.Dominates(sts[1], sts[2])
			}
			got := ""
			if len(sts) == 1 {
				// the same three steps as one expression (or through a one-line helper)
				got = an.Path(sts[0].Val)
				ok = strings.HasPrefix(got, "append(append(make:slice(") && strings.HasSuffix(got, ",$0."+f+"),$1."+f+")")
				got = " (stores " + short(got) + ")"
			}
			c.Add(ok, "R2", "class:concat:"+f, mc, f+": a's entries then b's entries, appended to a freshly made slice"+got, "store sequence")
		case *types.Map:
			sts := stores[f]
			ok := false
			for _, s := range sts {
				mk, isMk := s.Val.(*ssa.MakeMap)
				if !isMk {
					continue
				}
				// copies a then b into the fresh map before it is installed, guard on b.F only
				var ca, cb ssa.Instruction
				an.Instrs(mc, func(in ssa.Instruction) {
					if call, okC := in.(*ssa.Call); okC && strings.HasPrefix(an.CalleeName0(call), "maps.Copy") && call.Call.Args[0] == ssa.Value(mk) {
						switch an.Path(call.Call.Args[1]) {
						case "$0." + f:
							ca = in
						case "$1." + f:
							cb = in
						}
					}
					// the same copy written as a range loop: mk[k] = v for every k, v of the source, unconditionally
					if mu, okM := in.(*ssa.MapUpdate); okM && mu.Map == ssa.Value(mk) {
						k, okK := mu.Key.(*ssa.Extract)
						v, okV := mu.Value.(*ssa.Extract)
						if !okK || !okV || k.Index != 1 || v.Index != 2 || k.Tuple != v.Tuple {
							return
						}
						nx, okN := k.Tuple.(*ssa.Next)
						if !okN {
							return
						}
						rg, okR := nx.Iter.(*ssa.Range)
						if !okR {
							return
						}
						outer := map[string]bool{}
						for _, fct := range necessaryFacts(mc, rg) {
							outer[fct.String()] = true
						}
						for _, fct := range necessaryFacts(mc, mu) {
							if !outer[fct.String()] && !strings.Contains(fct.L, "next(range(") {
								return // a condition inside the loop: not a plain copy
							}
						}
						switch an.Path(rg.X) {
						case "$0." + f:
							ca = rg
						case "$1." + f:
							cb = rg
						}
					}
				})
				ok = ca != nil && cb != nil && an.Dominates(ca, cb) && an.Dominates(cb, s) && an.GuardedBy(mc, s, an.Cmp{L: "$1." + f, Op: "!=", R: "c:nil"})
			}
			c.Add(ok, "R2", "class:map-union:"+f, mc, f+": right-biased union (a copied, then b) into a freshly made map, installed only when b sets it", "call order + guard")
		}
	}
	// R3 inputs untouched
	rooted := func(v ssa.Value) bool {
		p := an.Path(v)
		return strings.HasPrefix(p, "$0.") || strings.HasPrefix(p, "$1.") || p == "$0" || p == "$1" || strings.HasPrefix(p, "&$0.") || strings.HasPrefix(p, "&$1.")
	}
	aliasOfInput := func(v ssa.Value) bool {
		// result.F where result.F was not (re)assigned a fresh value on every path
		p := an.Path(v)
		if !strings.HasPrefix(p, "local:Config.") {
			return false
		}
		f := strings.TrimPrefix(p, "local:Config.")
		in, _ := v.(ssa.Instruction)
		for _, s := range stores[f] {
			fresh := false
			switch s.Val.(type) {
			case *ssa.MakeMap, *ssa.MakeSlice:
				fresh = true
			}
			if call, ok := s.Val.(*ssa.Call); ok {
				if b, ok := call.Call.Value.(*ssa.Builtin); ok && b.Name() == "append" {
					fresh = true // append onto the already fresh slice (checked by class:concat)
				}
			}
			if fresh && in != nil && an.Dominates(s, in) {
				return false
			}
		}
		return true
	}
	nW := 0
	an.Instrs(mc, func(in ssa.Instruction) {
		switch x := in.(type) {
		case *ssa.Store:
			nW++
			if rooted(x.Addr) {
				c.Add(false, "R3", "input-written:store", in, "MergeConfig stores through an input ("+an.Path(x.Addr)+")", "")
			}
			if ia, ok := x.Addr.(*ssa.IndexAddr); ok && (rooted(ia.X) || aliasOfInput(ia.X)) {
				c.Add(false, "R3", "input-written:element", in, "MergeConfig writes an element of a slice shared with an input", "")
			}
		case *ssa.MapUpdate:
			nW++
			c.Add(!rooted(x.Map) && !aliasOfInput(x.Map), "R3", "input-written:mapupdate", in, "map update targets a fresh map, not one shared with an input ("+an.Path(x.Map)+")", "alias analysis of result.F")
		case *ssa.Call:
			name := an.CalleeName0(x)
			if strings.HasPrefix(name, "maps.Copy") || strings.HasPrefix(name, "maps.Insert") || name == "copy" || strings.HasPrefix(name, "maps.DeleteFunc") || name == "clear" || name == "delete" {
				nW++
				dst := x.Call.Args[0]
				c.Add(!rooted(dst) && !aliasOfInput(dst), "R3", "input-written:"+name[:strings.IndexAny(name+"[", "[")], in, name[:strings.IndexAny(name+"[", "[")]+" writes into a fresh value, not one shared with an input (destination "+an.Path(dst)+")", "alias analysis: result = *a shares a's maps and slices until reassigned")
			}
			if b, ok := x.Call.Value.(*ssa.Builtin); ok && b.Name() == "append" {
				nW++
				dst := x.Call.Args[0]
				c.Add(!rooted(dst) && !aliasOfInput(dst), "R3", "input-written:append", in, "append extends a fresh slice, not one whose backing array is shared with an input (destination "+an.Path(dst)+")", "alias analysis")
			}
		}
	})
	c.Floor("R3", "write sites examined in MergeConfig", nW, 40)
	// the result is a copy
	okCopy := false
	an.Instrs(mc, func(in ssa.Instruction) {
		if s, ok := in.(*ssa.Store); ok && an.Path(s.Addr) == "&local:Config" && an.Path(s.Val) == "*$0" {
			okCopy = true
		}
	})
	c.Add(okCopy, "R3", "result-is-copy", mc, "the result starts as a (shallow) copy of a", "store path")

	// R4
	if rp := c.P.Func(agent, "ReadConfigPaths"); c.NeedFunc("R4", rp, "agent.ReadConfigPaths") {
		calls := an.CallsTo(rp, "MergeConfig")
		c.Floor("R4", "MergeConfig calls in ReadConfigPaths", len(calls), 2)
		for _, call := range calls {
			a := an.CallOf(call).Args
			acc, isPhi := a[0].(*ssa.Phi)
			okAcc := isPhi
			if isPhi {
				okAcc = accumulatorShape(acc, map[*ssa.Phi]bool{})
			}
			second, secondIsPhi := a[1].(*ssa.Phi)
			c.Add(okAcc && !(secondIsPhi && accumulatorShape(second, map[*ssa.Phi]bool{})), "R4", "fold:acc-first", call, "files are folded as MergeConfig(accumulated, next): earlier sources on the left", "argument shape (accumulator phi)")
		}
		okSort := len(an.CallsTo(rp, "sort.Sort", "sort.Slice", "sort.Strings", "slices.SortFunc")) >= 1
		c.Add(okSort, "R4", "fold:sorted-dir", rp, "directory entries are sorted before they are merged", "call enumeration")
		// closed set of skip conditions in the directory walk: an entry is passed over without being merged
		// only when it is a directory or its name does not end in .json (a symlinked .json file is merged)
		hdr := an.EdgesWhere(rp, func(f an.Cmp) bool {
			return f.Op == "<" && strings.HasPrefix(f.R, "len(os.(*File).Readdir(")
		})
		c.Floor("R4", "directory loops in ReadConfigPaths", len(hdr), 1)
		var skips []an.Edge
		for _, in := range an.FindInstrs(rp, func(in ssa.Instruction) bool {
			call, ok := in.(*ssa.Call)
			return ok && call.Call.IsInvoke() && call.Call.Method.Name() == "IsDir" && strings.HasPrefix(an.Path(call.Call.Value), "os.(*File).Readdir(")
		}) {
			skips = append(skips, an.EdgesImplying(rp, an.Cmp{L: an.Path(in.(ssa.Value)), Op: "==", R: "c:true"})...)
		}
		for _, in := range an.CallsTo(rp, "strings.HasSuffix") {
			a := an.CallOf(in).Args
			if str, ok := an.ConstString(a[1]); ok && str == ".json" && strings.HasPrefix(an.Path(a[0]), "invoke:Name(os.(*File).Readdir(") {
				skips = append(skips, an.EdgesImplying(rp, an.Cmp{L: an.Path(in.(ssa.Value)), Op: "==", R: "c:false"})...)
			}
		}
		isMerge := func(in ssa.Instruction) bool { return an.IsCallTo(in, "MergeConfig") }
		for _, h := range hdr {
			head := h.From.Instrs[len(h.From.Instrs)-1]
			bad := an.ReachFromBlock(rp, h.To(), &an.Cut{Instrs: isMerge, Edges: skips}, func(in ssa.Instruction) bool { return in == head })
			c.Add(bad == nil, "R4", "dirwalk:skip-only-dirs-and-non-json", head, "a directory entry is passed over without being merged only when it is a directory or its name lacks .json", "reach/cut from the loop body back to the loop head")
		}
	}
}

// accumulatorShape: phi edges are new(Config) (an Alloc), MergeConfig(...)
// results, or accumulator phis.
func accumulatorShape(p *ssa.Phi, seen map[*ssa.Phi]bool) bool {
	if seen[p] {
		return true
	}
	seen[p] = true
	for _, e := range p.Edges {
		switch x := e.(type) {
		case *ssa.Alloc:
		case *ssa.Call:
			if !an.IsCallTo(x, "MergeConfig") {
				return false
			}
		case *ssa.Phi:
			if !accumulatorShape(x, seen) {
				return false
			}
		default:
			return false
		}
	}
	return true
}

func fieldType(t types.Type, path string) types.Type {
	for _, part := range strings.Split(path, ".") {
		st, ok := t.Underlying().(*types.Struct)
		if !ok {
			return types.Typ[types.Invalid]
		}
		found := false
		for i := 0; i < st.NumFields(); i++ {
			if st.Field(i).Name() == part {
				t = st.Field(i).Type()
				found = true
			}
		}
		if !found {
			return types.Typ[types.Invalid]
		}
	}
	return t
}
