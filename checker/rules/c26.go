package rules

import (
	"go/token"
	"regexp/syntax"
	"strings"

	"serfcheck/an"

	"golang.org/x/tools/go/ssa"
)

func init() {
	register(&Rule{
		ID:      "C26",
		Explain: "Decides whole-string matching of the filtered member listing structurally: every format constant that wraps a user pattern before regexp.Compile in the agent's member filter is analysed with regexp/syntax — with an alternation substituted for the verb, the parse must be begin-text · (pattern) · end-text, i.e. the anchors bind the whole pattern for every operator; the compiled expressions are matched against the member's tag value for the requested tag (missing tag ⇒ empty string), its status string and its name; a member is appended only behind every requested test; a compile error returns an error and a nil list before anything is matched.",
		Run:     runC26,
		Mutants: []Mutant{
			{Name: "empty-tag-pattern-skipped", File: "cmd/serf/command/agent/ipc.go", Func: "func (i *AgentIPC) filterMembers(", Old: "\tfor tag, expr := range tags {\n", New: "\tfor tag, expr := range tags {\n\t\tif expr == \"\" {\n\t\t\tcontinue\n\t\t}\n", Old2: "\t\tfor tag := range tags {\n\t\t\tif !tagsRe[tag].MatchString(m.Tags[tag]) {", New2: "\t\tfor tag, re := range tagsRe {\n\t\t\tif !re.MatchString(m.Tags[tag]) {", Expect: "R2|filterMembers:every-tag-compiled"},
			{Name: "status-pattern-lowercased", File: "cmd/serf/command/agent/ipc.go", Func: "func (i *AgentIPC) handleMembers(", Old: "i.filterMembers(raw, req.Tags, req.Status, req.Name)", New: "i.filterMembers(raw, req.Tags, strings.ToLower(req.Status), req.Name)", Expect: "R3"},
			{Name: "anchors-bind-loosely", File: "cmd/serf/command/agent/ipc.go", Func: "func (i *AgentIPC) filterMembers(", Old: "statusRe, err := regexp.Compile(fmt.Sprintf(\"^(?:%s)$\", status))", New: "statusRe, err := regexp.Compile(fmt.Sprintf(\"^%s$\", status))", Expect: "R1"},
			{Name: "unanchored-name", File: "cmd/serf/command/agent/ipc.go", Func: "func (i *AgentIPC) filterMembers(", Old: "nameRe, err := regexp.Compile(fmt.Sprintf(\"^(?:%s)$\", name))", New: "nameRe, err := regexp.Compile(fmt.Sprintf(\"(?:%s)\", name))", Expect: "R1"},
			{Name: "name-filter-on-status", File: "cmd/serf/command/agent/ipc.go", Func: "func (i *AgentIPC) filterMembers(", Old: "nameRe.MatchString(m.Name)", New: "nameRe.MatchString(m.Status.String())", Expect: "R2"},
			{Name: "tag-mismatch-ignored", File: "cmd/serf/command/agent/ipc.go", Func: "func (i *AgentIPC) filterMembers(", Old: "\t\t\tif !tagsRe[tag].MatchString(m.Tags[tag]) {\n\t\t\t\tcontinue OUTER\n\t\t\t}\n", New: "\t\t\tif !tagsRe[tag].MatchString(m.Tags[tag]) {\n\t\t\t\tif len(tags) > 1 {\n\t\t\t\t\tcontinue OUTER\n\t\t\t\t}\n\t\t\t\tbreak\n\t\t\t}\n", Expect: "R2"},
			{Name: "invalid-pattern-matches-nothing", File: "cmd/serf/command/agent/ipc.go", Func: "func (i *AgentIPC) filterMembers(", Old: "\tnameRe, err := regexp.Compile(fmt.Sprintf(\"^(?:%s)$\", name))\n\tif err != nil {\n\t\treturn nil, fmt.Errorf(\"Failed to compile regex: %v\", err)\n\t}\n", New: "\tnameRe, err := regexp.Compile(fmt.Sprintf(\"^(?:%s)$\", name))\n\tif err != nil {\n\t\treturn result, nil\n\t}\n", Expect: "R3"},
			{Name: "status-filter-skipped", File: "cmd/serf/command/agent/ipc.go", Func: "func (i *AgentIPC) filterMembers(", Old: "if status != \"\" && !statusRe.MatchString(m.Status.String()) {", New: "if status != \"\" && name == \"\" && !statusRe.MatchString(m.Status.String()) {", Expect: "R2"},
		},
	})
}

// wholeStringAnchored reports whether format f (one %s verb) anchors every
// substituted pattern over the whole string.
func wholeStringAnchored(f string) (bool, string) {
	if strings.Count(f, "%s") != 1 || strings.Count(f, "%") != 1 {
		return false, "format must contain exactly one %s verb"
	}
	for _, probe := range []string{"a|b", "ab", "a", "(a)|b*", ""} {
		re, err := syntax.Parse(strings.Replace(f, "%s", probe, 1), syntax.Perl)
		if err != nil {
			return false, "format does not parse with probe " + probe + ": " + err.Error()
		}
		if re.Op != syntax.OpConcat || len(re.Sub) < 2 {
			return false, "with pattern `" + probe + "` the expression parses as " + re.Op.String() + " (" + re.String() + "), not as ^(pattern)$"
		}
		first, last := re.Sub[0], re.Sub[len(re.Sub)-1]
		if first.Op != syntax.OpBeginText || last.Op != syntax.OpEndText {
			return false, "with pattern `" + probe + "` the expression is " + re.String() + ": anchors do not enclose the whole pattern"
		}
	}
	return true, ""
}

func runC26(c *an.Ctx) {
	c.Rule("R3 the members handler hands the request's tag, status and name patterns to the filter unchanged (a pattern is not text to normalise)")
	if hm := am(c, "R3", "AgentIPC", "handleMembers"); hm != nil {
		calls := an.CallsTo(hm, "(*AgentIPC).filterMembers")
		c.Floor("R3", "filter calls in the members handler", len(calls), 1)
		for _, call := range calls {
			a := an.CallOf(call).Args
			want := []string{".Tags", ".Status", ".Name"}
			for k, suf := range want {
				p := ""
				if 2+k < len(a) {
					p = an.Path(a[2+k])
				}
				c.Add(strings.HasPrefix(p, "local:") && strings.HasSuffix(p, suf) && strings.Count(p, "(") == 0, "R3", "handleMembers:pattern-unchanged:"+strings.TrimPrefix(suf, "."), call, "the "+strings.TrimPrefix(suf, ".")+" pattern reaches the filter exactly as decoded from the request (got "+short(p)+")", "argument provenance")
			}
		}
	}
	c.Rule("R1 anchoring: every format wrapping a user pattern parses (regexp/syntax, alternation probe) as begin-text · pattern · end-text")
	c.Rule("R2 matched strings: m.Tags[tag] / m.Status.String() / m.Name against the expression compiled from the corresponding pattern; a member is appended only behind all requested tests")
	c.Rule("R3 a compile error returns (nil, error) before any matching")
	fm := am(c, "R1", "AgentIPC", "filterMembers")
	if fm == nil {
		return
	}
	type comp struct {
		call *ssa.Call
		what string // tags | status | name
	}
	var comps []comp
	for _, in := range an.CallsTo(fm, "regexp.Compile", "regexp.MustCompile") {
		call := in.(*ssa.Call)
		var f string
		var okF bool
		var args []ssa.Value
		if sp, ok := call.Call.Args[0].(*ssa.Call); ok && an.IsCallTo(sp, "fmt.Sprintf") {
			f, okF = an.ConstString(sp.Call.Args[0])
			args = an.VarArgs(&sp.Call)
		} else if bo, isB := call.Call.Args[0].(*ssa.BinOp); isB && bo.Op == token.ADD {
			// the same wrapping written as a concatenation: constant + pattern + constant
			var parts []ssa.Value
			var flat func(v ssa.Value)
			flat = func(v ssa.Value) {
				if bb, isBB := v.(*ssa.BinOp); isBB && bb.Op == token.ADD {
					flat(bb.X)
					flat(bb.Y)
					return
				}
				parts = append(parts, v)
			}
			flat(bo)
			if len(parts) == 3 {
				pre, ok0 := an.ConstString(parts[0])
				post, ok2 := an.ConstString(parts[2])
				if ok0 && ok2 && !strings.Contains(pre+post, "%") {
					f, okF, args = pre+"%s"+post, true, []ssa.Value{parts[1]}
				}
			}
		}
		if !okF && len(args) == 0 {
			c.Undecided("R1", "filterMembers:compile-arg", in, "pattern compiled from something other than a constant-format Sprintf or constant+pattern+constant: "+an.Path(call.Call.Args[0]))
			continue
		}
		if !okF || len(args) != 1 {
			c.Undecided("R1", "filterMembers:compile-format", in, "non-constant format or not exactly one argument")
			continue
		}
		what := ""
		switch an.Path(args[0]) {
		case "next(range($2))#2":
			what = "tags"
		case "$3":
			what = "status"
		case "$4":
			what = "name"
		}
		okA, why := wholeStringAnchored(f)
		c.Add(okA, "R1", "filterMembers:anchored:"+what, in, "the "+what+" pattern is wrapped by "+quoteS(f)+" which must anchor the WHOLE pattern"+map[bool]string{true: "", false: " — " + why}[okA], "regexp/syntax parse of the format with probe patterns")
		c.Add(what != "", "R1", "filterMembers:pattern-source:"+what, in, "the compiled pattern is one of the request's patterns (argument "+an.Path(args[0])+")", "argument provenance")
		comps = append(comps, comp{call, what})
	}
	c.Floor("R1", "pattern compilations in filterMembers", len(comps), 3)

	// R3
	for _, k := range comps {
		errPath := an.Path(k.call) + "#1"
		var errEx *ssa.Extract
		for _, r := range *k.call.Referrers() {
			if ex, ok := r.(*ssa.Extract); ok && ex.Index == 1 {
				errEx = ex
			}
		}
		if errEx == nil {
			c.Add(false, "R3", "filterMembers:compile-error-checked:"+k.what, k.call, "the compile error of the "+k.what+" pattern is not examined", "")
			continue
		}
		// find the If on this particular error value
		var bad []an.Edge
		for _, r := range *errEx.Referrers() {
			if b, ok := r.(*ssa.BinOp); ok {
				for _, rr := range *b.Referrers() {
					if iff, ok := rr.(*ssa.If); ok {
						succ := 0
						if b.Op.String() == "==" {
							succ = 1
						}
						bad = append(bad, an.Edge{From: iff.Block(), Succ: succ})
					}
				}
			}
		}
		c.Add(len(bad) == 1, "R3", "filterMembers:compile-error-branch:"+k.what, k.call, "the compile error of the "+k.what+" pattern is branched on ("+errPath+")", "referrer enumeration")
		for _, e := range bad {
			r := an.ReachFromBlock(fm, e.To(), nil, func(in ssa.Instruction) bool {
				if an.IsCallTo(in, "regexp.(*Regexp).MatchString") {
					return true
				}
				ret, ok := in.(*ssa.Return)
				if !ok {
					return false
				}
				v := an.ResultValues(ret)
				return len(v) != 2 || !an.IsNilConst(v[0]) || an.IsNilConst(v[1])
			})
			c.Add(r == nil, "R3", "filterMembers:invalid-pattern-error:"+k.what, k.call, "an invalid "+k.what+" pattern yields an error and a nil list, and nothing is matched", "reachability from the error edge")
		}
	}

	// R2
	var app *ssa.Call
	an.Instrs(fm, func(in ssa.Instruction) {
		if call, ok := in.(*ssa.Call); ok {
			if b, ok := call.Call.Value.(*ssa.Builtin); ok && b.Name() == "append" {
				app = call
			}
		}
	})
	if app == nil {
		c.Anchor("R2", "append to the result in filterMembers")
		return
	}
	elem := "$1[(phi:rangeindex@" + itoa(outerHeader(fm)) + "+c:1)]"
	c.Add(appendedElemMentions(app, elem), "R2", "filterMembers:appends-member", app, "the appended element is the member under test", "append operand")
	byWhat := map[string]*ssa.Call{}
	for _, k := range comps {
		byWhat[k.what] = k.call
	}
	// every requested tag gets its compiled expression: within the compile loop over the requested
	// tags, the loop head is reached again only through the map update (no pattern, the empty one
	// included, is skipped: "role=" selects the members without a role)
	nUpd := 0
	an.Instrs(fm, func(x ssa.Instruction) {
		mu, ok := x.(*ssa.MapUpdate)
		if !ok || an.Path(mu.Key) != "next(range($2))#1" {
			return
		}
		ex, ok := mu.Key.(*ssa.Extract)
		if !ok {
			return
		}
		nx, ok := ex.Tuple.(*ssa.Next)
		if !ok {
			return
		}
		nUpd++
		skip := an.ReachFrom(fm, nx, &an.Cut{Instrs: func(in ssa.Instruction) bool { return in == ssa.Instruction(mu) }}, func(in ssa.Instruction) bool { return in == ssa.Instruction(nx) })
		c.Add(skip == nil, "R2", "filterMembers:every-tag-compiled", mu, "each iteration over the requested tags stores a compiled expression for that tag (or returns the compile error)", "reach/cut from the loop head back to itself")
	})
	c.Floor("R2", "per-tag expression stores in filterMembers", nUpd, 1)
	seen := map[string]bool{}
	for _, in := range an.CallsTo(fm, "regexp.(*Regexp).MatchString") {
		call := in.(*ssa.Call)
		recv, subj := call.Call.Args[0], an.Path(call.Call.Args[1])
		what := ""
		// receiver provenance
		if ex, ok := recv.(*ssa.Extract); ok && ex.Index == 0 {
			for w, k := range byWhat {
				if ex.Tuple == ssa.Value(k) {
					what = w
				}
			}
		}
		if lk, ok := recv.(*ssa.Lookup); ok {
			// tagsRe[tag]: the map's only update stores the tags compile result under the tag name
			okMap := false
			an.Instrs(fm, func(x ssa.Instruction) {
				if mu, ok := x.(*ssa.MapUpdate); ok && mu.Map == lk.X {
					if ex, ok := mu.Value.(*ssa.Extract); ok && byWhat["tags"] != nil && ex.Tuple == ssa.Value(byWhat["tags"]) && ex.Index == 0 && an.Path(mu.Key) == "next(range($2))#1" {
						okMap = true
					}
				}
			})
			if okMap && an.Path(lk.Index) == "next(range($2))#1" {
				what = "tags"
			}
		}
		wantTags := elem + ".Tags[next(range($2))#1]"
		if ex, ok := recv.(*ssa.Extract); ok && ex.Index == 2 && what == "" {
			// for tag, re := range tagsRe: the compiled expressions are walked directly; the map has one entry
			// per requested tag (its only update stores the tags compile result under the tag name)
			if nx, isNx := ex.Tuple.(*ssa.Next); isNx {
				if rg, isRg := nx.Iter.(*ssa.Range); isRg {
					okMap := false
					an.Instrs(fm, func(x ssa.Instruction) {
						if mu, ok := x.(*ssa.MapUpdate); ok && mu.Map == rg.X {
							if cx, ok := mu.Value.(*ssa.Extract); ok && byWhat["tags"] != nil && cx.Tuple == ssa.Value(byWhat["tags"]) && cx.Index == 0 && an.Path(mu.Key) == "next(range($2))#1" {
								okMap = true
							}
						}
					})
					if okMap {
						what = "tags"
						wantTags = elem + ".Tags[" + an.Path(nx) + "#1]"
					}
				}
			}
		}
		want := map[string]string{"tags": wantTags, "status": "(MemberStatus).String(" + elem + ".Status)", "name": elem + ".Name"}[what]
		seen[what] = true
		c.Add(what != "" && subj == want, "R2", "filterMembers:subject:"+what, in, "the "+what+" expression is matched against "+want+" (got "+subj+")", "receiver provenance + subject path")
		if what == "" {
			continue
		}
		okEdge := an.EdgesImplying(fm, an.Cmp{L: an.Path(call), Op: "==", R: "c:true"})
		// distinguish by instruction: edges of the If on this call
		okEdge = nil
		var failEdge []an.Edge
		for _, r := range *call.Referrers() {
			if iff, ok := r.(*ssa.If); ok {
				okEdge = append(okEdge, an.Edge{From: iff.Block(), Succ: 0})
				failEdge = append(failEdge, an.Edge{From: iff.Block(), Succ: 1})
			}
		}
		switch what {
		case "status", "name":
			param := map[string]string{"status": "$3", "name": "$4"}[what]
			g := append(an.EdgesImplying(fm, an.Cmp{L: param, Op: "==", R: `c:""`}), okEdge...)
			c.Add(an.Guarded(fm, app, g), "R2", "filterMembers:append-behind:"+what, app, "a member is appended only if no "+what+" filter was requested or it matched", "edge dominance over {filter empty, matched}")
		case "tags":
			for _, e := range failEdge {
				r := an.ReachFromBlock(fm, e.To(), &an.Cut{Instrs: func(x ssa.Instruction) bool {
					return x.Block().Comment == "rangeindex.loop"
				}}, func(x ssa.Instruction) bool { return x == ssa.Instruction(app) })
				c.Add(r == nil, "R2", "filterMembers:tag-mismatch-skips", app, "a member failing a requested tag filter is not appended", "reach/cut from the mismatch edge within one member's iteration")
			}
			// every requested tag is tested: the append is behind the tag loop's exhaustion
			exh := an.EdgesWhere(fm, func(f an.Cmp) bool { return f.L == "next(range($2))#0" && f.Op == "==" && f.R == "c:false" })
			c.Add(an.Guarded(fm, app, exh), "R2", "filterMembers:all-tags-tested", app, "a member is appended only after every requested tag was tested", "edge dominance by the tag loop's exit")
		}
	}
	for _, w := range []string{"tags", "status", "name"} {
		c.Add(seen[w], "R2", "filterMembers:tests:"+w, fm, "the "+w+" filter is applied", "call enumeration")
	}
}

func outerHeader(fn *ssa.Function) int {
	for _, b := range fn.Blocks {
		if b.Comment == "rangeindex.loop" {
			return b.Index
		}
	}
	return -1
}
