#!/bin/bash
# usage: tools/tryseed.sh <patch.diff> <prop> [<prop>...]   apply a seeded change to /repo, run quick checks, undo
set -u
P="$1"; shift
cd /repo || exit 2
if ! git diff --quiet; then echo "/repo has uncommitted changes"; exit 2; fi
git apply "$P" || { echo "patch does not apply"; exit 2; }
for id in "$@"; do
  (cd /verif && VERIF_NO_SELFTEST=1 ./run.sh "$id" quick 2>&1 | grep -v "selftest" | tail -12)
done
git -C /repo checkout -- .
# restore the evidence files for the unchanged tree
for id in "$@"; do
  (cd /verif && VERIF_NO_SELFTEST= ./run.sh "$id" quick >/dev/null 2>&1 || echo "WARNING: $id fails on the unchanged tree")
done
