#!/bin/bash
# usage: tools/tryrefactor.sh <patch> <prop> [<prop>...]   apply a behaviour-preserving patch to a scratch worktree (/tmp/seed/apply,
# created with `git -C /repo worktree add --detach /tmp/seed/apply HEAD`), run the quick checks against it (-repo), expect silence.
set -u
P="$1"; shift
WT=/tmp/seed/apply
[ -d $WT ] || git -C /repo worktree add -q --detach $WT HEAD
git -C $WT checkout -q -- . && git -C $WT apply "$P" || { echo "$(basename $P): patch does not apply"; exit 2; }
mkdir -p /tmp/vtmp/evidence /tmp/vtmp/replay; cp /verif/KNOWN_FINDINGS.txt /tmp/vtmp/
if [ $# -eq 0 ]; then
  # choose the properties whose rules look at the touched files
  props=""
  for f in $(grep '^+++ b/' "$P" | sed 's#^+++ b/##'); do
    case $f in
      serf/serf.go) props="$props C02 C03 C04 C05 C06 C08 C09 C14 C15 C16 C22 C32 C33 C34 C36";;
      serf/query.go) props="$props C07 C08 C09 C33 C35";;
      serf/snapshot.go) props="$props C09 C10 C11 C12 C13 C14";;
      serf/coalesce*.go) props="$props C09 C16 C17 C18";;
      serf/lamport.go) props="$props C02 C03 C06 C19";;
      serf/event.go) props="$props C07 C09 C33";;
      serf/delegate.go|serf/messages.go|serf/merge_delegate.go|serf/event_delegate.go) props="$props C04 C05 C08 C09 C14 C32";;
      serf/ping_delegate.go) props="$props C09 C20";;
      serf/internal_query.go|serf/keymanager.go) props="$props C09 C16 C22 C23 C36";;
      serf/config.go) props="$props C32 C33";;
      coordinate/*) props="$props C09 C20 C21";;
      client/*) props="$props C28";;
      cmd/serf/command/agent/ipc*.go) props="$props C24 C25 C26 C30";;
      cmd/serf/command/agent/event_handler.go|cmd/serf/command/agent/invoke.go) props="$props C27";;
      cmd/serf/command/agent/gated_writer.go|cmd/serf/command/agent/log_writer.go) props="$props C29";;
      cmd/serf/command/agent/config.go) props="$props C27 C31";;
      cmd/serf/command/agent/agent.go) props="$props C22 C25 C27 C30";;
      cmd/serf/command/agent/command.go) props="$props C27 C29";;
    esac
  done
  set -- $(echo $props | tr ' ' '\n' | sort -u)
fi
rc=0
for id in "$@"; do
  out=$(cd /verif && VERIF_NO_SELFTEST=1 ./bin/serfcheck -prop $id -tier quick -repo $WT -verif /tmp/vtmp 2>&1)
  if echo "$out" | grep -q "^VIOLATION"; then
    echo "$(basename $P) $id: ALARM"; echo "$out" | grep "violated\|undecided" | cut -c1-330 | head -8; rc=1
  else
    echo "$(basename $P) $id: silent"
  fi
done
git -C $WT checkout -q -- .
exit $rc
