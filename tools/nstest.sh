#!/bin/bash
# usage: tools/nstest.sh <dir> <go test args...>   run go test in a private network namespace (own loopback,
# multicast enabled for the mDNS test), so that concurrently running copies of the serf test-suite cannot
# gossip with each other.
D="$1"; shift
export PATH=/opt/veriftools/go1.26.8/bin:$PATH GOFLAGS=-mod=mod GOPROXY=off GOSUMDB=off GOTOOLCHAIN=local; unset GOWORK
cd "$D" && exec unshare -rn sh -c 'ip link set lo up; ip link set lo multicast on; ip route add 224.0.0.0/4 dev lo; ip -6 route add ff00::/8 dev lo 2>/dev/null; exec go test -vet=off -count=1 "$@"' sh "$@"
