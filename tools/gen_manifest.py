#!/usr/bin/env python3
"""Regenerates /verif/MANIFEST.json from tools/claims.json (one entry per claimed property)."""
import json, os, sys
here = os.path.dirname(os.path.abspath(__file__))
root = os.path.dirname(here)
claims = json.load(open(os.path.join(here, 'claims.json')))
props = [json.loads(l) for l in open(os.path.join(root, 'properties.jsonl'))]
ids = [p['id'] for p in props]
checks, na = [], []
for pid in ids:
    c = claims['claimed'].get(pid)
    if c is None:
        na.append({"property_id": pid, "reason": claims['not_applicable'].get(pid, "check not built yet in this revision (planned rules: DESIGN.md section 3)")})
        continue
    checks.append({
        "property_id": pid,
        "quick_cmd": f"./run.sh {pid} quick",
        "thorough_cmd": f"./run.sh {pid} thorough",
        "evidence_file": f"/verif/evidence/{pid}.json",
        "replay_cmd_template": "./run.sh --replay {path}",
        "engine": "serfcheck",
        "level_claimed": {"category": "other", "text": c['text'], "design_ref": f"DESIGN.md section 3, {pid}"},
        "level_note": c['note'],
        "technique": c['technique'],
    })
m = {
    "version": 1,
    "setup_cmd": "./run.sh --build",
    "hooks": {
        "guard": "verif",
        "enable": "none needed: the checker reads /repo's working tree (go/packages + go/ssa); no instrumentation is compiled into hashicorp/serf",
        "baseline_off_cmd": "cd /repo && go build ./... && go test -vet=off -count=1 -timeout 25m ./...",
        "source_commits": [],
        "add_only": True,
    },
    "engines": [{
        "name": "serfcheck",
        "path": "/verif/checker",
        "serves_properties": [c["property_id"] for c in checks],
        "kind_free_text": "custom static analysis over the type-checked program and go/ssa: access-path predicates, reach/cut edge dominance, must-pass, must-held lockset with entry-held fixpoint, field ownership enumeration, AST tables; self-tested by in-memory source mutants",
    }],
    "checks": checks,
    "not_applicable": na,
    "notes": "All claims are level 'other': a repository-specific static analysis that decides named structural clauses of each property for all paths/inputs/schedules; DESIGN.md states per property which clauses are decided and which are not. KNOWN_FINDINGS.txt lists genuine defects (finding:/fixed:).",
}
json.dump(m, open(os.path.join(root, 'MANIFEST.json'), 'w'), indent=1)
print(f"claimed {len(checks)} not_applicable {len(na)}")
