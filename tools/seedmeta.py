#!/usr/bin/env python3
"""Writes /verif/seeded/<name>/meta.json from the table below (one entry per confirmed seeded change)."""
import json, os, glob
root = os.path.dirname(os.path.dirname(os.path.abspath(__file__)))
CONFIRM = ("confirmed by tools/confirm_seed.sh in the sub-agent's scratch worktree, inside a private network namespace "
           "(tools/nstest.sh): demo test fails with patch.diff applied, passes with it reverted; the full existing suite "
           "(go test -vet=off -count=1 ./...) passes with the patch apart from the baseline's always-failing TestSyslogFilter "
           "(networked tests that failed once were re-run alone up to 3 times)")
T = {
 "C02": dict(breaks="C02", base="efa037c", summary="handleNodeJoin: the block applying a buffered join/leave intent is moved out of the 'member not yet known' branch and now also runs when a known member rejoins; recentIntents entries are never consumed, so a stale buffered intent overwrites statusLTime with an older time (status time goes backwards) and later lets a duplicated old leave flip a running member to leaving/left",
             needs="an intent buffered before the member was known, the member going down and rejoining within RecentIntentTimeout, then a duplicate of the old leave (multi-step history)", detected_by=["C02 R1 (store to memberState.statusLTime in handleNodeJoin that is not an initialisation of a fresh member)"]),
 "C03": dict(breaks="C03", base="efa037c", summary="handleNodeLeaveIntent: the self-refutation is wrapped in if s.joinLock.TryLock() {...}: while a Join() is in flight the claim is not refuted, and Join only broadcasts a join when it contacted somebody",
             needs="a leave/force-leave claim about the local node arriving while a Join() that contacts nobody is in progress (interleaving)", detected_by=["C03 R4 (extra necessary condition sync.(*Mutex).TryLock(...) == true on the way to the refutation)"]),
 "C04": dict(breaks="C04", base="efa037c", summary="handleUserEvent/handleQuery: the too-old test is rewritten as lastTime-LTime > len(buffer) with lastTime = clock-1, accepting one more Lamport time than the ring has slots; two retained messages exactly one buffer length apart evict each other's dedupe record and are re-broadcast on every redelivery",
             needs="two messages whose Lamport times differ by exactly the buffer length (512 by default) and a redelivery (unusual input + sequence)", detected_by=["C04 W (window-lower-bound, drop-condition)", "C05 W", "C08 W"]),
 "C05": dict(breaks="C05", base="efa037c", summary="handleUserEvent: window test computed from latest := clock-1, accepting len+1 times; an event replayed after an event exactly one buffer length newer overwrote its slot is delivered a second time",
             needs="event A at T, event B at T+len(buffer), then a replay of A (state sync from a lagging peer) before the clock moves again", detected_by=["C05 W/R5", "C04 W"]),
 "C06": dict(breaks="C06", base="c845cfa", summary="LamportClock.Witness: the goto retry is rewritten as a for loop whose early exit after a failed CAS is 'cur >= other' instead of 'cur > other'; a witness racing with a local Increment returns with the clock equal to the witnessed time, so the next originated event reuses a time already processed",
             needs="an incoming message exactly one tick ahead racing with a local Increment inside Witness's load-to-CAS window (interleaving)", detected_by=["C06 R2' (shared Witness post-condition)", "C19 R2 (Witness:post-condition, retry shape)"]),
 "C08": dict(breaks="C08", base="efa037c", summary="handleQuery: the nested duplicate check is flattened to 'seen != nil && seen.LTime == query.LTime && Contains(ids, id)', so the else branch replaces the slot record also when the time matches but the id is new, forgetting every id seen earlier at that time; a duplicate of the first query is delivered, acked and re-broadcast again",
             needs="two different queries with the same Lamport time and a duplicate of the first arriving after the second (A, B, A)", detected_by=["C08 slot-replaced-only-when-stale", "C04 slot-replaced-only-when-stale"]),
 "C13": dict(breaks="C13", base="efa037c", summary="Snapshotter.stream leave case: the alive set is cleared after tryAppend(\"leave\\n\")+flush+sync instead of before; when that append triggers a compaction, the compacted file is rebuilt from the still-populated in-memory set and the buffered leave line is lost with the old file",
             needs="the 6-byte leave record itself crossing the compaction threshold (specific history length)", detected_by=["C13 R2 (clear-before-append, clear-not-after-append)"]),
 "C14": dict(breaks="C14", base="efa037c", summary="MergeRemoteState: the join-ignore branch assigns eventMinTime = pp.EventLTime unconditionally instead of only raising it; joining (ignoreOld) a peer with a lower event clock pulls the restart cut-off below the snapshot's recorded clock and old events are re-delivered",
             needs="restart from a snapshot, then Join(ignoreOld=true) to a peer whose event clock is lower, then old events arriving again (two cooperating sites)", detected_by=["C14 R3 (raise-only)", "C05 R6"]),
 "C15": dict(breaks="C15", base="efa037c", summary="reap: 'memberTimeout := timeout' hoisted out of the per-member loop; the override's base for each member becomes the previous member's overridden value, so a short override leaks to later members, which are reaped early with spurious reap events",
             needs="a ReconnectTimeoutOverride that derives from the passed-in timeout, two members in one list, the short-override member scanned first", detected_by=["C15 R5 (override-base, timeout-value)"]),
 "C16": dict(breaks="C16", base="c845cfa", summary="memberEventCoalescer.Coalesce skips ('continue') an event equal to the member's last delivered kind; an earlier, different event pending in the same quantum is then left in place and delivered, so the last event seen for a member (e.g. failed) contradicts its status (alive)",
             needs="coalescing enabled and a flap (failed then join) within one coalescing window after a delivered join", detected_by=["C16 R3 (shared with C17: Coalesce:latest-always-overwrites)", "C17 R2"]),
 "C17": dict(breaks="C17", base="c845cfa", summary="same early-skip in memberEventCoalescer.Coalesce (independently produced): a flap within one quantum reports the stale kind",
             needs="a member whose kind K was already reported receiving a different kind and then K again within one quantum", detected_by=["C17 R2 (Coalesce:latest-always-overwrites)"]),
 "C18": dict(breaks="C18", base="c845cfa", summary="userEventCoalescer.Flush keeps the per-name entries and only truncates their slices instead of replacing the map; the retained LTime high-water mark makes Coalesce drop every later event of that name with a lower Lamport time",
             needs="name N at LTime 5, flush, then N at LTime 3 (delayed gossip), flush", detected_by=["C18 R2 (Flush:resets)", "C17 R1 (sibling reset rule)"]),
 "C19": dict(breaks="C19", base="c845cfa", summary="LamportClock.Witness: retry loop removed, a single CompareAndSwap whose result is ignored; a concurrent write between the load and the CAS drops the witness and the clock stays <= the witnessed value",
             needs="a concurrent Increment/Witness inside the load-to-CAS window", detected_by=["C19 R2 (retry-reloads, post-condition)"]),
 "C33": dict(breaks="C33", base="c845cfa", summary="UserEvent: the size checks run on an encoding built with LTime 0 and the message is re-encoded with the real LTime afterwards; msgpack needs up to 8 more bytes for a large LTime, so an event up to 8 bytes over the limit is accepted, delivered and broadcast",
             needs="an event clock >= 128 (history) and a name+payload within a few bytes of the limit (unusual input)", detected_by=["C33 R1 (anchor: exactly one encodeMessage call; enqueued==checked identity)"]),
}
for name, m in T.items():
    d = os.path.join(root, 'seeded', name)
    if not os.path.isdir(d):
        print('missing', name); continue
    demo = [os.path.basename(f) for f in glob.glob(os.path.join(d, '*_test.go'))]
    meta = {
        "id": name, "breaks_property": m["breaks"], "base_commit_of_patch": m["base"],
        "what_it_changes": m["summary"], "needs_to_manifest": m["needs"],
        "demonstration": demo, "how_confirmed": CONFIRM,
        "apply": "git -C /repo apply /verif/seeded/%s/patch.diff   (undo: git -C /repo checkout -- .)" % name,
        "checks_run": "tools/tryseed.sh /verif/seeded/%s/patch.diff <property ids>" % name,
        "detected_by": m["detected_by"],
        "origin": "independent sub-agent given only the property text and a scratch worktree",
    }
    json.dump(meta, open(os.path.join(d, 'meta.json'), 'w'), indent=1)
print('ok')
