#!/bin/bash
# usage: tools/confirm_seed.sh <id> [<name>]   confirm a sub-agent's seeded change in its scratch worktree /tmp/seed/<id>
# and store it under /verif/seeded/<name>/ (default name = id). Removes the worktree when confirmed.
set -u
ID="$1"; NAME="${2:-$1}"
WT=/tmp/seed/$ID
export PATH=/opt/veriftools/go1.26.8/bin:$PATH GOFLAGS=-mod=mod GOPROXY=off GOSUMDB=off GOTOOLCHAIN=local; unset GOWORK
cd "$WT" || { echo "$ID: no worktree"; exit 2; }
DEMO=$(git status --porcelain | awk '/^\?\?/{print $2}' | grep -E '_test\.go$|\.go$' | head -1)
[ -n "$DEMO" ] || { echo "$ID: no demo file"; exit 2; }
PKG=./$(dirname "$DEMO")
RUN=$(grep -ohE 'func (Test[A-Za-z0-9_]+)' "$DEMO" | awk '{print $2}' | paste -sd'|')
git diff > /tmp/seed/$ID.confirm.patch
[ -s /tmp/seed/$ID.confirm.patch ] || { echo "$ID: empty patch"; exit 2; }
echo "== $ID demo=$DEMO run=$RUN"
/verif/tools/nstest.sh "$WT" -run "^($RUN)\$" "$PKG" > /tmp/seed/$ID.with.log 2>&1; W=$?
git checkout -- . 
/verif/tools/nstest.sh "$WT" -run "^($RUN)\$" "$PKG" > /tmp/seed/$ID.without.log 2>&1; WO=$?
git apply /tmp/seed/$ID.confirm.patch
mv "$DEMO" /tmp/seed/$ID.demo.go
go build ./... > /tmp/seed/$ID.suite.log 2>&1 && /verif/tools/nstest.sh "$WT" ./... >> /tmp/seed/$ID.suite.log 2>&1
FAILS=$(grep -E '^--- FAIL' /tmp/seed/$ID.suite.log | grep -v TestSyslogFilter | awk '{print $3}' | sort -u | paste -sd' ')
if [ -n "$FAILS" ]; then
  # re-run once the failing tests only (networked tests are flaky under load)
  # networked tests are flaky under load: a test counts as failing only if it fails 3 more times in a row, run alone
  for try in 1 2 3; do
    [ -z "$FAILS" ] && break
    PAT=$(echo $FAILS | tr ' ' '|')
    /verif/tools/nstest.sh "$WT" -p 1 -run "^($PAT)\$" ./... > /tmp/seed/$ID.suite2.log 2>&1
    FAILS=$(grep -E '^--- FAIL' /tmp/seed/$ID.suite2.log | awk '{print $3}' | sort -u | paste -sd' ')
  done
fi
if [ -n "$FAILS" ]; then
  # still failing: attribute to the change only if the same tests pass on the unchanged tree under the same load
  git checkout -- .
  PAT=$(echo $FAILS | tr ' ' '|')
  /verif/tools/nstest.sh "$WT" -p 1 -run "^($PAT)\$" ./... > /tmp/seed/$ID.base.log 2>&1
  BASEFAILS=$(grep -E '^--- FAIL' /tmp/seed/$ID.base.log | awk '{print $3}' | sort -u | paste -sd' ')
  git apply /tmp/seed/$ID.confirm.patch
  KEEP=""
  for t in $FAILS; do
    case " $BASEFAILS " in *" $t "*) echo "  ($t also fails on the unchanged tree under this load: not attributed to the change)";; *) KEEP="$KEEP $t";; esac
  done
  FAILS=$(echo $KEEP)
fi
mv /tmp/seed/$ID.demo.go "$DEMO"
echo "$ID: demo-with-change exit=$W  demo-without exit=$WO  suite-fails='${FAILS}'"
if [ $W -ne 0 ] && [ $WO -eq 0 ] && [ -z "$FAILS" ]; then
  D=/verif/seeded/$NAME; mkdir -p $D
  cp /tmp/seed/$ID.confirm.patch $D/patch.diff
  cp "$DEMO" $D/$(basename "$DEMO")
  tail -5 /tmp/seed/$ID.with.log > $D/demo_with_change.txt
  echo "CONFIRMED $ID -> $D (demo: $DEMO)"
  cd / && git -C /repo worktree remove --force "$WT"
else
  echo "NOT CONFIRMED $ID"
fi
