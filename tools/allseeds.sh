#!/bin/bash
# usage: tools/allseeds.sh [<name>...]   for every confirmed seeded change under /verif/seeded: apply it to /repo, run the quick check of
# the property it breaks (selftest off), expect exit 1 with a VIOLATION line, undo. Prints one line per seed; exit 1 if one is missed.
set -u
cd /verif
names=("$@"); [ ${#names[@]} -eq 0 ] && names=($(ls seeded))
if ! git -C /repo diff --quiet; then echo "/repo has uncommitted changes"; exit 2; fi
miss=0
for n in "${names[@]}"; do
  id=${n%%_*}
  git -C /repo apply /verif/seeded/$n/patch.diff 2>/dev/null || { echo "$n: patch does not apply to the current tree"; miss=1; continue; }
  out=$(VERIF_NO_SELFTEST=1 ./run.sh $id quick 2>&1); rc=$?
  git -C /repo checkout -- .
  keys=$(echo "$out" | grep -o 'key=[^ ]*' | grep -v '^key=$' | sed 's/key=//' | sort -u | paste -sd' ' | cut -c1-300)
  if [ $rc -eq 1 ] && echo "$out" | grep -q "^VIOLATION property=$id "; then echo "$n: DETECTED by $id [$keys]"; else echo "$n: MISSED by $id (exit $rc)"; miss=1; fi
done
# restore evidence of the unchanged tree
for id in $(printf "%s\n" "${names[@]}" | sed "s/_.*//" | sort -u); do ./run.sh $id quick >/dev/null 2>&1 || echo "WARNING: $id fails on the unchanged tree"; done
exit $miss
