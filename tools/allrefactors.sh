#!/bin/bash
# usage: tools/allrefactors.sh [<patch>...]   run the quick checks (chosen by touched file) against every stored behaviour-preserving patch
# under /verif/refactors; prints "<patch> <prop>: silent|ALARM". These patches were produced by sub-agents asked for realistic refactorings
# that preserve behaviour; an ALARM here is a false alarm of the check (or a patch that is not behaviour-preserving after all).
cd /verif
files=("$@"); [ ${#files[@]} -eq 0 ] && files=(refactors/*.patch)
for f in "${files[@]}"; do tools/tryrefactor.sh "$(realpath $f)" 2>&1 | grep -E ": (silent|ALARM)|does not apply"; done
